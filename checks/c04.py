"""C04 — output hygiene of callVariant / callNovelORF / callAltTranslation: nothing canonical (incl.
I->L images), limits respected, no X / stop, each sequence once per FASTA, peptide table lists
exactly the FASTA's (sequence, entry) pairs and each row's sub-sequence equals the stated slice
(DESIGN §4 C04)."""
import sys
import vlib, drive, enginea as E, cv_common as CC, panel, oracle as O, refgen


def judge_hygiene(item):
    case, res = item
    out = dict(bad=[], n=0)
    if not res['ok'] or res['peptides'] is None:
        return out
    cl = case.cfg.cleavage()
    can = CC.canonical(case.ref, case.cfg)
    for pep in res['peptides']:
        out['n'] += 1
        if pep in can:
            out['bad'].append((pep, 'in the canonical pool'))
        if not (cl.min_length <= len(pep) <= cl.max_length):
            out['bad'].append((pep, f'length {len(pep)} outside [{cl.min_length},{cl.max_length}]'))
        if 'X' in pep or '*' in pep:
            out['bad'].append((pep, 'contains X or *'))
        elif O.mol_weight(pep) < cl.min_mw:
            out['bad'].append((pep, 'mass below min_mw'))
    for p in (res.get('problems') or []):
        out['bad'].append((str(p[1])[:40], p[0] + ': ' + str(p[1:])[:300]))
    return out


AUTO = E.Cfg(exception='auto')


def other_commands(run):
    """callNovelORF / callAltTranslation hygiene on the panel references under several settings."""
    jobs = []
    for refname in ('R3', 'R8', 'R6', 'R1', 'R7'):
        for cfg in (E.Cfg(exception=None), E.Cfg(exception='auto'), E.Cfg(exception=None, misc=0, min_length=5, max_length=12),
                    E.Cfg(rule='lysc', exception=None, misc=1)):
            for cmd in ('callNovelORF', 'callAltTranslation'):
                for flags in ((), ('--w2f-reassignment',), ('--coding-novel-orf',), ('--selenocysteine-termination', '--w2f-reassignment')):
                    if cmd == 'callNovelORF' and '--selenocysteine-termination' in flags:
                        continue
                    if cmd == 'callAltTranslation' and (not flags or '--coding-novel-orf' in flags):
                        continue
                    jobs.append((refname, cfg, cmd, flags))
    res = vlib.pmap(run_other, jobs, jobs=run.jobs)
    errs = vlib.harness_errors(res)
    if errs:
        raise RuntimeError(errs[0])
    nt = 0
    for (refname, cfg, cmd, flags), r in zip(jobs, res):
        key = f'{cmd}/{refname}/{cfg.rule}/{cfg.exception}/{cfg.misc}/{cfg.min_length}-{cfg.max_length}/{"+".join(flags)}'
        if r['exc']:
            run.violation(key + '|crash', f'{cmd} raised {r["exc"]}', dict(kind='other', ref=refname, cmd=cmd, flags=flags, cfg=cfg.key()))
            continue
        nt += 1 if r['n'] else 0
        for pep, why in r['bad']:
            run.violation(key + f'|{pep}', f'{cmd} on {refname}: {pep}: {why}', dict(kind='other', ref=refname, cmd=cmd, flags=flags, cfg=cfg.key()))
    run.block('novelORF+altTranslation', len(jobs), nt, True)


def run_other(job):
    refname, cfg, cmd, flags = job
    d = vlib.worker_dir() / 'other'
    d.mkdir(exist_ok=True)
    out = d / 'o.fasta'
    if out.exists():
        out.unlink()
    argv = [cmd, '-o', out, '--quiet'] + drive.ref_argv(E.ref_dir(refname)) + \
        drive.cleavage_argv(cfg.rule, cfg.exception, cfg.misc, cfg.min_length, cfg.max_length, cfg.min_mw) + list(flags)
    r = drive.run(argv)
    res = dict(exc=None if r['ok'] else r['exc'], bad=[], n=0)
    if not r['ok'] or not out.exists():
        return res
    cl = cfg.cleavage()
    can = CC.canonical(refname, cfg)
    seen = set()
    for h, s in drive.read_fasta(out):
        res['n'] += 1
        if s in seen:
            res['bad'].append((s, 'sequence occurs twice in the FASTA'))
        seen.add(s)
        if s in can:
            res['bad'].append((s, 'in the canonical pool'))
        if not (cl.min_length <= len(s) <= cl.max_length):
            res['bad'].append((s, 'length outside limits'))
        if 'X' in s or '*' in s:
            res['bad'].append((s, 'contains X or *'))
        elif O.mol_weight(s) < cl.min_mw:
            res['bad'].append((s, 'mass below min_mw'))
    return res


def main():
    run = vlib.Run('C04', 'exploration', __doc__)
    if run.args.replay:
        import json
        r = json.load(open(run.args.replay))
        if r.get('kind') == 'other':
            print(r)
            sys.exit(0)
        case = CC.case_from_replay(r)
        res = E.execute(case, keep_table=True)
        j = judge_hygiene((case, res))
        print('key:', r['key'], '\nbad:', j['bad'], '\ntable:\n', res.get('table'))
        sys.exit(1 if j['bad'] else 0)
    run.rule = ('predicates evaluated on every output of the C01 blocks (plus the same D1 block with '
                '--cleavage-exception auto) and of callNovelORF / callAltTranslation over the panel; '
                'non-trivial = the output has at least one peptide.')

    def on_case(case, r, j, name):
        for pep, why in j['bad']:
            run.violation(f'{case.key()}|hygiene:{pep}:{why[:40]}', f'{pep}: {why}', CC.case_to_replay(case))
        return j['n'] > 0
    # max_length = (length of the N-terminal product MKTAYIAK) - 1: its M-removed form KTAYIAK sits exactly at the
    # limit, and the I>L SNV in it yields the I/L image of a canonical peptide (pool boundary x M-removal x I/L)
    TIGHT = E.Cfg(exception=None, misc=1, min_length=5, max_length=7)
    extra = [('D1/R1/auto', E.d1_cases('R1', 'ENST01', AUTO), dict(deviations=1, exception='auto')),
             ('D1/R3/auto', E.d1_cases('R3', 'ENST03', AUTO), dict(deviations=1, exception='auto')),
             ('D1/R1/max7', E.d1_cases('R1', 'ENST01', TIGHT, 0, 60), dict(deviations=1, max_length=7, window=[0, 60]))]
    CC.run_blocks(run, 'C04', on_case, extra_blocks=extra, judge_fn=judge_hygiene)
    if not run.only or 'other' in run.only:
        other_commands(run)
    run.finish()


if __name__ == '__main__':
    main()
