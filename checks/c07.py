"""C07 — --skip-failed isolates failures; without it failures abort (DESIGN §4 C07).

E-FAULT: every subset (up to the tier's bound) of processing units — the main call, each fusion, each
circRNA of each transcript — is made to fail by interposing on the three per-unit callers; the run
with --skip-failed must complete, tally the failures and keep every (sequence, entry) pair of the
non-failing units; without --skip-failed it must raise and leave no FASTA."""
import importlib, itertools, re, sys
import vlib, drive, enginea as E, panel, refgen

REF = 'R10'
TXS = ['ENST10', 'ENST11', 'ENST14']


class InjectedFault(Exception):
    pass


def build_input():
    ref = panel.get(REF)
    small, fus, circ = [], [], []
    units = []
    for i, tx in enumerate(TXS):
        g = ref.gene_of[tx]['gene_id']
        c = ref.cds_tx(tx)
        # four small variants spread over the transcript, so that every later unit of the transcript (second
        # fusion with a breakpoint further downstream, circRNAs over both exons) has variant peptides that depend
        # on records lying downstream of an earlier unit's breakpoint (state shared between units shows up)
        base = (c[0] + 12) if c else 20
        for k, p in enumerate((base, base + 22, base + 44, base + 66)):
            al = E.small_alphabet(ref, tx, p, reduced=True)
            small.append(al[(i + 2 * k) % 3].gvf())          # SNVs only: keep the frame for the downstream units
        units.append(('main', tx))
        ex = ref.exons_gene(tx)
        for frs in ([ex[0]], [ex[0], ex[1]]) if i != 1 else ([ex[1]],):
            cid = f'CIRC-{tx}-{frs[0][0]}:{frs[-1][1]}'
            circ.append(refgen.circ_line(g, tx, frs, cid))
            units.append(('circ', cid))
        accs = [('ENST12', 40, 33), ('ENST13', 55, 75)] if i != 2 else [('ENST12', 62, 58)]
        for acc, q, bp in accs:
            dpos = ref.tx_to_gene(tx, bp + 3 * i) + 1
            fid = f'FUSION-{tx}:{dpos}-{acc}:{ref.tx_to_gene(acc, q)}'
            fus.append(refgen.fusion_line(ref, tx, dpos, acc, ref.tx_to_gene(acc, q), fid))
            units.append(('fusion', fid))
    return small, fus, circ, units


def unit_of_entry(entry):
    b = entry.split('|')[0]
    if b.startswith('FUSION-'):
        return ('fusion', b)
    if b.startswith('CIRC-') or b.startswith('CI-'):
        return ('circ', b)
    return ('main', b)


def tx_of_unit(u):
    if u[0] == 'main':
        return u[1]
    return u[1].split('-')[1].split(':')[0]


def run_once(job):
    fault, skip, threads, extra_bad = job
    fault = set(fault)
    small, fus, circ, units = build_input()
    d = vlib.worker_dir() / 'c07'
    d.mkdir(exist_ok=True)
    if extra_bad:
        small = small + [extra_bad]
    refgen.write_gvf(d / 'v.gvf', small)
    refgen.write_gvf(d / 'f.gvf', fus, 'parseSTARFusion', 'Fusion')
    refgen.write_gvf(d / 'c.gvf', circ, 'parseCIRCexplorer', 'circRNA')
    M = importlib.import_module('moPepGen.cli.call_variant_peptide')
    saved = (M.call_peptide_main, M.call_peptide_fusion, M.call_peptide_circ_rna, M.ParallelPool)
    hits = []
    returned = {}

    def _wrap(u, fn, a, kw):
        hits.append(u)
        if u in fault:
            raise InjectedFault(str(u))
        out = fn(*a, **kw)
        returned[u] = sorted(str(k) for k in out[0])
        return out

    def w_main(*a, **kw):
        return _wrap(('main', kw['tx_id']), saved[0], a, kw)

    def w_fusion(*a, **kw):
        return _wrap(('fusion', kw['variant'].id), saved[1], a, kw)

    def w_circ(*a, **kw):
        return _wrap(('circ', kw['record'].id), saved[2], a, kw)

    class Pool:
        def __init__(self, ncpus=None, **kw):
            pass

        def map(self, f, xs):
            return [f(x) for x in xs]
    M.call_peptide_main, M.call_peptide_fusion, M.call_peptide_circ_rna, M.ParallelPool = w_main, w_fusion, w_circ, Pool
    try:
        r = drive.call_variant(d / 'o.fasta', [d / 'v.gvf', d / 'f.gvf', d / 'c.gvf'], refdir=E.ref_dir(REF),
                               cleavage=drive.cleavage_argv(exception=None), flags=(['--skip-failed'] if skip else []),
                               threads=threads, capture_log=True)
    finally:
        M.call_peptide_main, M.call_peptide_fusion, M.call_peptide_circ_rna, M.ParallelPool = saved
    pairs = None
    if r['ok'] and r['peptides'] is not None:
        pairs = sorted((s, e.rsplit('|', 1)[0]) for s, hs in r['peptides'].items() for e in hs)
    tally = {}
    for lvl, msg in (r['log'] or []):
        for k, pat in (('variant', r'Variant peptides: (\d+)'), ('fusion', r'Fusion peptides: (\d+)'), ('circ', r'circRNA peptides: (\d+)'),
                       ('invalid', r'Number of invalid transcripts: (\d+)'), ('processed', r'Total transcripts processed: (\d+)')):
            m = re.search(pat, msg)
            if m:
                tally[k] = int(m.group(1))
    return dict(ok=r['ok'], exc=r['exc'], exc_type=r.get('exc_type'), pairs=pairs, tally=tally, hits=hits, returned=returned,
                fasta_exists=(d / 'o.fasta').exists())


_can = None


def _canonical():
    global _can
    if _can is None:
        import oracle as O
        ref = panel.get(REF)
        _can = O.canonical_pool(ref.proteins(), O.Cleavage('trypsin', None, 2))
    return _can


def judge(run, job, r, base, units):
    fault, skip, threads, extra_bad = job
    fs = sorted(f'{a}:{b}' for a, b in fault)
    key = f'fault/{"+".join(fs) or "none"}/skip={int(skip)}/threads={threads}' + ('/badrec' if extra_bad else '')
    rep = dict(kind='fault', fault=[list(u) for u in fault], skip=skip, threads=threads, extra_bad=extra_bad)
    failing = bool(fault) or bool(extra_bad)
    if not skip:
        if failing:
            if r['ok']:
                run.violation(key + '|no-abort', 'a unit failed but the command completed without --skip-failed', rep)
            elif r['fasta_exists']:
                run.violation(key + '|fasta-after-abort', 'the command aborted but left an output FASTA', rep)
        elif not r['ok']:
            run.violation(key + '|crash', f'fault-free run raised {r["exc"]}', rep)
        return
    if not r['ok']:
        run.violation(key + '|aborted', f'--skip-failed run did not complete: {r["exc"]}', rep)
        return
    import oracle as O
    cl = O.Cleavage('trypsin', None, 2)
    can = _canonical()
    got = {s_ for s_, _ in r['pairs']}
    union = set()
    for u, seqs in r['returned'].items():
        if u not in fault:
            union |= set(seqs)
    expect = {s_ for s_ in union if cl.valid(s_) and s_ not in can}
    lost = expect - got
    if lost:
        run.violation(key + f'|lost:{sorted(lost)[0]}', f'{len(lost)} peptides returned by non-failing units are missing from the FASTA: {sorted(lost)[:4]}', rep)
    extra = got - expect
    if extra:
        run.violation(key + f'|unaccounted:{sorted(extra)[0]}', f'{len(extra)} peptides in the FASTA that no non-failing unit returned (or invalid): {sorted(extra)[:4]}', rep)
    # a malformed record invalidates its whole transcript (documented: invalid transcripts are skipped and
    # counted); the units of that transcript are then legitimately not executed
    skipped_tx = {'ENST11'} if extra_bad else set()
    for u, seqs in base['returned'].items():
        if u in fault or tx_of_unit(u) in skipped_tx:
            continue
        if u not in r['returned']:
            run.violation(key + f'|unit-not-run:{u[0]}:{u[1]}', f'non-failing unit {u} was not executed', rep)
            continue
        gone = set(seqs) - set(r['returned'][u])
        if gone:
            run.violation(key + f'|unit-altered:{u[0]}:{u[1]}', f'failure elsewhere removed peptides of unit {u}: {sorted(gone)[:4]}', rep)
    # tally: per transcript and category
    exp = dict(variant=len({tx_of_unit(u) for u in fault if u[0] == 'main'}),
               fusion=len({tx_of_unit(u) for u in fault if u[0] == 'fusion'}),
               circ=len({tx_of_unit(u) for u in fault if u[0] == 'circ'}), invalid=1 if extra_bad else 0)
    for k, v in exp.items():
        if r['tally'].get(k) != v:
            run.violation(key + f'|tally-{k}', f'tally {k}: reported {r["tally"].get(k)} expected {v} (tally={r["tally"]})', rep)


def cli_run(job):
    """One real command-line run (real pathos ParallelPool for threads > 1) on the unit inputs plus, optionally, a record
    that fails by itself inside its unit: a circRNA record filed under another gene (KeyError in call_peptide_circ_rna)."""
    bad, skip, threads = job
    small, fus, circ, units = build_input()
    d = vlib.worker_dir() / f'c07cli'
    d.mkdir(exist_ok=True)
    ref = panel.get(REF)
    if bad:
        tx = TXS[0]
        other = ref.gene_of[TXS[1]]['gene_id']
        ex = ref.exons_gene(tx)
        circ = circ + [refgen.circ_line(other, tx, [ex[1]], f'CIRC-{tx}-{ex[1][0]}:{ex[1][1]}')]
    refgen.write_gvf(d / 'v.gvf', small)
    refgen.write_gvf(d / 'f.gvf', fus, 'parseSTARFusion', 'Fusion')
    refgen.write_gvf(d / 'c.gvf', circ, 'parseCIRCexplorer', 'circRNA')
    out = d / 'o.fasta'
    for p in (out, d / 'o_peptide_table.txt'):
        if p.exists():
            p.unlink()
    rd = E.ref_dir(REF)
    argv = [sys.executable, '-m', 'moPepGen.cli', 'callVariant', '-i', str(d / 'v.gvf'), str(d / 'f.gvf'), str(d / 'c.gvf'),
            '-o', str(out), '--threads', str(threads)] + [str(x) for x in drive.ref_argv(rd)] + \
        [str(x) for x in drive.cleavage_argv(exception=None)]
    if skip:
        argv.append('--skip-failed')
    import subprocess
    p = subprocess.run(argv, capture_output=True, text=True, timeout=600)
    txt = p.stdout + p.stderr
    pairs = None
    if out.exists():
        pairs = sorted((s_, e.rsplit('|', 1)[0]) for h, s_ in drive.read_fasta(out) for e in h.split(' '))
    m = re.search(r'circRNA peptides: (\d+)', txt)
    return dict(rc=p.returncode, pairs=pairs, circ_tally=int(m.group(1)) if m else None, tail=txt[-600:])


def part_cli(run):
    jobs = [(bad, skip, t) for bad in (False, True) for skip in (False, True) for t in (1, 2, 3)]
    res = vlib.pmap(cli_run, jobs, jobs=min(run.jobs, 6), chunk=1)
    errs = vlib.harness_errors(res)
    if errs:
        raise RuntimeError(errs[0])
    byjob = dict(zip(jobs, res))
    base = byjob[(False, False, 1)]
    if base['rc'] != 0 or not base['pairs']:
        raise RuntimeError(f'CLI base run unusable: rc={base["rc"]} {base["tail"]}')
    seqs = lambda r: sorted({s_ for s_, _ in r['pairs']}) if r['pairs'] is not None else None
    nt = 0
    for (bad, skip, t), r in byjob.items():
        key = f'cli/bad={int(bad)}/skip={int(skip)}/threads={t}'
        rep = dict(kind='cli', bad=bad, skip=skip, threads=t)
        if not bad:
            if r['rc'] != 0 or seqs(r) != seqs(base):
                run.violation(key + '|differs-from-base', f'fault-free CLI run differs from threads=1: rc={r["rc"]} {r["tail"][-200:]}', rep)
            continue
        nt += 1
        if not skip:
            if r['rc'] == 0:
                run.violation(key + '|no-abort', f'a circRNA unit failed inside its worker but the command exited 0 '
                              f'(FASTA written: {r["pairs"] is not None}, {len(r["pairs"] or [])} entries)', rep)
            elif r['pairs'] is not None:
                run.violation(key + '|fasta-after-abort', 'the command aborted but left an output FASTA', rep)
        else:
            if r['rc'] != 0:
                run.violation(key + '|aborted', f'--skip-failed run exited {r["rc"]}: {r["tail"][-300:]}', rep)
            else:
                if seqs(r) != seqs(base):
                    a, b = set(seqs(base)), set(seqs(r) or [])
                    run.violation(key + '|output-differs', f'peptides of the other units changed: lost {sorted(a - b)[:4]} extra {sorted(b - a)[:4]}', rep)
                if r['circ_tally'] != 1:
                    run.violation(key + '|tally-circ', f'circRNA failures reported: {r["circ_tally"]}, expected 1', rep)
    run.block('real-pool-cli', len(jobs), nt, True, threads='1,2,3', failing_record='circRNA record filed under another gene')
    return len(jobs)


# ---- the parsers' --skip-failed paths: one failing row in every position of a 4-row input ------------------------------
def parser_case(job):
    """job = (tool, failure kind, position of the failing row 0..3 | None, skip).  A row 'fails' when its conversion raises
    (a breakpoint / location outside its gene, a non-integer coordinate, a contig that is not in the genome); rows naming
    unknown genes are a different, always-skipped category (C15) and are not used here."""
    import re as _re, c15lib as L15, c14lib as L14
    tool, kind, pos, skip = job
    d = vlib.worker_dir() / 'c07p'
    d.mkdir(exist_ok=True)
    out = d / 'o.gvf'
    if out.exists():
        out.unlink()
    if tool == 'vep':
        R = _PREF.setdefault('vep', L14.make_ref((0, False)))
        rd = d / 'refv'
        if not rd.exists():
            R.write(rd)
        tx = R.genes[0]['transcripts'][0]
        g = R.genes[0]
        ex = tx['exons']
        good = []
        for k in range(3):
            x = ex[0][0] + 2 + 3 * k
            b = R.genome[x]
            alt = 'A' if b != 'A' else 'C'
            if g['strand'] == -1:
                alt = {'A': 'T', 'C': 'G', 'G': 'C', 'T': 'A'}[alt]
            good.append(L14.vep_line(R.chrom, f'v{k}', str(x + 1), alt if g['strand'] == 1 else alt, g['gene_id'], tx['tx_id'], g['strand']))
        bad = dict(beyond=L14.vep_line(R.chrom, 'vb', str(len(R.genome) - 2), 'A', g['gene_id'], tx['tx_id'], g['strand']),
                   nonint=L14.vep_line(R.chrom, 'vb', '12x', 'A', g['gene_id'], tx['tx_id'], g['strand']),
                   contig=L14.vep_line('chrZZ', 'vb', str(ex[0][0] + 3), 'A', g['gene_id'], tx['tx_id'], g['strand']))[kind]
        hdr = L14.VEP_HEADER
        argv0 = ['parseVEP', '--genome-fasta', rd / 'genome.fasta', '--annotation-gtf', rd / 'annotation.gtf', '--source', 'gSNP']
    else:
        R = _PREF.setdefault('fus', L15.build_ref())
        rd = d / 'reff'
        if not rd.exists():
            R.write(rd)
        genes = sorted(R.gene)

        def mid(gid):
            e0 = R.gene[gid]['transcripts'][0]['exons'][0]
            return (e0[0] + e0[1]) // 2
        rows = [L15.Row(genes[0], mid(genes[0]), genes[1], mid(genes[1])), L15.Row(genes[1], mid(genes[1]), genes[2], mid(genes[2])),
                L15.Row(genes[2], mid(genes[2]), genes[0], mid(genes[0]))]
        good = [L15.row_text(R, tool, r) for r in rows]
        src = L15.row_text(R, tool, L15.Row(genes[1], mid(genes[1]), genes[3], mid(genes[3])))
        if kind == 'beyond':
            bad = _re.sub(r':(\d+)', lambda m: ':' + str(len(R.genome) + 500), src, count=1)
        elif kind == 'nonint':
            bad = _re.sub(r':(\d+)', ':12x', src, count=1)
        else:
            c = R.chrom[3:] if tool == 'fc' else R.chrom
            bad = src.replace(c + ':', ('ZZ' if tool == 'fc' else 'chrZZ') + ':')
        hdr = {'star': L15.STAR_HEADER, 'fc': L15.FC_HEADER, 'arriba': L15.ARRIBA_HEADER}[tool]
        argv0 = [L15.COMMAND[tool], '--source', 'Fusion', '-a', rd / 'annotation.gtf', '-g', rd / 'genome.fasta']
    lines = list(good)
    if pos is not None:
        lines.insert(pos, bad)
    inp = d / 'in.tsv'
    inp.write_text(hdr + '\n' + '\n'.join(lines) + '\n')
    r = drive.run(argv0 + ['-i', inp, '-o', out, '--quiet'] + (['--skip-failed'] if skip else []), capture_log=True)
    recs = None
    if out.exists():
        recs = sorted(l.rstrip('\n') for l in open(out) if not l.startswith('#'))
    return dict(ok=r['ok'], exc=r['exc'], recs=recs)


_PREF = {}


def part_parsers(run):
    jobs = []
    for tool in ('star', 'fc', 'arriba', 'vep'):
        jobs.append((tool, 'beyond', None, False))
        jobs.append((tool, 'beyond', None, True))
        for kind in ('beyond', 'nonint', 'contig'):
            for pos in range(4):
                for skip in (False, True):
                    jobs.append((tool, kind, pos, skip))
    res = vlib.pmap(parser_case, jobs, jobs=run.jobs)
    errs = vlib.harness_errors(res)
    if errs:
        raise RuntimeError(errs[0])
    by = dict(zip(jobs, res))
    nt = 0
    for tool in ('star', 'fc', 'arriba', 'vep'):
        base = by[(tool, 'beyond', None, False)]
        if not base['ok'] or not base['recs'] or by[(tool, 'beyond', None, True)]['recs'] != base['recs']:
            raise RuntimeError(f'parser base run unusable for {tool}: {base["exc"]}')
        # does this row kind fail at all for this tool?  (a row that converts fine is not a fault: e.g. Arriba rows carry
        # gene ids, so a foreign contig name is irrelevant).  Decided by the run WITH --skip-failed: the row is a fault iff
        # the good rows' records come out alone.
        for kind in ('beyond', 'nonint', 'contig'):
            for pos in range(4):
                a, b = by[(tool, kind, pos, False)], by[(tool, kind, pos, True)]
                key = f'parser/{tool}/{kind}/pos={pos}'
                rep = dict(kind='parser', tool=tool, fault=kind, pos=pos)
                if not b['ok']:
                    run.violation(key + '/skip=1|aborted', f'--skip-failed run raised {b["exc"]}', rep)
                    continue
                is_fault = b['recs'] == base['recs']
                if not is_fault:
                    # the row converted to records: then both runs must agree and complete
                    if not a['ok'] or a['recs'] != b['recs']:
                        run.violation(key + '|inconsistent', f'row yields records with --skip-failed but without it: ok={a["ok"]} {a["exc"]}', rep)
                    continue
                nt += 1
                if a['ok']:
                    run.violation(key + '/skip=0|no-abort', f'a row that fails to convert was swallowed without --skip-failed '
                                  f'(records written: {len(a["recs"] or [])})', rep)
                elif a['recs'] is not None:
                    run.violation(key + '/skip=0|gvf-after-abort', 'the command aborted but left an output GVF', rep)
    run.block('parsers-skip-failed', len(jobs), nt, True, tools='parseSTARFusion,parseFusionCatcher,parseArriba,parseVEP',
              faults='breakpoint beyond the genome, non-integer coordinate, foreign contig', positions='0..3')
    return len(jobs)


def main():
    run = vlib.Run('C07', 'fault_enumeration', __doc__)
    small, fus, circ, units = build_input()
    if run.args.replay:
        import json
        r = json.load(open(run.args.replay))
        job = (tuple(tuple(u) for u in r['fault']), r['skip'], r['threads'], r.get('extra_bad'))
        out = run_once(job)
        print(r['key'], '\n', r['what'], '\n ok:', out['ok'], out['exc'], '\n tally:', out['tally'], '\n pairs:', len(out['pairs'] or []))
        sys.exit(0)
    kmax = 2 if run.tier == 'quick' else len(units)
    faults = [()]
    for k in range(1, kmax + 1):
        faults += list(itertools.combinations(units, k))
    jobs = [(f, skip, t, None) for f in faults for skip in (True, False) for t in ((1, 3) if (run.tier == 'thorough' or len(f) <= 1) else (1,))]
    # malformed record: a record whose REF does not fit its location (invalid transcript series)
    ref = panel.get(REF)
    g = ref.gene_of['ENST11']['gene_id']
    L = len(ref.gene_seq(g))
    bad = f'{g}\t{L + 40}\tSNV-{L + 40}-A-T\tA\tT\t.\t.\tTRANSCRIPT_ID=ENST11;GENOMIC_POSITION=chr1:1-2;GENE_SYMBOL=x'
    jobs += [((), True, 1, bad), ((), False, 1, bad), ((units[0],), True, 1, bad)]
    res = vlib.pmap(run_once, jobs, jobs=run.jobs)
    errs = vlib.harness_errors(res)
    if errs:
        raise RuntimeError(errs[0])
    base = next(r for j, r in zip(jobs, res) if j == ((), True, 1, None))
    if not base['ok'] or not base['pairs']:
        raise RuntimeError(f'fault-free base run unusable: {base["exc"]}')
    hit_units = set(base['hits'])
    if hit_units != set(units):
        raise RuntimeError(f'interposition points not all hit: missing {set(units) - hit_units}')
    per_unit = {u: set(v) for u, v in base['returned'].items()}
    nt = 0
    for job, r in zip(jobs, res):
        judge(run, job, r, base, units)
        if job[0] and any(per_unit.get(u) for u in job[0]):
            nt += 1
    run.block('fault-sets', len(jobs), nt, True, units=len(units), max_faults=kmax,
              units_with_peptides=sum(1 for u in units if per_unit.get(u)))
    run.rule = (f'{len(units)} units (main / fusion / circRNA of 3 transcripts); every fault set with <= {kmax} failing units x '
                '--skip-failed on/off x threads 1 (and 3 with an ordered pool stub); plus a malformed record; '
                'non-trivial = at least one failing unit has peptides in the fault-free run.')
    if run.want('cli'):
        part_cli(run)
    if run.want('parsers'):
        part_parsers(run)
    run.sample(dict(units=[list(u) for u in units], example_fault=[list(units[0]), list(units[1])]))
    run.assume('faults are injected at the entry of call_peptide_main / call_peptide_fusion / call_peptide_circ_rna')
    run.finish()


if __name__ == '__main__':
    main()
