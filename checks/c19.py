"""C19 - filterFasta keeps exactly the entries satisfying its criteria.

Bounded exhaustive enumeration of (FASTA, expression table, cutoff, flags, denylist, miscleavage
range, enzyme), driving the real `filterFasta` CLI function in-process through --index-dir (index built
once with generateIndex on a 4-transcript reference) and, in one block, through the raw GTF path.

Oracle (lib/c19lib.py) = the keep-predicate as the property states it: an entry is kept iff
(expression of all its transcripts >= cutoff, or it is a fusion / circRNA / splice-altering entry, or
--keep-all-coding / --keep-all-noncoding applies) and it is not denylisted unless canonical and
--keep-canonical; a peptide is kept iff some entry is kept and its miscleavage count is within the
range; sequences and entry texts unchanged; output is a sub-collection of the input.
Oracle-free relations on the real outputs: idempotence, monotonicity in the cutoff and in the
miscleavage range.

Blocks
  entries-packed   one FASTA holding every peptide with 1-2 header entries over the entry alphabet, each
                   once with a denylisted and once with a non-denylisted sequence x all 3^4 expression
                   tables {cutoff-e, cutoff, cutoff+e} x cutoffs x all 2^4 flag combinations (+ no table)
  misc-packed      every amino-acid string up to length L over AKRPDCH (+ KRPWMA) x 3 enzymes x all ranges
                   lo:hi with 0<=lo<=hi<=3, with and without an expression filter
  cross-single     one peptide per FASTA: entries x own-transcript tables x flags x denylist in/out x
                   sequences with 0..3 miscleavages x enzymes x ranges (literal product, small files)
  table-format     delimiter / header-name / skip-lines / column-position variants of the table
  rawgtf           the same runs through --annotation-gtf instead of --index-dir
Violations are grouped by mechanism (entry kind x lost/spurious, enzyme x lost/spurious, ...); the key
names the smallest failing case of the group.
"""
import itertools, json, os, shutil, sys
from pathlib import Path
import vlib, drive, c19lib as L
from c19lib import Config

E = L.entry_alphabet()
IDX = None      # index directory (set in main before forking)
REFDIR = None
ENZYMES = ['trypsin', 'lysc', 'asp-n']
RANGES = [(lo, hi) for lo in range(4) for hi in range(lo, 4)]
FLAGS = list(itertools.product([False, True], repeat=4))      # kac, kan, kc, deny


def flag_str(f):
    return ''.join('1' if x else '0' for x in f)


# ---- peptides --------------------------------------------------------------------------------------
def unique_seqs():
    """Distinct sequences without K/R/D (no cleavage site for any enzyme used here)."""
    for n in (6, 7):
        for t in itertools.product('AGSTV', repeat=n):
            yield ''.join(t) + 'L'


def packed_peptides(ordered_pairs):
    """[(seq, (entries...), denylisted)]: every 1-entry peptide and every 2-entry peptide (unordered or
    ordered pairs of distinct entries), each with one denylisted and one other sequence."""
    combos = [(e,) for e in E]
    if ordered_pairs:
        combos += [(a, b) for a in E for b in E if a is not b]
    else:
        combos += list(itertools.combinations(E, 2))
    gen = unique_seqs()
    out = []
    for c in combos:
        for dl in (False, True):
            out.append((next(gen), c, dl))
    return out


def write_peptides(path, peps):
    drive.write_fasta(path, [(' '.join(e.text for e in ents), s) for s, ents, _ in peps])


def write_denylist(path, peps, extra=('MAAAAAAK', 'GGGGGGGR')):
    recs = [(f'DENY{i}|x', s) for i, (s, _, dl) in enumerate(peps) if dl]
    recs += [(f'OTHER{i}', s) for i, s in enumerate(extra)]
    drive.write_fasta(path, recs)


TABLE_FORMATS = {
    'tab-index': dict(delim='\t', header=None, skip=0, cols=('1', '2'), layout=('tx', 'q')),
    'csv-names': dict(delim=',', header=True, skip=0, cols=('transcript_id', 'tpm'), layout=('tx', 'q')),
    'tab-skip2': dict(delim='\t', header=None, skip=2, cols=('1', '2'), layout=('tx', 'q')),
    'tab-cols-2-4': dict(delim='\t', header=None, skip=0, cols=('2', '4'), layout=('g', 'tx', 'len', 'q')),
    'tab-names-skip1': dict(delim='\t', header=True, skip=1, cols=('transcript_id', 'tpm'), layout=('g', 'tx', 'len', 'q')),
}


def write_table(path, values, fmt='tab-index'):
    f = TABLE_FORMATS[fmt]
    names = dict(tx='transcript_id', q='tpm', g='gene_id', len='length')
    lines = []
    for _ in range(f['skip']):
        lines.append('# produced by a quantifier, to be skipped')
    if f['header']:
        lines.append(f['delim'].join(names[c] for c in f['layout']))
    for t in L.TXS:
        row = dict(tx=t, q=values[t], g=L.GENE[t], len='1000')
        lines.append(f['delim'].join(row[c] for c in f['layout']))
    Path(path).write_text('\n'.join(lines) + '\n')
    a = ['--exprs-table', path, '--tx-id-col', f['cols'][0], '--quant-col', f['cols'][1]]
    if f['delim'] != '\t':
        a += ['--delimiter', f['delim']]
    if f['skip']:
        a += ['--skip-lines', f['skip']]
    return a


def run_filter(inp, outp, table_argv, cutoff, flags, deny_path, enzyme=None, rng=None, raw=False):
    if os.path.exists(outp):
        os.unlink(outp)
    a = ['filterFasta', '-i', inp, '-o', outp, '--quiet']
    a += ['--annotation-gtf', REFDIR / 'annotation.gtf'] if raw else ['--index-dir', IDX]
    a += table_argv or []
    if cutoff is not None:
        a += ['--quant-cutoff', cutoff]
    kac, kan, kc, deny = flags
    if kac:
        a.append('--keep-all-coding')
    if kan:
        a.append('--keep-all-noncoding')
    if kc:
        a.append('--keep-canonical')
    if deny:
        a += ['--denylist', deny_path]
    if rng is not None:
        a += ['--miscleavages', f'{"" if rng[0] is None else rng[0]}:{"" if rng[1] is None else rng[1]}',
              '--enzyme', enzyme]
    r = drive.run(a)
    if not r['ok']:
        return None, r['exc'], a
    return drive.read_fasta(outp), None, a


# ---- comparison ------------------------------------------------------------------------------------
def own_levels(ents, levels):
    if levels is None:
        return 'none'
    txs = []
    for e in ents:
        for t in e.txs:
            if t not in txs:
                txs.append(t)
    return ','.join(f'{t}:{L.LEVEL_NAME[levels[L.TXS.index(t)]]}' for t in txs)


class Ctx:
    """What identifies a configuration in keys / replay files."""
    def __init__(self, family, levels, cutoff_i, flags, fmt='tab-index', enzyme=None, rng=None, raw=False):
        self.family, self.levels, self.cutoff_i, self.flags, self.fmt = family, levels, cutoff_i, flags, fmt
        self.enzyme, self.rng, self.raw = enzyme, rng, raw

    def cutoff(self):
        return L.FAMILIES[self.family]['cutoffs'][self.cutoff_i]

    def config(self):
        ex = L.table_values(self.family, self.levels) if self.levels is not None else None
        return Config(ex, self.cutoff() if ex is not None else None, *self.flags)

    def rank(self, ents, dl):
        own = tuple(self.levels[L.TXS.index(t)] for e in ents for t in e.txs) if self.levels is not None else ()
        return (len(ents), tuple(e.idx for e in ents), sum(self.flags), self.flags, int(dl),
                0 if self.levels is None else 1, own, self.cutoff_i, self.levels or (), self.family, self.fmt,
                self.enzyme or '', self.rng or ())

    def case_id(self, ents, dl):
        s = f'e={"+".join(e.kind + "@" + e.txs[0] for e in ents)};x={own_levels(ents, self.levels)}'
        if self.levels is not None:
            s += f';cut={self.cutoff()}'
        s += f';f={flag_str(self.flags)}'
        if self.flags[3]:
            s += f';deny={"in" if dl else "out"}'
        return s

    def to_json(self):
        return dict(family=self.family, levels=self.levels, cutoff_i=self.cutoff_i, flags=list(self.flags),
                    fmt=self.fmt, enzyme=self.enzyme, rng=self.rng, raw=self.raw)

    @staticmethod
    def from_json(d):
        return Ctx(d['family'], tuple(d['levels']) if d['levels'] is not None else None, d['cutoff_i'],
                   tuple(d['flags']), d['fmt'], d['enzyme'], tuple(d['rng']) if d['rng'] else None, d['raw'])


def _lt(a, b):
    try:
        return a < b
    except TypeError:
        return repr(a) < repr(b)


class Best:
    """group -> smallest failing case + count."""
    def __init__(self):
        self.d = {}

    def add(self, group, rank, case_id, detail, replay):
        b = self.d.get(group)
        if b is None:
            self.d[group] = [rank, case_id, detail, replay, 1]
        else:
            b[4] += 1
            if _lt(rank, b[0]):
                b[0:4] = [rank, case_id, detail, replay]

    def merge(self, other):
        for g, v in other.d.items():
            b = self.d.get(g)
            if b is None:
                self.d[g] = list(v)
            else:
                n = b[4] + v[4]
                if _lt(v[0], b[0]):
                    self.d[g] = list(v)
                self.d[g][4] = n


def pep_replay(seq, ents, dl, ctx, block):
    return dict(block=block, seq=seq, entries=[e.idx for e in ents], denylisted=dl, ctx=ctx.to_json())


def compare(peps, out, ctx, best, block, prefix=''):
    """peps: [(seq, entries, denylisted)], out: records written.  Returns (n_nontrivial, kept) where kept
    is the set of (seq, entry text) pairs written (for the metamorphic relations)."""
    cfg = ctx.config()
    got = {}
    for h, s in out:
        if s in got:
            best.add(prefix + 'duplicate-sequence', (len(s), s), f's={s}', f'sequence {s} written twice', dict(block=block, seq=s, ctx=ctx.to_json()))
        got[s] = h.split(' ')
    nontriv = 0
    kept = set()
    for seq, ents, dl in peps:
        must, may = L.expected(ents, seq, cfg, dl, ctx.enzyme, ctx.rng)
        if len(must) < len(ents):
            nontriv += 1
        g = got.pop(seq, None)
        if g is None:
            g = []
        for x in g:
            kept.add((seq, x))
        texts = [e.text for e in ents]
        if g == [e.text for e in must] and len(may) == len(must):
            continue
        maytexts = {e.text for e in may}
        bad = []
        for e in must:
            if e.text not in g:
                bad.append((f'keep/{e.kind}/lost', e))
        for x in g:
            if x not in maytexts:
                if x in texts:
                    e = ents[texts.index(x)]
                    bad.append((f'keep/{e.kind}/spurious', e))
                else:
                    bad.append((f'entry-rewritten/{"+".join(e.kind for e in ents)}', None))
        if len(set(g)) != len(g):
            bad.append((f'entry-duplicated/{"+".join(e.kind for e in ents)}', None))
        for grp, e in bad:
            if ctx.rng is not None:
                continue        # with a miscleavage range the caller attributes (see cross/misc blocks)
            best.add(prefix + grp, ctx.rank(ents, dl), ctx.case_id(ents, dl),
                     f'header {" ".join(texts)!r} seq={seq} denylisted={dl}: expected entries '
                     f'{[e.text for e in must]}' + (f' (undecided: {[e.text for e in may if e not in must]})' if len(may) > len(must) else '') +
                     f', written {g}', pep_replay(seq, ents, dl, ctx, block))
    for s, g in got.items():
        best.add(prefix + 'foreign-sequence', (len(s), s), f's={s}', f'sequence {s} with header {g} is not in the input',
                 dict(block=block, seq=s, ctx=ctx.to_json()))
    return nontriv, kept


def as_map(out):
    return {s: h for h, s in out}


# ---- block A: entries-packed ----------------------------------------------------------------------
_A = {}


def a_files(d, ordered, singles_only=False):
    """-> (peptides, fasta path, denylist path); written once per worker and variant."""
    key = (str(d), ordered, singles_only)
    if key not in _A:
        peps = packed_peptides(ordered)
        name = 'A' + ('o' if ordered else 'u') + ('1' if singles_only else '')
        if singles_only:
            peps = [p for p in peps if len(p[1]) == 1]
        write_peptides(d / f'{name}.fasta', peps)
        write_denylist(d / f'{name}_deny.fasta', peps)
        _A[key] = (peps, d / f'{name}.fasta', d / f'{name}_deny.fasta')
    return _A[key]


def job_a(job):
    _, family, levels_list, ncut, ordered, raw = job
    ncut_of = ncut if callable(ncut) else (lambda lv: ncut)
    d = vlib.worker_dir()
    peps, fa, deny_fa = a_files(d, ordered, singles_only=raw)   # the raw-GTF comparison uses the 1-entry peptides only
    block = 'rawgtf' if raw else 'entries-packed'
    prefix = 'rawgtf/' if raw else ''
    best = Best()
    ev = nt = 0
    for levels in levels_list:
        targv = write_table(d / 'A.tsv', L.table_values(family, levels)) if levels is not None else None
        for flags in FLAGS:
            keptc = {}
            for ci in (range(ncut_of(levels)) if levels is not None else [0]):
                ctx = Ctx(family, levels, ci, flags, raw=raw)
                out, err, argv = run_filter(fa, d / 'A_out.fasta', targv, ctx.cutoff(), flags, deny_fa, raw=raw)
                ev += len(peps)
                if err:
                    best.add(prefix + f'crash/{err.split(":")[0]}', ctx.rank((), False), f'x={levels};f={flag_str(flags)}',
                             f'filterFasta raised {err}', dict(block=block, ctx=ctx.to_json(), argv=[str(x) for x in argv]))
                    continue
                if raw:
                    # raw-GTF path vs index path on the same inputs (the index path is what block entries-packed judges)
                    ref, err0, _ = run_filter(fa, d / 'A_ref.fasta', targv, ctx.cutoff(), flags, deny_fa)
                    kept = set()
                    if not err0:
                        mo, mr = as_map(out), as_map(ref)
                        nt += len(peps) - len(mr)
                        if mo != mr:
                            seqs = sorted((s for s in set(mo) | set(mr) if mo.get(s) != mr.get(s)))
                            byseq = {p[0]: p for p in peps}
                            # Is every difference exactly what "the raw path knows no coding transcript" predicts?
                            # (load_coding_transcripts: dump_gtf never sets is_protein_coding -> empty coding set)
                            cfg0 = ctx.config()
                            explained = True
                            for s in seqs:
                                if s not in byseq:
                                    explained = False
                                    break
                                _, ents_, dl_ = byseq[s]
                                must0, may0 = L.expected(ents_, s, cfg0, dl_, coding=frozenset())
                                if (mo.get(s) or '').split(' ') != [e.text for e in must0] and not (not must0 and s not in mo):
                                    explained = False
                                    break
                            cand = min((ctx.rank(byseq[s][1], byseq[s][2]), s) for s in seqs if s in byseq)
                            s0 = cand[1]
                            best.add('rawgtf/coding-transcripts-unknown' if explained else 'rawgtf/differs-from-index-path',
                                     cand[0], ctx.case_id(byseq[s0][1], byseq[s0][2]),
                                     f'header {" ".join(e.text for e in byseq[s0][1])!r}: --index-dir writes {mr.get(s0)!r}, '
                                     f'--annotation-gtf writes {mo.get(s0)!r} ({len(seqs)} peptides differ in this run)',
                                     pep_replay(s0, byseq[s0][1], byseq[s0][2], ctx, block))
                    keptc[ci] = kept
                    continue
                n, kept = compare(peps, out, ctx, best, block, prefix)
                nt += n
                keptc[ci] = kept
                # idempotence: filter the output again with the same configuration
                out2, err, _ = run_filter(d / 'A_out.fasta', d / 'A_out2.fasta', targv, ctx.cutoff(), flags, deny_fa, raw=raw)
                if err or as_map(out2) != as_map(out):
                    diff = sorted(set(out) ^ set(out2 or []))[:3]
                    best.add(prefix + 'idempotence/entries', ctx.rank((), False), f'x={levels};cut={ctx.cutoff()};f={flag_str(flags)}',
                             f'filter(filter(x)) != filter(x): {err or diff}', dict(block=block, ctx=ctx.to_json(), idempotence=True))
            # monotone in the cutoff
            cuts = L.FAMILIES[family]['cutoffs']
            for a in keptc:
                for b in keptc:
                    if float(cuts[a]) < float(cuts[b]) and not keptc[b] <= keptc[a]:
                        extra = sorted(keptc[b] - keptc[a])[:3]
                        ctx = Ctx(family, levels, b, flags, raw=raw)
                        best.add(prefix + 'monotone-cutoff', ctx.rank((), False), f'x={levels};cut={cuts[a]}<{cuts[b]};f={flag_str(flags)}',
                                 f'cutoff {cuts[b]} keeps entries that cutoff {cuts[a]} drops: {extra}',
                                 dict(block=block, ctx=ctx.to_json(), lower_cutoff_i=a))
    return block, ev, nt, best


class _QuickCuts:
    def __init__(self, first_level):
        self.first_level = first_level

    def __call__(self, levels):
        return 2 if levels[0] == self.first_level else 1


# ---- block B: misc-packed ---------------------------------------------------------------------------
def job_b(job):
    _, alpha, n, prefixes, enzyme, with_table = job
    d = vlib.worker_dir()
    ekeep, edrop = E[0], E[1]          # plain coding entries on ENST01 / ENST02
    seqs = [p + ''.join(t) for p in prefixes for t in itertools.product(alpha, repeat=n - len(p))]
    peps = [(s, (ekeep if i % 2 == 0 else edrop,), False) for i, s in enumerate(seqs)]
    write_peptides(d / 'B.fasta', peps)
    levels = (2, 0, 2, 2) if with_table else None
    targv = write_table(d / 'B.tsv', L.table_values('float', levels)) if with_table else None
    flags = (False, False, False, False)
    best = Best()
    ev = nt = 0
    base_ctx = Ctx('float', levels, 0, flags)
    out0, err, argv = run_filter(d / 'B.fasta', d / 'B_out.fasta', targv, base_ctx.cutoff(), flags, None)
    if err:
        best.add(f'crash/{err.split(":")[0]}', (0,), 'misc-baseline', f'filterFasta raised {err}', dict(block='misc-packed', argv=[str(x) for x in argv]))
        return 'misc-packed', len(peps), 0, best
    n0, _ = compare(peps, out0, base_ctx, best, 'misc-packed')
    base = as_map(out0)
    outs = {}
    for rng in RANGES:
        ctx = Ctx('float', levels, 0, flags, enzyme=enzyme, rng=rng)
        out, err, argv = run_filter(d / 'B.fasta', d / 'B_out.fasta', targv, ctx.cutoff(), flags, None, enzyme, rng)
        ev += len(peps)
        if err:
            best.add(f'crash/{err.split(":")[0]}', (1, enzyme, rng), f'enzyme={enzyme};r={rng[0]}:{rng[1]}', f'filterFasta raised {err}',
                     dict(block='misc-packed', argv=[str(x) for x in argv]))
            continue
        got = as_map(out)
        outs[rng] = set(got)
        for s, ents, _ in peps:
            if s not in base:
                ok = s not in got
                exp_present = False
            else:
                exp_present = L.misc_ok(s, enzyme, rng)
                ok = (s in got) == exp_present and (not exp_present or got[s] == base[s])
            if s in base:
                nt += 1
            if not ok:
                direction = 'lost' if exp_present else 'spurious'
                m = L.miscleavages(s, enzyme)
                best.add(f'misc/{enzyme}/{direction}', (len(s), s, rng), f's={s};r={rng[0]}:{rng[1]}',
                         f'peptide {s} has {m} missed {enzyme} cleavage(s); --miscleavages {rng[0]}:{rng[1]} '
                         f'{"must keep" if exp_present else "must drop"} it (kept without the option: {s in base}); '
                         f'written: {got.get(s)}',
                         dict(block='misc-packed', seq=s, entries=[ents[0].idx], denylisted=False, ctx=ctx.to_json()))
        for s in set(got) - {p[0] for p in peps}:
            best.add('foreign-sequence', (len(s), s), f's={s}', f'sequence {s} is not in the input', dict(block='misc-packed', seq=s, ctx=ctx.to_json()))
        out2, err, _ = run_filter(d / 'B_out.fasta', d / 'B_out2.fasta', targv, ctx.cutoff(), flags, None, enzyme, rng)
        if err or as_map(out2) != got:
            best.add(f'idempotence/misc/{enzyme}', (1, enzyme, rng), f'r={rng[0]}:{rng[1]}', f'filter(filter(x)) != filter(x): {err}',
                     dict(block='misc-packed', ctx=ctx.to_json(), idempotence=True, alpha=alpha, n=n, prefixes=prefixes, with_table=with_table))
    for r1 in outs:
        for r2 in outs:
            if r1 != r2 and r2[0] <= r1[0] and r1[1] <= r2[1] and not outs[r1] <= outs[r2]:
                extra = sorted(outs[r1] - outs[r2], key=lambda x: (len(x), x))
                best.add(f'monotone-misc/{enzyme}', (len(extra[0]), extra[0], r1, r2), f's={extra[0]};r={r1[0]}:{r1[1]}<{r2[0]}:{r2[1]}',
                         f'range {r1} keeps {extra[:3]} which the wider range {r2} drops',
                         dict(block='misc-packed', seq=extra[0], entries=[0], denylisted=False,
                              ctx=Ctx('float', levels, 0, flags, enzyme=enzyme, rng=r1).to_json(), wider=list(r2)))
    return 'misc-packed', ev, nt, best


# ---- block C: cross-single --------------------------------------------------------------------------
CROSS_SEQS = ['ASDAK', 'AKDAR', 'AKCRADK', 'DAKARAKDA']
CROSS_RANGES = [(0, 0), (0, 1), (1, 2), (2, 3)]
CROSS_PAIR_KINDS = ['plain-coding', 'plain-noncoding', 'novel-orf', 'novel-orf-coding', 'sect-coding',
                    'fusion-coding-noncoding', 'fusion-noncoding-coding', 'circ-coding', 'splice-SE-noncoding',
                    'splice-RI-coding']


def job_c(job):
    _, idxs, seqs = job
    d = vlib.worker_dir()
    ents = tuple(E[i] for i in idxs)
    own = []
    for e in ents:
        for t in e.txs:
            if t not in own:
                own.append(t)
    best = Best()
    ev = nt = 0
    for seq in seqs:
        drive.write_fasta(d / 'C.fasta', [(' '.join(e.text for e in ents), seq)])
        drive.write_fasta(d / 'C_deny_in.fasta', [('D1', 'MAAAAAAK'), ('D2', seq)])
        drive.write_fasta(d / 'C_deny_out.fasta', [('D1', 'MAAAAAAK'), ('D2', seq + 'A')])
        for own_lv in itertools.product(range(3), repeat=len(own)):
            levels = tuple(own_lv[own.index(t)] if t in own else 2 for t in L.TXS)
            targv = write_table(d / 'C.tsv', L.table_values('float', levels))
            for flags in FLAGS:
                for dl in ((False, True) if flags[3] else (False,)):
                    deny = d / ('C_deny_in.fasta' if dl else 'C_deny_out.fasta')
                    peps = [(seq, ents, dl)]
                    ctx0 = Ctx('float', levels, 0, flags)
                    out0, err, argv = run_filter(d / 'C.fasta', d / 'C_out.fasta', targv, ctx0.cutoff(), flags, deny)
                    ev += 1
                    if err:
                        best.add(f'crash/{err.split(":")[0]}', ctx0.rank(ents, dl), ctx0.case_id(ents, dl), f'filterFasta raised {err}',
                                 dict(block='cross-single', argv=[str(x) for x in argv]))
                        continue
                    n, _ = compare(peps, out0, ctx0, best, 'cross-single')
                    nt += n
                    base = as_map(out0)
                    for enzyme in ENZYMES:
                        for rng in CROSS_RANGES:
                            ctx = Ctx('float', levels, 0, flags, enzyme=enzyme, rng=rng)
                            out, err, argv = run_filter(d / 'C.fasta', d / 'C_out.fasta', targv, ctx.cutoff(), flags, deny, enzyme, rng)
                            ev += 1
                            if err:
                                best.add(f'crash/{err.split(":")[0]}', ctx.rank(ents, dl), ctx.case_id(ents, dl), f'filterFasta raised {err}',
                                         dict(block='cross-single', argv=[str(x) for x in argv]))
                                continue
                            got = as_map(out)
                            okm = L.misc_ok(seq, enzyme, rng)
                            exp = base if okm else {}
                            if base:
                                nt += 1
                            if got != exp:
                                direction = 'lost' if okm else 'spurious'
                                best.add(f'misc/{enzyme}/{direction}', (len(seq), seq, rng), f's={seq};r={rng[0]}:{rng[1]}',
                                         f'peptide {seq} ({L.miscleavages(seq, enzyme)} missed {enzyme} cleavages) header '
                                         f'{" ".join(e.text for e in ents)!r}: without --miscleavages the output is {base}, with '
                                         f'{rng[0]}:{rng[1]} it must be {exp}, written {got}', pep_replay(seq, ents, dl, ctx, 'cross-single'))
    return 'cross-single', ev, nt, best


# ---- block D: table formats -------------------------------------------------------------------------
def job_d(job):
    """Format variants must give exactly the output of the reference format (tab, numeric columns), which
    block A checks against the predicate: a metamorphic comparison, so that a predicate defect is not
    reported once per format."""
    _, fmt, levels_list = job
    d = vlib.worker_dir()
    peps = [(s, c, dl) for s, c, dl in a_files(d, False)[0] if len(c) == 1 and not dl]
    write_peptides(d / 'D.fasta', peps)
    best = Best()
    ev = nt = 0
    flags = (False, False, False, False)
    for family in ('float', 'int'):
        for levels in levels_list:
            ctx = Ctx(family, levels, 0, flags, fmt=fmt)
            targv0 = write_table(d / 'D0.tsv', L.table_values(family, levels), 'tab-index')
            ref, err0, _ = run_filter(d / 'D.fasta', d / 'D_ref.fasta', targv0, ctx.cutoff(), flags, None)
            targv = write_table(d / 'D.tsv', L.table_values(family, levels), fmt)
            out, err, argv = run_filter(d / 'D.fasta', d / 'D_out.fasta', targv, ctx.cutoff(), flags, None)
            ev += len(peps)
            if err0:
                continue            # reported by block A
            if len(ref) < len(peps):
                nt += len(peps)
            if err or as_map(out) != as_map(ref):
                diff = sorted(set(out or []) ^ set(ref))[:3]
                best.add(f'table-format/{fmt}', ctx.rank((), False), f'x={",".join(L.LEVEL_NAME[i] for i in levels)};family={family}',
                         f'expression table written as {fmt} gives a different result than the same table as tab-index: {err or diff}',
                         dict(block='table-format', ctx=ctx.to_json(), argv=[str(x) for x in argv]))
    return 'table-format', ev, nt, best


def work(job):
    return dict(A=job_a, B=job_b, C=job_c, D=job_d)[job[0]](job)


# ---- replay ------------------------------------------------------------------------------------------
def setup_reference():
    global IDX, REFDIR
    root = vlib.scratch_root()
    REFDIR = root / 'ref'
    L.reference().write(REFDIR)
    IDX = root / 'idx'
    r = drive.run(['generateIndex', '-o', IDX, '--quiet'] + drive.ref_argv(REFDIR))
    if not r['ok']:
        raise RuntimeError(f'generateIndex failed: {r["exc"]}')
    import pickle
    coding = set(pickle.load(open(IDX / 'coding_transcripts.pkl', 'rb')))
    if coding != L.CODING:
        raise RuntimeError(f'index coding transcripts {coding} != reference description {L.CODING}')


def replay(path):
    r = json.load(open(path))
    print('replaying', r['key'])
    setup_reference()
    d = vlib.worker_dir()
    if 'seq' not in r or 'entries' not in r:
        # group-level case (crash / idempotence / monotonicity / table format / raw GTF path): re-run the
        # command on the packed FASTA of block entries-packed with the recorded configuration
        peps, fa, deny_fa = a_files(d, False)
        c = r.get('ctx')
        if c is None:
            out, err, argv = run_filter(fa, d / 'o.fasta', None, None, (False,) * 4, None, raw=(r.get('block') == 'rawgtf'))
        else:
            ctx = Ctx.from_json(c)
            targv = write_table(d / 'x.tsv', L.table_values(ctx.family, ctx.levels), ctx.fmt) if ctx.levels is not None else None
            out, err, argv = run_filter(fa, d / 'o.fasta', targv, ctx.cutoff(), ctx.flags, deny_fa,
                                        ctx.enzyme, ctx.rng, ctx.raw)
            if not err and r.get('idempotence'):
                out2, err2, _ = run_filter(d / 'o.fasta', d / 'o2.fasta', targv, ctx.cutoff(), ctx.flags, deny_fa,
                                           ctx.enzyme, ctx.rng, ctx.raw)
                print('second pass equals first pass:', err2 or (as_map(out2) == as_map(out)))
        print('argv  :', ' '.join(str(a) for a in argv))
        print('result:', err or f'{len(out)} records written from {len(peps)} input peptides')
        print('recorded:', r['what'])
        return
    ctx = Ctx.from_json(r['ctx'])
    ents = tuple(E[i] for i in r['entries'])
    seq, dl = r['seq'], r['denylisted']
    drive.write_fasta(d / 'in.fasta', [(' '.join(e.text for e in ents), seq)])
    drive.write_fasta(d / 'deny.fasta', [('D1', 'MAAAAAAK'), ('D2', seq if dl else seq + 'A')])
    targv = write_table(d / 'x.tsv', L.table_values(ctx.family, ctx.levels), ctx.fmt) if ctx.levels is not None else None
    out, err, argv = run_filter(d / 'in.fasta', d / 'out.fasta', targv, ctx.cutoff(), ctx.flags, d / 'deny.fasta', ctx.enzyme, ctx.rng, ctx.raw)
    print('input   :', f'>{" ".join(e.text for e in ents)}', seq, '(in denylist)' if dl and ctx.flags[3] else '')
    if ctx.levels is not None:
        print('table   :', L.table_values(ctx.family, ctx.levels), 'cutoff', ctx.cutoff())
    print('argv    :', ' '.join(str(a) for a in argv))
    must, may = L.expected(ents, seq, ctx.config(), dl, ctx.enzyme, ctx.rng)
    if ctx.rng is not None:
        print(f'missed {ctx.enzyme} cleavages in {seq}: {L.miscleavages(seq, ctx.enzyme)}; range {ctx.rng}')
    print('expected:', [e.text for e in must], '' if len(may) == len(must) else f'(undecided: {[e.text for e in may if e not in must]})')
    print('got     :', err or out)


# ---- main --------------------------------------------------------------------------------------------
def main():
    run = vlib.Run('C19', 'exploration', __doc__)
    if run.args.replay:
        return replay(run.args.replay)
    quick = run.tier == 'quick'
    run.rule = ('entries-packed: every peptide with 1-2 header entries over the entry alphabet (plain/novel-ORF/'
                'alt-translation/fusion/circRNA/splice-altering entries on two coding + two non-coding transcripts) in a '
                'denylisted and a non-denylisted copy x all 81 tables with values {cutoff-e, cutoff, cutoff+e} x cutoffs x '
                '16 flag combinations; misc-packed: every string up to length L over the stated alphabets x enzymes x ranges; '
                'cross-single: one-peptide FASTAs over the literal product; table-format; rawgtf.  One evaluation = one '
                '(peptide, configuration) whose output record was compared with the predicate.  Non-trivial: the predicate '
                'removes at least one entry of the peptide / the peptide passes the entry filter and a range is given.')
    run.assume('a transcript missing from the expression table, an expression table without --quant-cutoff and an '
               'open-ended range such as "1:" are outside what the property and the documentation define (not judged)')
    run.assume('canonical = plain/alt-translation/splice entry on a coding transcript, or fusion whose upstream transcript is '
               'coding (docs/filter-fasta.md); novel-ORF entries on coding transcripts are undecided under '
               '--denylist + --keep-canonical')
    run.assume('miscleavage count = number of cleavage sites strictly inside the peptide under the enzyme (trypsin with its '
               'exception, as the tool pairs them everywhere)')
    run.assume('the order of entries inside a written header is not judged')
    setup_reference()
    tables = L.all_tables()
    jobs = []
    info = {}
    # A
    fams = ['float'] if quick else ['float', 'int']
    ordered = not quick
    if quick:
        # every table at the first cutoff; the second cutoff (monotonicity) on the complete sub-block of tables
        # whose first transcript has the seed-selected level
        first_level = run.seed % 3
        ncut = _QuickCuts(first_level)
        info['entries-packed-second-cutoff-subblock'] = f'tables with {L.TXS[0]}={L.LEVEL_NAME[first_level]}'
    else:
        ncut = 4
    for fam in fams:
        # thorough: float family with ordered pairs and 4 cutoffs; integer family with unordered pairs and 2 cutoffs
        o, c = (ordered, ncut) if fam == 'float' else (False, 2)
        for ch in [tables[i:i + 3] for i in range(0, len(tables), 3)]:
            jobs.append(('A', fam, ch, c, o, False))
        jobs.append(('A', fam, [None], 1, o, False))
    info['entries-packed'] = dict(entries=len(E), peptides=len(packed_peptides(ordered)), ordered_pairs=ordered,
                                  tables=len(tables), cutoffs=2 if quick else 4, families=fams, flag_combinations=16,
                                  integer_family='unordered pairs, 2 cutoffs' if not quick else None)
    # B
    Lb = 4 if quick else 5
    for enzyme in ENZYMES:
        for wt in (False, True):
            for n in range(1, Lb + 1):
                if n <= 3:
                    jobs.append(('B', 'AKRPDCH', n, [''], enzyme, wt))
                else:
                    for p in 'AKRPDCH':
                        jobs.append(('B', 'AKRPDCH', n, [p], enzyme, wt))
            for n in range(1, Lb):
                jobs.append(('B', 'KRPWMA', n, [''], enzyme, wt))
    info['misc-packed'] = dict(alphabets=['AKRPDCH', 'KRPWMA'], max_len=[Lb, Lb - 1], enzymes=ENZYMES, ranges=len(RANGES))
    # C
    singles = [(e.idx,) for e in E]
    rep = [next(e.idx for e in E if e.kind == k) for k in CROSS_PAIR_KINDS]
    pairs = list(itertools.combinations(rep, 2))
    if quick:
        sel = vlib.seeded_windows(run.seed, len(pairs), 6, always=(0,))
        pairs_sel = [pairs[i] for i in sel]
        info['cross-single-selected-pairs'] = ['+'.join(E[i].kind for i in p) for p in pairs_sel]
    else:
        pairs_sel = pairs
    for s in singles:
        jobs.append(('C', s, CROSS_SEQS))
    for p in pairs_sel:
        jobs.append(('C', p, CROSS_SEQS[1:3]))
    info['cross-single'] = dict(singles=len(singles), pairs=len(pairs_sel), sequences=CROSS_SEQS, enzymes=ENZYMES, ranges=CROSS_RANGES)
    # D
    for fmt in TABLE_FORMATS:
        if fmt == 'tab-index':
            continue
        for ch in [tables[i:i + 27] for i in range(0, len(tables), 27)]:
            jobs.append(('D', fmt, ch))
    info['table-format'] = dict(formats=list(TABLE_FORMATS))
    name_of = dict(A='entries-packed', B='misc-packed', C='cross-single', D='table-format')
    if run.only:
        jobs = [j for j in jobs if name_of[j[0]] in run.only]

    res = vlib.pmap(work, jobs, jobs=run.jobs, chunk=1)
    errs = vlib.harness_errors(res)
    if errs:
        raise RuntimeError(errs[0])
    tot = {}
    best = Best()
    for block, ev, nt, b in res:
        t = tot.setdefault(block, [0, 0])
        t[0] += ev
        t[1] += nt
        best.merge(b)

    # E: raw GTF path
    if run.want('rawgtf'):
        d = vlib.worker_dir()
        peps, fa1, _ = a_files(d, False, singles_only=True)
        flags = (False, False, False, False)
        out, err, argv = run_filter(fa1, d / 'A_out.fasta', None, None, flags, None, raw=True)
        if err:
            kind = 'abstract-iterator' if 'abstract class GtfIterator' in err else 'crash/' + err.split(':')[0]
            run.violation(f'rawgtf/{kind}', f'filterFasta without --index-dir (raw --annotation-gtf path) raises: {err}',
                          dict(block='rawgtf', argv=[str(x) for x in argv], ctx=None))
            run.block('rawgtf', 1, 0, True, note='raw path raises before reading anything; nothing else to enumerate')
        else:
            rj = [('A', 'float', ch, 1, False, True) for ch in [tables[i:i + 3] for i in range(0, len(tables), 3)]]
            rj.append(('A', 'float', [None], 1, False, True))
            rres = vlib.pmap(work, rj, jobs=run.jobs, chunk=1)
            errs = vlib.harness_errors(rres)
            if errs:
                raise RuntimeError(errs[0])
            ev = nt = 0
            for _, e, n, b in rres:
                ev += e
                nt += n
                best.merge(b)
            run.block('rawgtf', ev, nt, True)

    for g in sorted(best.d):
        rank, case_id, detail, rep_, cnt = best.d[g]
        run.violation(f'{g}/{case_id}', f'{detail}; {cnt} failing cases in this group, smallest shown', dict(rep_, group=g, failing_cases_in_group=cnt))
    for b in ('entries-packed', 'misc-packed', 'cross-single', 'table-format'):
        if b in tot:
            run.block(b, tot[b][0], tot[b][1], True)
    run.extra['bounds'] = info
    run.extra['entry_alphabet'] = [dict(kind=e.kind, text=e.text, exempt=e.exempt, canonical=e.canonical) for e in E]
    run.extra['violation_groups'] = {g: v[4] for g, v in sorted(best.d.items())}
    run.sample(dict(header=f'{E[0].text} {E[11].text}', seq='AGSTVAL', table=L.table_values('float', (0, 2, 1, 2)), cutoff='2.5',
                    flags=dict(keep_all_coding=False, keep_all_noncoding=False, keep_canonical=False, denylist=False),
                    expected=[e.text for e in L.expected((E[0], E[11]), 'AGSTVAL', Config(L.table_values('float', (0, 2, 1, 2)), '2.5', False, False, False, False), False)[0]]))
    run.sample(dict(seq='AKCRADK', enzyme='trypsin', missed_cleavages=L.miscleavages('AKCRADK', 'trypsin'), range='1:2'))
    run.finish()


if __name__ == '__main__':
    main()
