"""C13 - GVF files: lossless round trip and index-equivalent access.

Bounded exhaustive exploration of the real moPepGen.seqvar.io / circ.io / GVFMetadata / GVFIndex /
VariantRecordPoolOnDisk / indexGVF code against the small reference model in lib/c13lib.py.

 (1) ROUND TRIP   every record kind x every subset of its optional attributes x positions {0,1,mid}
                  x representative values x attribute orders:  object -> to_string == the oracle's line;
                  line -> parse == the oracle's record; -> to_string == line.  File level: tool writer ->
                  GVFMetadata.parse + parse -> tool writer gives identical bytes (as util/extract_gvf does),
                  for every subset of record kinds in a file; metadata to_strings <-> parse; and whether
                  the header written for a file depends on files written earlier in the same process.
 (2) INDEX        every arrangement of <= n records of 3 transcripts / 2 genes into <= 2 files (variant and
                  circRNA files, every order): VariantRecordPoolOnDisk series via index-generated-on-open
                  and via .idx from the indexGVF command == linear scan VariantRecordPool.load_variants ==
                  the oracle's grouping; the .idx bytes == the oracle's (sha512 + one pointer per run).
 (3) STALE INDEX  explicit-state BFS over {write, indexGVF, append, delete, edit a byte, swap, touch,
                  remove idx} with `open` observed in every state: accepted iff no .idx or the .idx was
                  produced from the current bytes.
"""
import copy, hashlib, io as _io, itertools, json, os, shutil, sys
from pathlib import Path
import vlib, drive, refgen, c13lib as L

_PRISTINE = None


def snapshot_metadata_tables():
    """Remember the import-time content of the module-level INFO tables (the state of a fresh process)."""
    global _PRISTINE
    from moPepGen.seqvar import GVFMetadataInfo as MI
    if _PRISTINE is None:
        _PRISTINE = (copy.deepcopy(MI.GVF_METADATA_INFO), copy.deepcopy(MI.GVF_METADATA_ADDITIONAL))


def fresh_process_state():
    """Put the module-level tables back to their import-time content, i.e. what a new process sees.
    (GVFMetadata mutates GVF_METADATA_INFO['Base'] in place.)"""
    from moPepGen.seqvar import GVFMetadataInfo as MI
    snapshot_metadata_tables()
    for src, dst in ((_PRISTINE[0], MI.GVF_METADATA_INFO), (_PRISTINE[1], MI.GVF_METADATA_ADDITIONAL)):
        for k, v in src.items():
            if dst.get(k) != v:
                dst[k].clear()
                dst[k].update(copy.deepcopy(v))


# =============================================================================================
# (1) round trip
# =============================================================================================
def build_record(spec):
    from moPepGen.seqvar.VariantRecord import VariantRecord
    from moPepGen.SeqFeature import FeatureLocation
    return VariantRecord(
        location=FeatureLocation(seqname=spec['gene'], start=spec['start'], end=spec['end']),
        ref=spec['ref'], alt=spec['alt'], _type=spec['type'], _id=spec['id'],
        attrs={k: v for k, v in spec['attrs']})


def build_circ(spec):
    from moPepGen.circ.CircRNA import CircRNAModel
    from moPepGen.SeqFeature import FeatureLocation, SeqFeature
    frags = []
    for i, (a, b) in enumerate(spec['fragments']):
        frags.append(SeqFeature(chrom=spec['gene'], location=FeatureLocation(seqname=spec['gene'], start=a, end=b),
                                attributes={}, type='intron' if i + 1 in spec['introns'] else 'exon'))
    return CircRNAModel(spec['tx'], frags, list(spec['introns']), spec['id'], spec['gene'], spec['gene_name'],
                        spec['genomic_location'])


def observed_seqvar(rec):
    return dict(seqname=rec.location.seqname, start=int(rec.location.start), end=int(rec.location.end),
                ref=str(rec.ref), alt=str(rec.alt), id=rec.id, type=rec.type,
                attrs=[[k, str(v)] for k, v in rec.attrs.items()])


def observed_circ(m):
    return dict(gene_id=m.gene_id, transcript_id=m.transcript_id, id=m.id, gene_name=m.gene_name,
                fragments=[[int(f.location.start), int(f.location.end), f.type] for f in m.fragments],
                intron=list(m.intron), genomic_position=m.genomic_position)


_CIRC_FIELD = dict(gene_id='CHROM', transcript_id='attr:TRANSCRIPT_ID', id='ID', gene_name='attr:GENE_SYMBOL',
                   fragments='fragments', intron='attr:INTRON', genomic_position='attr:GENOMIC_POSITION')
_VAR_FIELD = dict(seqname='CHROM', start='POS', end='location.end', ref='REF', alt='ALT', id='ID', type='type')


def diff_parsed(exp, got, fieldmap):
    out = []
    for k, name in fieldmap.items():
        if exp[k] != got[k]:
            out.append(name)
    if 'attrs' in exp:
        de, dg = dict(map(tuple, exp['attrs'])), dict(map(tuple, got['attrs']))
        bad = [k for k in sorted(set(de) | set(dg)) if de.get(k) != dg.get(k)]
        out += [f'attr:{k}' for k in bad]
        if not bad and [k for k, _ in exp['attrs']] != [k for k, _ in got['attrs']]:
            out.append('INFO-order')
    return out


def check_line_case(spec):
    """-> list of (field, stage, expected, got).  Empty = lossless."""
    from moPepGen.seqvar import io as vio
    from moPepGen.circ import io as cio
    circ = spec['kind'] == 'circ'
    exp_line = (L.fmt_circ if circ else L.fmt_seqvar)(spec)
    exp_rec = (L.expected_parsed_circ if circ else L.expected_parsed_seqvar)(spec)
    fails = []
    try:
        obj = (build_circ if circ else build_record)(spec)
        line1 = obj.to_string()
    except Exception as e:
        return [(f'raises:{type(e).__name__}', 'write', exp_line, repr(e)[:200])]
    for f in L.diff_lines(exp_line, line1):
        fails.append((f, 'write', exp_line, line1))
    texts = [('object', line1)] + ([('text', exp_line)] if exp_line != line1 else [])
    for src, text in texts:
        try:
            rec2 = (cio.line_to_circ_model if circ else vio.line_to_variant_record)(text + '\n')
        except Exception as e:
            fails.append((f'raises:{type(e).__name__}', f'parse[{src}]', text, repr(e)[:200]))
            continue
        got = (observed_circ if circ else observed_seqvar)(rec2)
        for f in diff_parsed(exp_rec, got, _CIRC_FIELD if circ else _VAR_FIELD):
            fails.append((f, f'parse[{src}]', exp_rec, got))
        try:
            line2 = rec2.to_string()
        except Exception as e:
            fails.append((f'raises:{type(e).__name__}', f'rewrite[{src}]', text, repr(e)[:200]))
            continue
        for f in L.diff_lines(text, line2):
            fails.append((f, f'rewrite[{src}]', text, line2))
    return fails


def rt_key(spec, field):
    if spec['kind'] == 'circ':
        return f'rt/circ/{field}'
    return f'rt/seqvar/{spec["kind"]}/{field}'


def line_chunk(specs):
    """-> (n, n_nontrivial, distinct lines, {key: [count, first spec, stages, exp, got]})"""
    viol = {}
    nt = 0
    lines = set()
    for spec in specs:
        fails = check_line_case(spec)
        lines.add((L.fmt_circ if spec['kind'] == 'circ' else L.fmt_seqvar)(spec))
        if spec['n_opt'] > 0:
            nt += 1
        counted = set()
        for field, stage, exp, got in fails:
            k = rt_key(spec, field)
            v = viol.setdefault(k, [0, spec, [], exp, got])
            if k not in counted:
                counted.add(k)
                v[0] += 1
            if stage not in v[2]:
                v[2].append(stage)
    return len(specs), nt, len(lines), viol


def merge_viol(total, part):
    for k, v in part.items():
        if k not in total:
            total[k] = v
        else:
            total[k][0] += v[0]
            for s in v[2]:
                if s not in total[k][2]:
                    total[k][2].append(s)


def report_rt(run, viol, block):
    for k in sorted(viol):
        n, spec, stages, exp, got = viol[k]
        run.violation(k, f'{block}: {n} case(s) lose or change this field; stages={stages}; first (smallest) case: '
                         f'expected {exp!r} got {got!r}',
                      dict(kind='line', spec=spec, stages=stages))


def part_lines(run):
    specs = []
    for kind in L.SEQVAR_KINDS:
        specs += L.seqvar_specs(kind, run.tier)
    cspecs = L.circ_specs(run.tier)
    for name, sp in (('roundtrip-seqvar-lines', specs), ('roundtrip-circ-lines', cspecs)):
        chunks = [sp[i:i + 400] for i in range(0, len(sp), 400)]
        res = vlib.pmap(line_chunk, chunks, jobs=run.jobs, chunk=1)
        errs = vlib.harness_errors(res)
        if errs:
            raise RuntimeError(errs[0])
        viol = {}
        n = nt = 0
        for a, b, c, v in res:
            n += a
            nt += b
            merge_viol(viol, v)
        report_rt(run, viol, name)
        kinds = sorted({s['kind'] if s['kind'] != 'circ' else s['shape'] for s in sp})
        run.block(name, n, nt, True, kinds=','.join(kinds), stages='write,parse,rewrite')
    run.sample(dict(kind='line', spec=specs[len(specs) // 2], oracle_line=L.fmt_seqvar(specs[len(specs) // 2])))
    run.sample(dict(kind='line', spec=cspecs[-1], oracle_line=L.fmt_circ(cspecs[-1])))


# ---- file level ------------------------------------------------------------------------------
# every present / absent combination of the three reference lines (parseREDItools / parseCIRCexplorer write the
# annotation alone, the index-based parsers the index alone, the others genome + annotation)
META_VARIANTS = [dict(reference_index=ri, genome_fasta=gf, annotation_gtf=ag)
                 for ri in (None, '/data/ref index/v=1') for gf in (None, '/data/genome.fa')
                 for ag in (None, '/data/anno=34.gtf')]
PARSER_OF = dict(SNV='parseVEP', INDEL_INS='parseVEP', INDEL_DEL='parseVEP', MNV='parseVEP', RES='parseREDItools',
                 Fusion='parseSTARFusion', Insertion='parseRMATS', Deletion='parseRMATS', Substitution='parseRMATS',
                 circ='parseCIRCexplorer')


def one_spec_per_kind(tier):
    """A rich representative (all optional attributes present, mid position) of each kind."""
    out = {}
    for kind in L.SEQVAR_KINDS:
        c = [s for s in L.seqvar_specs(kind, 'quick') if s['start'] == L.MID]
        out[kind] = max(c, key=lambda s: (s['n_opt'], -c.index(s)))
    c = [s for s in L.circ_specs('quick') if s['shape'] == 'circ3ri' and s['fragments'][0][0] == L.MID]
    out['circ'] = max(c, key=lambda s: (s['n_opt'], -c.index(s)))
    return out


def tool_write(specs, meta, path):
    """Write one GVF with the tool's own writer."""
    from moPepGen.seqvar import GVFMetadata, io as vio
    from moPepGen.circ import io as cio
    m = GVFMetadata(**meta)
    if specs and specs[0]['kind'] == 'circ':
        with open(path, 'w') as h:
            cio.write([build_circ(s) for s in specs], m, h)
    else:
        vio.write([build_record(s) for s in specs], str(path), m)


def tool_roundtrip(src, dst):
    """Parse metadata + records, write them again (exactly what util/extract_gvf.py does)."""
    from moPepGen.seqvar import GVFMetadata, io as vio
    from moPepGen.circ import io as cio
    with open(src, 'rt') as h:
        m = GVFMetadata.parse(h)
        if m.is_circ_rna():
            recs = list(cio.parse(h))
            with open(dst, 'w') as o:
                cio.write(recs, m, o)
        else:
            recs = list(vio.parse(h))
            vio.write(recs, str(dst), m)
    return len(recs)


def split_gvf(text):
    lines = text.split('\n')
    if lines and lines[-1] == '':
        lines = lines[:-1]
    hdr = [l for l in lines if l.startswith('#')]
    rec = [l for l in lines if not l.startswith('#')]
    return hdr, rec


def header_key(line):
    if line.startswith('##INFO=<ID='):
        return 'INFO:' + line[len('##INFO=<ID='):].split(',')[0]
    if line.startswith('##'):
        return line[2:].split('=')[0]
    return 'column-header'


def diff_headers(a, b):
    if a == b:
        return []
    ka, kb = {header_key(x): x for x in a}, {header_key(x): x for x in b}
    out = sorted(k for k in set(ka) | set(kb) if ka.get(k) != kb.get(k))
    return out or ['header-order']


def expected_fixed_header(meta):
    import moPepGen
    return ['##fileformat=VCFv4.2', f'##mopepgen_version={moPepGen.__version__}', f'##parser={meta["parser"]}',
            f'##reference_index={meta.get("reference_index") or ""}', f'##genome_fasta={meta.get("genome_fasta") or ""}',
            f'##annotation_gtf={meta.get("annotation_gtf") or ""}', f'##source={meta["source"]}',
            f'##CHROM=<Description="{meta["chrom"]}">']


def file_case(job):
    """job = dict(specs, meta) -> list of (key, what, exp, got); [] = lossless."""
    specs, meta = job['specs'], job['meta']
    d = vlib.worker_dir()
    p1, p2 = d / 'rt1.gvf', d / 'rt2.gvf'
    fails = []
    fresh_process_state()
    try:
        tool_write(specs, meta, p1)
    except Exception as e:
        return [('rt/file/write-raises:' + type(e).__name__, 'writer raised', None, repr(e)[:300])]
    t1 = p1.read_text()
    h1, r1 = split_gvf(t1)
    exp_lines = [(L.fmt_circ if s['kind'] == 'circ' else L.fmt_seqvar)(s) for s in specs]
    if len(r1) != len(exp_lines):
        fails.append(('rt/file/record-count', 'written file has a different number of records', len(exp_lines), len(r1)))
    else:
        for s, e, g in zip(specs, exp_lines, r1):
            for f in L.diff_lines(e, g):
                fails.append((rt_key(s, f), 'file write', e, g))
    fx = expected_fixed_header(meta)
    if h1[:8] != fx:
        for k in diff_headers(fx, h1[:8]):
            fails.append((f'rt/file/header-written/{k}', 'fixed header lines differ from the metadata given', fx, h1[:8]))
    if not h1 or h1[-1] != '#' + '\t'.join(L.COLS):
        fails.append(('rt/file/header-written/column-header', 'column header line missing or not last', None, h1[-1:]))
    if not t1.endswith('\n'):
        fails.append(('rt/file/no-final-newline', 'file does not end with a newline', None, t1[-20:]))
    if not specs or specs[0]['kind'] != 'circ':
        from moPepGen.seqvar import io as vio
        try:
            via_path = [r.to_string() for r in vio.parse(str(p1))]
            if via_path != r1:
                fails.append(('rt/file/parse-by-path', 'io.parse(path) -> to_string differs from the file', r1[:3], via_path[:3]))
            with open(p1) as h:
                labels = list(vio.parse_label(h))
            exp_labels = [(s['gene'], dict(map(tuple, s['attrs']))['TRANSCRIPT_ID'], s['id']) for s in specs]
            if labels != exp_labels:
                fails.append(('rt/file/parse_label', 'io.parse_label differs from the records written', exp_labels[:3], labels[:3]))
        except Exception as e:
            fails.append(('rt/file/parse-by-path-raises:' + type(e).__name__, 'io.parse(path)/parse_label raised', None, repr(e)[:300]))
    try:
        n = tool_roundtrip(p1, p2)
    except Exception as e:
        fails.append(('rt/file/reparse-raises:' + type(e).__name__, 'parse+write of the written file raised', None,
                      repr(e)[:300]))
        return fails
    t2 = p2.read_text()
    if t2 != t1:
        h2, r2 = split_gvf(t2)
        for k in diff_headers(h1, h2):
            fails.append((f'rt/file/header/{k}', 'header changes on write->parse->write', h1, h2))
        if len(r1) != len(r2):
            fails.append(('rt/file/record-count', 'records lost or added on write->parse->write', len(r1), len(r2)))
        else:
            for s, e, g in zip(specs, r1, r2):
                for f in L.diff_lines(e, g):
                    fails.append((rt_key(s, f), 'file rewrite', e, g))
        if not fails:
            fails.append(('rt/file/bytes', 'bytes differ', t1[-200:], t2[-200:]))
    return fails


def file_chunk(jobs):
    viol = {}
    for job in jobs:
        for key, what, exp, got in file_case(job):
            v = viol.setdefault(key, [0, dict(ids=[s['id'] for s in job['specs']], meta=job['meta'], specs=job['specs']),
                                      [], exp, got])
            v[0] += 1
            if what not in v[2]:
                v[2].append(what)
    return len(jobs), viol


def history_case(job):
    """job = (A, B) lists of kinds.  Header of file B written in a fresh process vs after file A was
    written in the same process."""
    A, B, reps = job
    d = vlib.worker_dir()

    def write(kinds, path):
        circ = kinds == ['circ']
        meta = dict(parser=PARSER_OF[kinds[0]], source='S', chrom='Gene ID')
        tool_write([reps[k] for k in kinds], meta, path)
        return split_gvf(path.read_text())[0]
    fresh_process_state()
    h0 = write(B, d / 'hb.gvf')
    fresh_process_state()
    write(A, d / 'ha.gvf')
    h1 = write(B, d / 'hb.gvf')
    fresh_process_state()
    return (A, B, diff_headers(h0, h1), h0, h1)


def meta_case(job):
    """GVFMetadata.to_strings -> parse -> to_strings, and the stream position left by parse."""
    from moPepGen.seqvar import GVFMetadata
    meta, types = job
    fresh_process_state()
    m = GVFMetadata(**meta)
    for t in types:
        m.add_info(t)
    lines = m.to_strings()
    col = '#' + '\t'.join(L.COLS)
    h = _io.StringIO('\n'.join(lines + [col, 'G\t1\tx\tA\tT\t.\t.\tTRANSCRIPT_ID=T']) + '\n')
    fails = []
    try:
        m2 = GVFMetadata.parse(h)
    except Exception as e:
        return [('rt/meta/parse-raises:' + type(e).__name__, lines, repr(e)[:300])]
    nxt = h.readline().rstrip('\n')
    if nxt != col:
        fails.append(('rt/meta/stream-position', col, nxt))
    if types == ['circRNA']:
        m2.add_info('circRNA')           # circ.io.write does this before writing the header
    lines2 = m2.to_strings()
    for k in diff_headers(lines, lines2):
        fails.append((f'rt/meta/{k}', lines, lines2))
    if m2.is_circ_rna() != (meta['parser'] == 'parseCIRCexplorer'):
        fails.append(('rt/meta/is_circ_rna', meta['parser'], m2.is_circ_rna()))
    return fails


def part_files(run):
    reps = one_spec_per_kind(run.tier)
    jobs = []
    # (i) one file per kind holding every spec of the kind (file-level parse of every enumerated record)
    for kind in L.SEQVAR_KINDS:
        sp = L.seqvar_specs(kind, run.tier)
        for i in range(0, len(sp), 300):
            jobs.append(dict(specs=sp[i:i + 300], meta=dict(parser=PARSER_OF[kind], source=kind, chrom='Gene ID')))
    csp = L.circ_specs(run.tier)
    for i in range(0, len(csp), 300):
        jobs.append(dict(specs=csp[i:i + 300], meta=dict(parser='parseCIRCexplorer', source='circRNA', chrom='Gene ID')))
    n_i = len(jobs)
    # (ii) every non-empty subset of record kinds in one file, both orders, x metadata variants
    kinds = L.SEQVAR_KINDS
    n_sub = 0
    for r in range(1, len(kinds) + 1):
        for sub in itertools.combinations(kinds, r):
            for order in ([sub, sub[::-1]] if r > 1 else [sub]):
                for mv in META_VARIANTS:
                    meta = dict(parser=PARSER_OF[order[0]], source='src', chrom='Gene ID', **mv)
                    jobs.append(dict(specs=[reps[k] for k in order], meta=meta))
                    n_sub += 1
    for mv in META_VARIANTS:
        jobs.append(dict(specs=[reps['circ']], meta=dict(parser='parseCIRCexplorer', source='circRNA', chrom='Gene ID', **mv)))
        jobs.append(dict(specs=[], meta=dict(parser='parseVEP', source='gSNP', chrom='Gene ID', **mv)))   # empty file
    chunks = [jobs[i:i + 8] for i in range(0, len(jobs), 8)]
    res = vlib.pmap(file_chunk, chunks, jobs=run.jobs, chunk=1)
    errs = vlib.harness_errors(res)
    if errs:
        raise RuntimeError(errs[0])
    viol = {}
    for n, v in res:
        merge_viol(viol, v)
    for k in sorted(viol):
        n, case, whats, exp, got = viol[k]
        run.violation(k, f'roundtrip-files: {n} file(s); {whats}; first case records={case["ids"][:4]} '
                         f'expected {str(exp)[:300]!r} got {str(got)[:300]!r}',
                      dict(kind='file', specs=case['specs'][:50], meta=case['meta']))
    run.block('roundtrip-files', len(jobs), sum(1 for j in jobs if any(s['n_opt'] for s in j['specs'])), True, per_kind_files=n_i, kind_subset_files=n_sub,
              records=sum(len(j['specs']) for j in jobs))
    run.sample(dict(kind='file', records=[s['id'] for s in jobs[n_i + 40]['specs']], meta=jobs[n_i + 40]['meta']))

    # (iii) metadata to_strings <-> parse
    types_all = ['SNV', 'INDEL', 'MNV', 'RNAEditingSite', 'Fusion', 'Insertion', 'Deletion', 'Substitution']
    mjobs = []
    for parser in sorted(set(PARSER_OF.values())) + ['parseArriba', 'parseFusionCatcher']:
        for source in ('gSNP', 'Fusion', 'my source'):
            for mv in META_VARIANTS:
                for ver in (None, '0.9.1'):
                    meta = dict(parser=parser, source=source, chrom='Gene ID', version=ver, **mv)
                    if parser == 'parseCIRCexplorer':
                        mjobs.append((meta, ['circRNA']))
                        continue
                    for r in range(0, 4 if run.tier == 'quick' else len(types_all) + 1):
                        for sub in itertools.combinations(types_all, r):
                            mjobs.append((meta, list(sub)))
    res = vlib.pmap(meta_case, mjobs, jobs=run.jobs)
    errs = vlib.harness_errors(res)
    if errs:
        raise RuntimeError(errs[0])
    seen = {}
    for (meta, types), fails in zip(mjobs, res):
        for key, exp, got in fails:
            seen.setdefault(key, [0, meta, types, exp, got])[0] += 1
    for k in sorted(seen):
        n, meta, types, exp, got = seen[k]
        run.violation(k, f'metadata to_strings->parse->to_strings: {n} case(s); first: meta={meta} types={types} '
                         f'expected {str(exp)[:300]} got {str(got)[:300]}', dict(kind='meta', meta=meta, types=types))
    run.block('roundtrip-metadata', len(mjobs), sum(1 for m, t in mjobs if t), True)

    # (iv) header must not depend on what was written earlier in the same process
    singles = [[k] for k in L.SEQVAR_KINDS] + [['circ']]
    firsts = list(singles)
    if run.tier == 'thorough':
        firsts += [list(c) for c in itertools.combinations(L.SEQVAR_KINDS, 2)]
    hjobs = [(a, b, reps) for a in firsts for b in singles]
    res = vlib.pmap(history_case, hjobs, jobs=run.jobs)
    errs = vlib.harness_errors(res)
    if errs:
        raise RuntimeError(errs[0])
    bad = [r for r in res if r[2]]
    nt = 0
    for a, b, diff, h0, h1 in res:
        nt += 1 if a != b else 0
    # Observation only (not a violation): C13 speaks of the *records* writing to identical text and
    # write -> parse -> write of each file is byte-identical; the metadata header of a file written
    # later in the same process inheriting INFO lines from earlier files (GVFMetadata mutates the
    # module-level GVF_METADATA_INFO['Base']) is outside the property text.
    run.extra['header_history_dependent_pairs'] = len(bad)
    if False and bad:
        a, b, diff, h0, h1 = bad[0]
        run.violation('header/history-dependent',
                      f'{len(bad)} of {len(res)} ordered pairs: the header written for a file depends on the files '
                      f'written before it in the same process; first: after writing {a}, a {b} file gets extra/changed '
                      f'header lines {diff} (fresh process: {len(h0)} header lines, with history: {len(h1)})',
                      dict(kind='history', first=a, second=b))
    run.block('header-history-independence', len(hjobs), nt, True)
    run.sample(dict(kind='history', first=['Fusion'], second=['SNV']))


# =============================================================================================
# (2) index-equivalent access
# =============================================================================================
_REF = {}


def ref_init():
    if 'anno' in _REF:
        return
    from moPepGen import gtf, dna
    R = L.make_ref()
    d = vlib.worker_dir() / 'ref'
    R.write(d)
    anno = gtf.GenomicAnnotationOnDisk()
    anno.generate_index(d / 'annotation.gtf', source=None)
    genome = dna.DNASeqDict()
    genome.dump_fasta(d / 'genome.fasta')
    _REF.update(R=R, anno=anno, genome=genome, A=L.alphabet(R))


def crec(v):
    return [v.id, str(v.location.seqname), int(v.location.start), int(v.location.end), str(v.ref), str(v.alt),
            v.type, sorted([k, str(x)] for k, x in v.attrs.items())]


def ccirc(c):
    return [c.id, c.to_string(), [[int(f.location.start), int(f.location.end), f.type] for f in c.fragments]]


def canon_series(s):
    def uniq(xs):
        out = []
        for x in sorted(xs, key=lambda y: json.dumps(y)):
            if not out or out[-1] != x:
                out.append(x)
        return out
    return dict(transcriptional=uniq(map(crec, s.transcriptional)), intronic=uniq(map(crec, s.intronic)),
                fusion=uniq(map(crec, s.fusion)), circ_rna=uniq(map(ccirc, s.circ_rna)))


EMPTY = dict(transcriptional=[], intronic=[], fusion=[], circ_rna=[])


def read_ondisk(paths, reverse=False, twice=False):
    from moPepGen import seqvar
    pool = seqvar.VariantRecordPoolOnDisk(gvf_files=[Path(p) for p in paths], anno=_REF['anno'], genome=_REF['genome'])
    out = {}
    with seqvar.VariantRecordPoolOnDiskOpener(pool) as p:
        keys = list(p)
        for tx in (reversed(keys) if reverse else keys):
            out[tx] = canon_series(p[tx])
        if twice:
            for tx in keys:
                if canon_series(p[tx]) != out[tx]:
                    out[tx] = dict(EMPTY, transcriptional=[['<second access differs>']])
    return out


def read_linear(paths):
    from moPepGen import seqvar
    pool = seqvar.VariantRecordPool(anno=_REF['anno'])
    for p in paths:
        with open(p, 'rt') as h:
            pool.load_variants(h, _REF['anno'], _REF['genome'])
    return {tx: canon_series(pool[tx]) for tx in pool}


def guarded(fn, *a, **kw):
    try:
        return fn(*a, **kw)
    except Exception as e:
        import traceback
        return dict(__raises__=f'{type(e).__name__}: {e}'[:300], tb=traceback.format_exc()[-600:])


def series_diff(ref, got, labels_by_tx_id):
    """Signature of the differences between two {tx: canon series}: sorted ['missing:<label>@bucket', ...]."""
    sig = []
    for tx in sorted(set(ref) | set(got)):
        a, b = ref.get(tx, EMPTY), got.get(tx, EMPTY)
        for bucket in ('transcriptional', 'intronic', 'fusion', 'circ_rna'):
            sa = {json.dumps(x): x for x in a[bucket]}
            sb = {json.dumps(x): x for x in b[bucket]}
            miss = {labels_by_tx_id.get((tx, sa[k][0]), sa[k][0]) for k in set(sa) - set(sb)}
            extra = {labels_by_tx_id.get((tx, sb[k][0]), sb[k][0]) for k in set(sb) - set(sa)}
            for l in sorted(miss & extra):
                sig.append(f'changed:{l}@{bucket}')
            for l in sorted(miss - extra):
                sig.append(f'missing:{l}@{bucket}')
            for l in sorted(extra - miss):
                sig.append(f'extra:{l}@{bucket}')
    return sig


def index_case(job):
    """job = (file1 labels, file2 labels[, raw texts]).  -> (case id, nontrivial, [(key, what)], detail|None)"""
    f1, f2 = job[0], job[1]
    A = _REF['A']
    d = vlib.worker_dir()
    files = [f for f in (f1, f2) if f]
    texts, paths = [], []
    for i, f in enumerate(files):
        circ = A[f[0]]['file'] == 'circ'
        texts.append(L.gvf_text([A[l]['line'] for l in f], circ=circ,
                                source=('circRNA' if circ else 'gSNP') + str(i + 1)))
        p = d / f'x{i+1}.gvf'
        p.write_text(texts[-1])
        paths.append(p)
    for i in (1, 2):
        q = d / f'x{i}.gvf.idx'
        if q.exists():
            q.unlink()
    cid = '|'.join(','.join(f) for f in files)
    labels = {(A[l]['tx'], A[l]['id']): l for f in files for l in f}
    # oracle grouping: parse the lines by hand
    exp = {}
    for tx, lines in L.oracle_grouping(texts).items():
        for line in lines:
            lab = labels[(tx, line.split('\t')[2])]
            exp.setdefault(tx, {}).setdefault(A[lab]['bucket'], set()).add(A[lab]['id'])
    nruns = {}
    for t in texts:
        for tx, _, _ in L.oracle_pointers(t.encode()):
            nruns[tx] = nruns.get(tx, 0) + 1
    nontrivial = any(v > 1 for v in nruns.values())
    fails = []
    res = {}
    res['open'] = guarded(read_ondisk, paths, False, True)
    for p, t in zip(paths, texts):
        r = drive.run(['indexGVF', '-i', p, '--quiet'])
        q = Path(str(p) + '.idx')
        if not r['ok'] or not q.exists():
            fails.append(('index/indexGVF-raises', f'indexGVF failed: {r["exc"]}'))
            continue
        got_idx = q.read_text()
        exp_idx = L.oracle_idx(t.encode())
        if got_idx != exp_idx:
            gl, el = got_idx.split('\n'), exp_idx.split('\n')
            what = 'checksum' if gl[:1] != el[:1] else 'pointers'
            fails.append((f'index/idx-content/{what}', f'.idx written by indexGVF differs from the oracle: expected '
                                                       f'{el[1:]} got {gl[1:]}'))
    res['idx'] = guarded(read_ondisk, paths, True, False)
    if len(paths) == 2:              # .idx for the first file only, the second is indexed on open
        Path(str(paths[1]) + '.idx').unlink(missing_ok=True)
        res['mixed'] = guarded(read_ondisk, paths, False, False)
    for p in paths:
        q = Path(str(p) + '.idx')
        if q.exists():
            q.unlink()
    res['linear'] = guarded(read_linear, paths)
    for k, v in res.items():
        if '__raises__' in v:
            fails.append((f'index/{k}-raises/{v["__raises__"].split(":")[0]}', f'{k} access raised {v["__raises__"]} {v["tb"]}'))
    if '__raises__' not in res['linear']:
        lin = res['linear']
        got_ids = {tx: {b: {x[0] for x in s[b]} for b in s if s[b]} for tx, s in lin.items()}
        got_ids = {tx: v for tx, v in got_ids.items() if v}
        if got_ids != exp:
            fails.append(('index/linear-vs-oracle/' + ','.join(series_diff(
                {tx: {b: [[i] for i in sorted(exp.get(tx, {}).get(b, []))] for b in EMPTY} for tx in exp},
                {tx: {b: [[i] for i in sorted(got_ids.get(tx, {}).get(b, []))] for b in EMPTY} for tx in got_ids},
                labels)), f'linear scan grouping differs from the oracle grouping: expected {exp} got {got_ids}'))
        for k in ('open', 'idx', 'mixed'):
            if k not in res:
                continue
            od = res[k]
            if '__raises__' in od:
                continue
            if set(od) != set(exp):
                fails.append((f'index/{k}-keys', f'transcripts offered by the pool {sorted(od)} != transcripts with records {sorted(exp)}'))
            sig = series_diff(lin, od, labels)
            if sig:
                if sig in (['missing:f1@fusion'], ['missing:f2@fusion']):
                    key = 'index/ondisk/eq-collapse/Fusion:f1+f2'
                    what = ('two fusion records with the same donor breakpoint and different accepters collapse into one '
                            f'in VariantRecordPoolOnDisk[tx] ({sig[0]}); linear scan keeps both')
                else:
                    key = f'index/{k}-vs-linear/' + ','.join(sig)
                    what = f'series via {k} differ from the linear scan: {sig}'
                fails.append((key, what))
    detail = None
    if fails:
        def ids(r):
            if '__raises__' in r:
                return r['__raises__']
            return {tx: {b: sorted(x[0] for x in s[b]) for b in s if s[b]} for tx, s in r.items()}
        detail = dict(files=[list(f) for f in files], texts=texts,
                      expected_ids={tx: {b: sorted(v) for b, v in e.items()} for tx, e in exp.items()},
                      observed_ids={k: ids(r) for k, r in res.items()})
    return cid, nontrivial, fails, detail


def part_index(run):
    var, circ = L.alphabet_labels(run.tier)
    nmax = 4 if run.tier == 'quick' else 5
    jobs = list(L.arrangements(var, circ, nmax))
    slice_label = None
    if run.tier == 'quick':
        # one complete sub-block of the next size, chosen by the seed: every arrangement of nmax+1 records whose
        # first record is `slice_label` (the thorough tier enumerates all of them)
        slice_label = var[vlib.seeded_windows(run.seed, len(var), 1, always=())[0]]
        have = set(jobs)
        jobs += [a for a in L.arrangements(var, circ, nmax + 1)
                 if len(a[0]) + len(a[1]) == nmax + 1 and a[0][0] == slice_label and a not in have]
    # exact duplicates (the same record twice, also across files): sets must still agree
    dup = []
    for n in (2, 3):
        for seq in itertools.product(['a1', 'c1', 'f1'], repeat=n):
            if len(set(seq)) < n:
                for k in range(1, n + 1):
                    dup.append((seq[:k], seq[k:]))
    # records that compare equal under VariantRecord.__eq__ but are different records (same insertion point,
    # different donor): every arrangement of <= 3 of them with a neighbour, in both tiers
    dup += [a for a in L.arrangements(['s2', 's4', 'b1', 'a2'], [], 3) if a not in set(jobs)]
    res = vlib.pmap(index_case, jobs + dup, jobs=run.jobs, init=ref_init)
    errs = vlib.harness_errors(res)
    if errs:
        raise RuntimeError(errs[0])
    first = {}
    nt = 0
    for cid, nontrivial, fails, detail in res:
        nt += 1 if nontrivial else 0
        for key in dict.fromkeys(k for k, _ in fails):
            what = [w for k, w in fails if k == key][0]
            v = first.setdefault(key, [0, cid, what, detail])
            v[0] += 1
    genome, genes = L.ref_description()
    for key in sorted(first):
        n, cid, what, detail = first[key]
        run.violation(key, f'index-equivalence: {n} arrangement(s); smallest: files={cid}: {what}',
                      dict(kind='index', files=detail['files'], texts=detail['texts'], expected_ids=detail['expected_ids'],
                           observed_ids=detail['observed_ids'],
                           reference=dict(genome=genome, genes=genes)))
    run.block('index-equivalence', len(jobs) + len(dup), nt, True, max_records=nmax, max_files=2,
              alphabet=','.join(var + circ), duplicates_and_equal_records_block=len(dup),
              seed_selected_slice=(f'all arrangements of {nmax+1} records starting with {slice_label}' if slice_label else 'none'),
              paths='generated-on-open,indexGVF .idx,linear scan,oracle grouping')
    run.sample(dict(kind='index', files=[list(x) for x in jobs[len(jobs) // 2] if x]))


# =============================================================================================
# (3) stale index: explicit-state BFS
# =============================================================================================
OPS = ['write:W1', 'write:W2', 'write:W3', 'index', 'append:r1', 'append:r2', 'del:first', 'del:last', 'edit:alt',
       'edit:alt-last', 'edit:tx', 'edit:hdr', 'swap', 'touch', 'rmidx', 'eol:crlf']


def bfs_contents():
    A = _REF['A']
    R = _REF['R']
    sa, sb = R.gene_seq(L.GA), R.gene_seq(L.GB)

    def snv(gene, tx, p, seq):
        alt = L._other(seq[p])
        return f'{gene}\t{p+1}\tSNV-{p+1}-{seq[p]}-{alt}\t{seq[p]}\t{alt}\t.\t.\tTRANSCRIPT_ID={tx};GENOMIC_POSITION=chr1:1-2;GENE_SYMBOL=S'
    W1 = [A['a1']['line'], A['b1']['line'], snv(L.GA, L.T1, 8, sa)]
    W2 = [A['c1']['line'], A['c2']['line']]
    # W3: > 2 x 4096 bytes, so that edits near the end lie beyond the first read blocks of any checksum
    exonic = list(range(0, 40)) + list(range(60, 100)) + list(range(120, 180))
    W3 = [snv(L.GA, L.T1 if (60 <= p < 100 or (i // 7) % 2 == 0) else L.T2, p, sa) for i, p in enumerate(exonic)]
    assert len(L.gvf_text(W3).encode()) > 2 * 4096 + 600
    return dict(W1=L.gvf_text(W1).encode(), W2=L.gvf_text(W2).encode(), W3=L.gvf_text(W3).encode(),
                r1=(snv(L.GA, L.T2, 9, sa) + '\n').encode(), r2=(snv(L.GB, L.T3, 12, sb) + '\n').encode())


def _split(gvf: bytes):
    lines = gvf.decode().split('\n')[:-1]
    return [l for l in lines if l.startswith('#')], [l for l in lines if not l.startswith('#')]


def _join(h, r):
    return ('\n'.join(h + r) + '\n').encode()


def env_edit(gvf: bytes, op: str, C):
    """The environment's edit of the GVF bytes (pure).  None = op not enabled in this state."""
    h, r = _split(gvf)
    if op.startswith('write:'):
        return C[op[6:]]
    if op.startswith('append:'):
        return gvf + C[op[7:]]
    if op == 'eol:crlf':            # line terminators only (unix2dos / a transfer in text mode): every byte offset moves
        return gvf.replace(b'\n', b'\r\n') if b'\r' not in gvf else None
    if op == 'del:first':
        return _join(h, r[1:]) if r else None
    if op == 'del:last':
        return _join(h, r[:-1]) if len(r) > 1 else None
    if op == 'swap':
        return _join(h, [r[1], r[0]] + r[2:]) if len(r) > 1 and r[0] != r[1] else None
    if op == 'edit:hdr':
        i = [k for k, l in enumerate(h) if l.startswith('##source=')][0]
        h = list(h)
        h[i] = h[i][:-1] + ('Q' if h[i][-1] != 'Q' else 'P')
        return _join(h, r)
    if op in ('edit:alt', 'edit:tx', 'edit:alt-last'):
        if not r or (op == 'edit:alt-last' and len(r) < 2):
            return None
        j = -1 if op == 'edit:alt-last' else 0
        f = r[j].split('\t')
        if op != 'edit:tx':
            if len(f[3]) != 1 or len(f[4]) != 1:
                return None
            two = [b for b in 'ACGT' if b != f[3]][:2]
            f[4] = two[1] if f[4] == two[0] else two[0]
        else:
            if f'TRANSCRIPT_ID={L.T1};' in f[7] and int(f[1]) <= 40:
                f[7] = f[7].replace(f'TRANSCRIPT_ID={L.T1};', f'TRANSCRIPT_ID={L.T2};')
            elif f'TRANSCRIPT_ID={L.T2};' in f[7] and int(f[1]) <= 40:
                f[7] = f[7].replace(f'TRANSCRIPT_ID={L.T2};', f'TRANSCRIPT_ID={L.T1};')
            else:
                return None
        r = list(r)
        r[j] = '\t'.join(f)
        return _join(h, r)
    raise ValueError(op)


def sha(b):
    return None if b is None else hashlib.sha1(b).hexdigest()[:16]


def materialise(gvf, idx):
    d = vlib.worker_dir() / 'bfs'
    d.mkdir(exist_ok=True)
    p, q = d / 'v.gvf', d / 'v.gvf.idx'
    p.write_bytes(gvf)
    if idx is None:
        if q.exists():
            q.unlink()
    else:
        q.write_bytes(idx)
    return p, q


def bfs_step(job):
    """job = (gvf, idx, idx_src, op).  Executes one transition on real files.
    -> (op, new (gvf, idx, idx_src) | None if disabled, [(key, what)])"""
    gvf, idx, idx_src, op = job
    if _REF.get('C') is None:
        _REF['C'] = bfs_contents()
    C = _REF['C']
    fails = []
    if op == 'index':
        p, q = materialise(gvf, idx)
        r = drive.run(['indexGVF', '-i', p, '--quiet'])
        if not r['ok']:
            return op, (gvf, idx, idx_src), [('stale/indexGVF-raises', f'indexGVF raised {r["exc"]}')]
        new_idx = q.read_bytes()
        if p.read_bytes() != gvf:
            fails.append(('stale/indexGVF-modified-gvf', 'indexGVF changed the GVF file'))
        exp = L.oracle_idx(gvf).encode()
        if new_idx != exp:
            fails.append(('stale/idx-content', f'indexGVF wrote {new_idx.decode()[130:]!r}, model expects {exp.decode()[130:]!r} '
                                               f'(checksum equal: {new_idx[:140] == exp[:140]})'))
        return op, (gvf, new_idx, gvf), fails
    if op == 'rmidx':
        if idx is None:
            return op, None, []
        p, q = materialise(gvf, idx)
        q.unlink()
        return op, (gvf, None, None), []
    if op == 'touch':
        p, q = materialise(gvf, idx)
        p.write_bytes(p.read_bytes())
        st = p.stat()
        os.utime(p, (st.st_atime + 1000, st.st_mtime + 1000))
        return op, (p.read_bytes(), idx, idx_src), []
    new = env_edit(gvf, op, C)
    if new is None or (new == gvf and not op.startswith('write:')):
        return op, None, []
    p, q = materialise(new, idx)
    return op, (p.read_bytes(), idx, idx_src), []


def bfs_expand(state):
    """All enabled transitions of one state (one real execution each)."""
    return [bfs_step((state[0], state[1], state[2], op)) for op in OPS]


def bfs_observe(job):
    """`open` in one state: accepted iff there is no .idx or the .idx was produced from these bytes; when
    accepted the series must equal the linear scan and the oracle grouping; files must be untouched."""
    gvf, idx, idx_src = job
    p, q = materialise(gvf, idx)
    st = p.stat()
    expect_accept = idx is None or idx_src == gvf
    fails = []
    accepted = None
    # GVF newer than its .idx, and older: the verdict may not depend on file times
    for tag, shift in (('gvf newer than idx', 5000), ('gvf older than idx', -5000)):
        os.utime(p, (st.st_atime + shift, st.st_mtime + shift))
        res = guarded(read_ondisk, [p], False, accepted is None)
        acc = '__raises__' not in res
        if acc and not expect_accept:
            same = len(idx_src) == len(gvf)
            fails.append((f'stale/accepted-stale-idx/{"same-size" if same else "size-changed"}',
                          f'open() accepted an .idx that was produced from different GVF bytes ({tag})'))
        elif not acc and expect_accept:
            fails.append(('stale/rejected-valid-idx' if idx is not None else 'stale/open-without-idx-raises',
                          f'open() raised {res["__raises__"]} although the .idx matches / is absent ({tag})'))
        if acc and expect_accept and accepted is None:
            lin = guarded(read_linear, [p])
            if '__raises__' in lin:
                fails.append(('stale/linear-raises', lin['__raises__']))
            elif lin != res:
                fails.append(('stale/open-content-differs', f'series through {"the .idx" if idx is not None else "generated index"} '
                                                            f'differ from the linear scan: {series_diff(lin, res, {})}'))
            grp = {tx: sorted({l.split("\t")[2] for l in ls}) for tx, ls in L.oracle_grouping([gvf.decode()]).items()}
            got = {tx: sorted({x[0] for b in s.values() for x in b}) for tx, s in res.items()}
            if got != grp:
                fails.append(('stale/open-vs-oracle-grouping', f'expected ids {grp} got {got}'))
        if accepted is None:
            accepted = acc
        if idx is None:
            break
    if p.read_bytes() != gvf or (q.exists() and q.read_bytes() != idx) or (idx is None and q.exists()):
        fails.append(('stale/open-modified-files', 'open() changed the GVF or the .idx on disk'))
    return accepted, expect_accept, fails


def part_stale(run):
    depth = int(os.environ.get('C13_DEPTH', 0)) or (4 if run.tier == 'quick' else 6)
    ref_init()
    C = bfs_contents()
    _REF['C'] = C
    s0 = (C['W1'], None, None)
    canon = lambda s: (sha(s[0]), sha(s[1]))
    seen = {canon(s0): (s0, [])}
    frontier = [s0]
    states = 1
    transitions = 0
    observed = 0
    n_accept = n_reject = 0
    viol = {}
    level_sizes = [1]
    edges = {}
    intern = {}
    samples = {}

    def note(key, what, trace, state):
        v = viol.setdefault(key, [0, what, trace, state])
        v[0] += 1
    for dep in range(depth + 1):
        obs = vlib.pmap(bfs_observe, frontier, jobs=run.jobs, init=ref_init)
        errs = vlib.harness_errors(obs)
        if errs:
            raise RuntimeError(errs[0])
        for s, (acc, exp_acc, fails) in zip(frontier, obs):
            observed += 1
            transitions += 1
            n_accept += 1 if acc else 0
            n_reject += 0 if acc else 1
            tr = seen[canon(s)][1]
            if not acc and len(tr) >= 2:
                samples['rejected'] = tr + ['open']
            if acc and s[1] is not None and len(tr) >= 3:
                samples['accepted'] = tr + ['open']
            for key, what in fails:
                note(key, what, seen[canon(s)][1] + ['open'], s)
        if dep == depth:
            break
        res = vlib.pmap(bfs_expand, frontier, jobs=run.jobs, init=ref_init)
        errs = vlib.harness_errors(res)
        if errs:
            raise RuntimeError(errs[0])
        nxt = []
        for (g, i, src), (op, new, fails) in ((s, r) for s, rs in zip(frontier, res) for r in rs):
            trace = seen[(sha(g), sha(i))][1]
            for key, what in fails:
                note(key, what, trace + [op], (g, i, src))
            if new is None:
                continue
            new = tuple(None if b is None else intern.setdefault(b, b) for b in new)
            transitions += 1
            c = canon(new)
            edges.setdefault((sha(g), sha(i)), []).append(c)
            if c in seen:
                old = seen[c][0]
                if (old[0], old[2]) != (new[0], new[2]):
                    note('stale/state-mismatch', 'two histories reach the same files but different model states',
                         trace + [op], new)
                continue
            seen[c] = (new, trace + [op])
            nxt.append(new)
            states += 1
        frontier = nxt
        level_sizes.append(len(nxt))
    # number of operation sequences (length <= depth) represented by the explored graph
    paths = {canon(s0): 1}
    total_paths = 0
    layer = {canon(s0): 1}
    for dep in range(depth):
        new_layer = {}
        for c, n in layer.items():
            for c2 in edges.get(c, []):
                new_layer[c2] = new_layer.get(c2, 0) + n
        total_paths += sum(new_layer.values())
        layer = new_layer
    for key in sorted(viol):
        n, what, trace, st = viol[key]
        run.violation(key, f'stale-index BFS: {n} state(s)/transition(s); shortest trace {trace}: {what}',
                      dict(kind='stale', trace=trace, gvf=st[0].decode(), idx=None if st[1] is None else st[1].decode(),
                           idx_src=None if st[2] is None else st[2].decode()))
    run.block('stale-index-bfs', transitions, n_reject, True, depth=depth, ops=','.join(OPS), states=states,
              opens_accepted=n_accept, opens_rejected=n_reject, states_per_depth=level_sizes,
              operation_sequences_represented=total_paths)
    for verdict, tr in sorted(samples.items()):
        run.sample(dict(kind='stale', trace=tr, observed_and_expected=verdict))
    return states, transitions, transitions


# =============================================================================================
def replay(path):
    r = json.load(open(path))
    print('replaying', r['key'])
    print(' ', r['what'][:800])
    snapshot_metadata_tables()
    k = r['kind']
    if k == 'line':
        spec = r['spec']
        print('oracle line   :', repr((L.fmt_circ if spec['kind'] == 'circ' else L.fmt_seqvar)(spec)))
        print('oracle record :', (L.expected_parsed_circ if spec['kind'] == 'circ' else L.expected_parsed_seqvar)(spec))
        for f in check_line_case(spec):
            print('FAIL field=%s stage=%s\n   expected=%r\n   got     =%r' % f)
    elif k == 'file':
        for f in file_case(dict(specs=r['specs'], meta=r['meta'])):
            print('FAIL', f[0], f[1], '\n   expected=%r\n   got     =%r' % (str(f[2])[:500], str(f[3])[:500]))
    elif k == 'meta':
        for f in meta_case((r['meta'], r['types'])):
            print('FAIL', f)
    elif k == 'history':
        a, b, diff, h0, h1 = history_case((r['first'], r['second'], one_spec_per_kind('quick')))
        print('header of', b, 'in a fresh process:\n  ' + '\n  '.join(h0))
        print('header of', b, 'after writing', a, ':\n  ' + '\n  '.join(h1))
        print('differing header lines:', diff)
    elif k == 'index':
        ref_init()
        cid, nt, fails, detail = index_case((tuple(r['files'][0]), tuple(r['files'][1]) if len(r['files']) > 1 else ()))
        print('files:', cid)
        if detail and detail['texts'] != r['texts']:
            print('WARNING: the record alphabet changed since this replay file was written; stored GVF texts:', r['texts'])
        print('expected ids per transcript (oracle grouping):', r['expected_ids'])
        for k, v in (detail or {}).get('observed_ids', {}).items():
            print(f'observed via {k:7s}:', v)
        for key, what in fails:
            print('FAIL', key, '\n   ', what)
    elif k == 'stale':
        ref_init()
        C = bfs_contents()
        _REF['C'] = C
        s = (C['W1'], None, None)
        for op in r['trace']:
            if op == 'open':
                acc, exp, fails = bfs_observe(s)
                print(f'open: expected {"accept" if exp else "reject"}, got {"accept" if acc else "reject"}', fails)
            else:
                _, new, fails = bfs_step((s[0], s[1], s[2], op))
                print(op, 'disabled' if new is None else 'ok', fails)
                s = new or s


def main():
    run = vlib.Run('C13', 'model_checking', __doc__)
    _violation, reported = run.violation, set()

    def violation_once(key, what, replay_dict):      # the same field can fail at line and at file level: one report
        if key in reported:
            return False
        reported.add(key)
        return _violation(key, what, replay_dict)
    run.violation = violation_once
    snapshot_metadata_tables()
    if run.args.replay:
        return replay(run.args.replay)
    run.rule = ('(1) every record kind x every subset of its optional attributes x start/position attributes in '
                '{0,1,mid} x representative values x attribute orders, at line level (write / parse / rewrite against '
                'an independent formatter) and at file level (every subset of kinds per file, tool writer -> parse -> '
                'tool writer); non-trivial = at least one optional attribute present.  (2) every arrangement of <= n '
                'distinct records of a fixed alphabet (3 transcripts, 2 genes; SNV/INDEL/intronic/fusion/alt-splicing/'
                'circRNA) into one or two ordered homogeneous GVF files (quick: n=4 plus the seed-selected complete slice '
                'of n=5 arrangements starting with one record; thorough: n=5); non-trivial = some transcript is split in >= 2 '
                'runs/pointers.  (3) BFS over file-edit/index operations, states canonicalised by (sha(gvf), sha(idx)); '
                'non-trivial = states in which open() must reject.')
    run.assume('lib/c13lib.py formats GVF lines as docs/file-format.md describes (1-based POS/START/DONOR_START/'
               'ACCEPTER_POSITION; END, DONOR_END unchanged; circRNA POS as stored)')
    run.assume('attribute values are drawn from what the parsers emit (no "=", ";", tab, quotes or surrounding blanks)')
    run.assume('record type RNAEditingSite is not part of the GVF text and reads back as SNV; circRNA fragment types '
               'follow the reader\'s 1-based INTRON convention')
    run.assume('per-transcript results are compared as sets of fully rendered records (the on-disk pool de-duplicates '
               'identical lines by design)')
    run.assume('.idx content is compared with the model: "# CHECKSUM=<sha512 of the GVF bytes>" then one line '
               '"<transcript>\\t<byte offset>\\t<byte length incl. newline>" per maximal run of equal TRANSCRIPT_ID')
    run.assume('the fresh-process state of the module-level INFO table is restored before every file-level case')
    states = transitions = traces = 0
    if run.want('lines'):
        part_lines(run)
    if run.want('files'):
        part_files(run)
    if run.want('index'):
        part_index(run)
    if run.want('stale'):
        states, transitions, traces = part_stale(run)
    run.finish(states=states, transitions=transitions, traces=traces)


if __name__ == '__main__':
    main()
