"""C01 — completeness of callVariant: MUST (oracle, strict haplotypes) ⊆ output, on every case of
every enumerated block (DESIGN §4 C01)."""
import sys
import vlib, enginea as E, cv_common as CC


def main():
    run = vlib.Run('C01', 'exploration', __doc__)
    if run.args.replay:
        j = CC.replay_case(run.args.replay, 'C01')
        sys.exit(1 if (j['crash'] or j['missing']) else 0)
    run.rule = ('every variant set with <=k elementary records (3 SNVs, ins A/TG/CAT, del 1/2/3 at every transcript '
                'position; pairs within 9 nt; triples within 5 nt; fusion / circRNA / alt-splicing records) on the '
                'designed reference panel is executed with the real callVariant; non-trivial = the oracle MUST set '
                'or the output is non-empty.  quick covers complete D1 + seed-selected complete D2 windows.')
    run.assume('complexity limits disabled (-1) so they are not binding, as the property requires')
    run.assume('oracle: lib/cvoracle.py (strict haplotypes), lib/expasy_table.py, Biopython molecular_weight')
    def on_case(case, r, j, name):
        if j['crash']:
            run.violation(f'{case.key()}|crash', f'callVariant raised: {j["crash"]}', CC.case_to_replay(case))
        elif j['missing']:
            run.violation(f'{case.key()}|missing:{",".join(j["missing"][:3])}',
                          f'missing peptides {j["missing"][:6]} (MUST={j["n_must"]}, output={j["n_out"]})',
                          CC.case_to_replay(case))
        return bool(j['n_must'] or j['n_out'])
    CC.run_blocks(run, 'C01', on_case)
    # node-collapsing parameters never change the result
    if not run.only or any(o.startswith('COLLAPSE') for o in run.only):
        cb, base = CC.collapse_cases(run.tier, run.seed)
        base_res, _, _ = E.run_block('COLLAPSE/base', base, jobs=run.jobs)
        for name, cases, info in cb:
            res, _, _ = E.run_block(name, cases, jobs=run.jobs)
            nt = 0
            for c0, r0, c, r in zip(base, base_res, cases, res):
                a_ = set(r0['peptides'] or {}) if r0['ok'] else ('crash', r0['exc'])
                b_ = set(r['peptides'] or {}) if r['ok'] else ('crash', r['exc'])
                if a_ != b_:
                    run.violation(f'{c.key()}|collapse-differs',
                                  f'output with collapse={c.cfg.collapse} differs from default: '
                                  f'only default={sorted(a_ - b_)[:4] if isinstance(a_, set) and isinstance(b_, set) else a_} '
                                  f'only this={sorted(b_ - a_)[:4] if isinstance(a_, set) and isinstance(b_, set) else b_}',
                                  CC.case_to_replay(c))
                if isinstance(b_, set) and b_:
                    nt += 1
            run.block(name, len(cases), nt, True, **info)
    run.finish()


if __name__ == '__main__':
    main()
