"""C15 — fusion parsers yield the fusion transcript defined by the breakpoints.

Bounded exhaustive input enumeration driving the real commands parseSTARFusion / parseFusionCatcher /
parseArriba (and callVariant on what they emit) on a four-gene reference (A +, two isoforms; B -, two
isoforms; C +; D -; three exons each, coding, designed sequences).

Blocks
  grid        every (donor breakpoint, acceptor breakpoint) pair of the position grid (stride 1 within
              +-4 nt of every exon boundary of every isoform, coarser elsewhere) x all 12 ordered gene
              pairs (all four strand combinations, multi-isoform donors / acceptors) x three tools.
              Oracle 1: each emitted record, read by an independent GVF reader and interpreted by the
              documented GVF semantics in gene coordinates, must denote exactly the fused sequence
              computed from the genomic breakpoints and the raw exon intervals on the genome string; exactly
              one record per eligible (donor transcript, acceptor transcript) pair; tally must agree.
  thresholds  every combination of row values {t-1, t, t+1} (plus +-0.01 for est_J) for every evidence
              option of every tool, for default and explicit option values.
  unknown     rows naming unknown donor / acceptor / both genes (and Arriba antisense / unknown-strand
              rows) interleaved with valid rows: skipped, counted, neighbours unaffected.
  e2e         sub-grid: callVariant on the emitted GVF (one record at a time and as emitted); every
              peptide must carry the fusion's label and be a product (trypsin, <=2 missed cleavages,
              with / without N-terminal M) of the translation of the fused sequence from the donor's ORF
              start (MAY); junction-spanning valid non-canonical products must be present (MUST); the
              run on the emitted file must equal the union of the one-record runs.
  collapse    two rows with the same donor breakpoint and different acceptor genes: the joint run must
              equal the union of the single runs.
"""
import itertools, json, re, sys
from pathlib import Path
import vlib, drive, refgen, oracle as O
import c15lib as L

CL_ARGS = dict(exception=None, min_length=5, min_mw=300.)
_W = {}


def W():
    if 'R' not in _W:
        R = L.build_ref()
        L.check_ref(R)
        d = vlib.worker_dir('c15_')
        R.write(d / 'ref')
        cl = O.Cleavage('trypsin', None, 2, 5, 25, 300.)
        _W.update(R=R, d=d, cl=cl, canon=O.canonical_pool(R.proteins(), cl), cache={})
    return _W


# ---- thresholds as documented in the option help texts ------------------------------------------
DEFAULTS = {'star': dict(min_est_j=5.0),
            'fc': dict(max_common_mapping=0, min_spanning_unique=5),
            'arriba': dict(min_split_read1=1, min_split_read2=1, min_confidence='medium')}
ROWDEF = {'star': dict(est_j=10.0), 'fc': dict(common_mapping=0, spanning_unique=10),
          'arriba': dict(split_reads1=9, split_reads2=8, confidence='high')}
CONF = {'low': 0, 'medium': 1, 'high': 2}


def thresholds(tool, explicit):
    t = dict(DEFAULTS[tool])
    t.update(explicit or {})
    return t


def opt_argv(explicit):
    a = []
    for k, v in (explicit or {}).items():
        a += ['--' + k.replace('_', '-'), str(v)]
    return a


def passes(tool, ev, thr):
    e = dict(ROWDEF[tool])
    e.update(ev or {})
    if tool == 'star':
        return round(e['est_j'], 2) >= thr['min_est_j']          # "minimal ... to be included"
    if tool == 'fc':
        return e['common_mapping'] <= thr['max_common_mapping'] and e['spanning_unique'] >= thr['min_spanning_unique']
    return (e['split_reads1'] >= thr['min_split_read1'] and e['split_reads2'] >= thr['min_split_read2']
            and CONF[e['confidence']] >= CONF[thr['min_confidence']])


def at_threshold(tool, ev, thr):
    e = dict(ROWDEF[tool])
    e.update(ev or {})
    pairs = {'star': [('est_j', 'min_est_j')],
             'fc': [('common_mapping', 'max_common_mapping'), ('spanning_unique', 'min_spanning_unique')],
             'arriba': [('split_reads1', 'min_split_read1'), ('split_reads2', 'min_split_read2'),
                        ('confidence', 'min_confidence')]}[tool]
    return [a for a, b in pairs if e[a] == thr[b]]


def disposition(R, tool, row, thr):
    """('accept', None) or ('skip', tally category or None when the category is not determined)."""
    unknown = row.dg not in R.gene or row.ag not in R.gene
    fails = not passes(tool, row.ev, thr)
    if unknown and fails:
        return 'skip', None
    if unknown:
        return 'skip', 'invalid_gene_id'
    if fails:
        return 'skip', 'insufficient_evidence'
    if tool == 'arriba':
        s1 = '+' if R.gene[row.dg]['strand'] == 1 else '-'
        s2 = '+' if R.gene[row.ag]['strand'] == 1 else '-'
        if row.ev.get('fusion_strand1', s1) != s1 or row.ev.get('fusion_strand2', s2) != s2:
            return 'skip', 'antisense_strand'
    return 'accept', None


# ---- driving the parsers ------------------------------------------------------------------------
_TALLY = [('total', r'Totally records read: (\d+)'), ('succeed', r'Records successfully processed: (\d+)'),
          ('skipped', r'Records skipped: (\d+)'), ('invalid_gene_id', r'Invalid gene ID: (\d+)'),
          ('invalid_position', r'Invalid position: (\d+)'), ('insufficient_evidence', r'Insufficient evidence: (\d+)'),
          ('antisense_strand', r'Antisense strand: (\d+)')]


def parse_tally(log):
    t = {}
    for _, msg in log or []:
        for k, rx in _TALLY:
            m = re.search(rx, msg)
            if m:
                t[k] = int(m.group(1))
    return t


def run_parser(tool, rows, explicit=None, fc_versioned=False, tag=''):
    w = W()
    d, R = w['d'], w['R']
    inp, out = d / f'in_{tool}{tag}.tsv', d / f'out_{tool}{tag}.gvf'
    if out.exists():
        out.unlink()
    L.write_rows(inp, R, tool, rows, fc_versioned)
    argv = [L.COMMAND[tool], '-i', inp, '-o', out, '--source', 'Fusion', '-a', d / 'ref' / 'annotation.gtf',
            '-g', d / 'ref' / 'genome.fasta'] + opt_argv(explicit)
    r = drive.run(argv, capture_log=True)
    res = dict(ok=r['ok'], exc=r['exc'], tb=r['tb'], records=[], header=[], wrote=out.exists(),
               tally=parse_tally(r['log']),
               no_record_msg=any('No variant record is saved' in m for _, m in (r['log'] or [])), path=out)
    if r['ok'] and out.exists():
        res['meta'], res['records'] = L.read_gvf(out)
        res['header'] = [l.rstrip('\n') for l in open(out) if l.startswith('#')]
    return res


def row_dict(row):
    return dict(dg=row.dg, d0=row.d0, ag=row.ag, a0=row.a0, ev=row.ev, strands=row.strands)


def row_from(d):
    return L.Row(d['dg'], d['d0'], d['ag'], d['a0'], d.get('ev') or {}, tuple(d['strands']) if d.get('strands') else None)


def row_name(row):
    return f'{row.dg}:{row.d0 + 1}>{row.ag}:{row.a0 + 1}'


def strands_of(R, row):
    f = lambda g, i: {1: '+', -1: '-'}[L.gene_strand(R, g, row, i)]
    return f(row.dg, 0) + f(row.ag, 1)


def classes(R, row, dtx=None, atx=None):
    if row.dg not in R.gene or row.ag not in R.gene:
        return 'unknown-gene', 'unknown-gene'
    dtx = dtx or R.gene[row.dg]['transcripts'][0]['tx_id']
    atx = atx or R.gene[row.ag]['transcripts'][0]['tx_id']
    return L.pos_class(R, dtx, row.d0), L.pos_class(R, atx, row.a0)


def mk_viol(kind, tool, R, row, what, dtx=None, atx=None, explicit=None, fc_versioned=False, extra_key=''):
    dc, ac = classes(R, row, dtx, atx)
    key = f'parse/{kind}/{tool}/{dc}/{ac}/{strands_of(R, row)}{extra_key}'
    return (key, f'{tool} row {row_name(row)} ev={row.ev} options={explicit or {}}: {what}',
            dict(kind='parse', tool=tool, rows=[row_dict(row)], explicit=explicit or {}, fc_versioned=fc_versioned))


def first_diff(a, b):
    n = min(len(a), len(b))
    for i in range(n):
        if a[i] != b[i]:
            return i
    return n


def check_rows(tool, rows, res, explicit, fc_versioned, R, out):
    """Oracle 1 on one successful parser invocation.  Appends violations to out['viol'] and
    updates counters."""
    thr = thresholds(tool, explicit)
    by_key = {}
    for i, row in enumerate(rows):
        assert row.key() not in by_key, 'harness: duplicate row key in batch'
        by_key[row.key()] = i
    got = {i: [] for i in range(len(rows))}
    for rec in res['records']:
        k = L.record_row_key(rec)
        if k is None or k not in by_key:
            out['viol'].append((f'parse/unattributable-record/{tool}',
                                f'{tool}: record names no input row: {rec["line"][:300]}',
                                dict(kind='parse', tool=tool, rows=[row_dict(r) for r in rows[:50]], explicit=explicit or {},
                                     fc_versioned=fc_versioned)))
            continue
        got[by_key[k]].append(rec)
    exp_tally = dict(total=len(rows), succeed=0, skipped=0, invalid_gene_id=0, insufficient_evidence=0,
                     antisense_strand=0, invalid_position=0)
    undetermined = False
    for i, row in enumerate(rows):
        disp, cat = disposition(R, tool, row, thr)
        if disp == 'accept':
            exp_tally['succeed'] += 1
            exp = L.expected_pairs(R, row)
        else:
            exp_tally['skipped'] += 1
            if cat is None:
                undetermined = True
            else:
                exp_tally[cat] += 1
            exp = {}
        out['rows'] += 1
        if exp:
            out['nontrivial'] += 1
        seen = {}
        for rec in got[i]:
            out['records'] += 1
            try:
                it = L.interpret_record(R, rec)
            except ValueError as e:
                out['viol'].append(mk_viol('uninterpretable-record', tool, R, row, f'{e}: {rec["line"][:300]}',
                                           explicit=explicit, fc_versioned=fc_versioned))
                continue
            pair = (it['donor_tx'], it['acc_tx'])
            if pair in seen:
                out['viol'].append(mk_viol('duplicate-record', tool, R, row, f'two records for {pair}', *pair,
                                           explicit=explicit, fc_versioned=fc_versioned))
                continue
            seen[pair] = it
            # REF column (informational: not part of the denoted sequence)
            gs = R.gene_seq(rec['chrom'])
            st = out['ref'].setdefault(f'{tool}/{"+" if R.gene[rec["chrom"]]["strand"] == 1 else "-"}', [0, 0])
            st[0] += 1
            if it['p'] < len(gs) and rec['ref'] != gs[it['p']]:
                st[1] += 1
            if pair not in exp and disp == 'skip' and cat == 'insufficient_evidence':
                at = at_threshold(tool, row.ev, thr)
                out['viol'].append((f'parse/threshold/{tool}/rejected-row-emitted/at={"+".join(at) or "none"}',
                                    f'{tool} row {row_name(row)} ev={row.ev} options={explicit or {}}: fails the documented '
                                    f'thresholds {thr} but a record was emitted: {rec["id"]}',
                                    dict(kind='parse', tool=tool, rows=[row_dict(row)], explicit=explicit or {},
                                         fc_versioned=fc_versioned)))
                continue
            if pair not in exp:
                kind = 'skipped-row-emitted' if disp == 'skip' else 'extra-record'
                out['viol'].append(mk_viol(kind, tool, R, row,
                                           f'record for {pair} (disposition {disp}/{cat}); eligible pairs {sorted(exp)}',
                                           *pair, explicit=explicit, fc_versioned=fc_versioned))
                continue
            e = exp[pair]
            if it['fused'] != e['fused']:
                side = ('donor' if it['donor'] != e['donor'] else '') + ('acceptor' if it['acceptor'] != e['acceptor'] else '')
                what = (f'pair {pair}: POS={rec["pos"]} ACCEPTER_POSITION={rec["info"]["ACCEPTER_POSITION"]} denotes '
                        f'donor[{len(it["donor"])}]=..{it["donor"][-12:]} acceptor[{len(it["acceptor"])}]={it["acceptor"][:12]}.. '
                        f'but the breakpoints define donor[{len(e["donor"])}]=..{e["donor"][-12:]} '
                        f'acceptor[{len(e["acceptor"])}]={e["acceptor"][:12]}.. (differs on: {side})')
                out['viol'].append(mk_viol('seq-mismatch-' + side, tool, R, row, what, *pair, explicit=explicit,
                                           fc_versioned=fc_versioned))
        if exp and not got[i]:
            # the whole row vanished: name the evidence values that sit exactly on their thresholds
            at = at_threshold(tool, row.ev, thr)
            if row.ev or explicit:
                key = f'parse/threshold/{tool}/accepted-row-dropped/at={"+".join(at) or "none"}'
                out['viol'].append((key, f'{tool} row {row_name(row)} ev={row.ev} options={explicit or {}}: passes the '
                                         f'documented thresholds {thr} but no record was emitted (tally {res["tally"]})',
                                    dict(kind='parse', tool=tool, rows=[row_dict(row)], explicit=explicit or {},
                                         fc_versioned=fc_versioned)))
            else:
                out['viol'].append(mk_viol('row-dropped', tool, R, row,
                                           f'no record at all; eligible pairs {sorted(exp)} (tally {res["tally"]})',
                                           explicit=explicit, fc_versioned=fc_versioned))
        else:
            for pair in exp:
                if pair not in seen:
                    out['viol'].append(mk_viol('missing-record', tool, R, row,
                                               f'no record for eligible pair {pair}; got {sorted(seen)}', *pair,
                                               explicit=explicit, fc_versioned=fc_versioned))
    # tally / log
    n_rec = len(res['records'])
    batch_replay = dict(kind='parse', tool=tool, rows=[row_dict(r) for r in rows[:200]], explicit=explicit or {},
                        fc_versioned=fc_versioned)
    if n_rec == 0:
        if res['wrote']:
            pass    # an empty GVF is acceptable
        elif not res['no_record_msg']:
            out['viol'].append((f'parse/tally/{tool}/no-output-no-message', f'{tool}: no GVF and no message',
                                batch_replay))
    if res['tally']:
        t = res['tally']
        bad = []
        for k in ('total', 'succeed', 'skipped'):
            if t.get(k) != exp_tally[k]:
                bad.append((k, exp_tally[k], t.get(k)))
        if not undetermined:
            for k in ('invalid_gene_id', 'insufficient_evidence', 'antisense_strand', 'invalid_position'):
                if k in t and t[k] != exp_tally[k]:
                    bad.append((k, exp_tally[k], t[k]))
                if k not in t and exp_tally[k] and exp_tally['skipped']:
                    bad.append((k, exp_tally[k], None))
        if bad:
            out['viol'].append((f'parse/tally/{tool}/' + '+'.join(b[0] for b in bad),
                                f'{tool}: tally (field, expected, logged) = {bad} for {len(rows)} rows, options {explicit or {}}',
                                batch_replay))
        out['tally_checked'] += 1
    elif n_rec:
        out['viol'].append((f'parse/tally/{tool}/not-logged', f'{tool}: records written but no tally logged', batch_replay))


def eval_batch(tool, rows, explicit=None, fc_versioned=False):
    w = W()
    R = w['R']
    out = dict(rows=0, nontrivial=0, records=0, viol=[], ref={}, tally_checked=0, invocations=1)
    res = run_parser(tool, rows, explicit, fc_versioned)
    if res['ok']:
        check_rows(tool, rows, res, explicit, fc_versioned, R, out)
        return out
    # the invocation raised: attribute to rows by running each row alone
    for row in rows:
        out['invocations'] += 1
        r1 = run_parser(tool, [row], explicit, fc_versioned)
        if r1['ok']:
            check_rows(tool, [row], r1, explicit, fc_versioned, R, out)
        else:
            out['rows'] += 1
            etype = (r1['exc'] or '').split(':')[0]
            out['viol'].append(mk_viol(f'crash-{etype}', tool, R, row, f'parser raised {r1["exc"]}', explicit=explicit,
                                       fc_versioned=fc_versioned))
    return out


# ---- grids ---------------------------------------------------------------------------------------
def boundaries(R, gene_id):
    bs = set()
    for t in R.gene[gene_id]['transcripts']:
        for a, b in t['exons']:
            bs.add(a)
            bs.add(b)
    return sorted(bs)


def grid_positions(R, gene_id, stride, reach=4):
    lo, hi = R.gene_span(gene_id)
    ps = set()
    for b in boundaries(R, gene_id):
        ps.update(range(b - reach, b + reach))
    ps.update(range(lo, hi, stride))
    ps.add(hi - 1)
    return sorted(p for p in ps if lo <= p < hi)


def e2e_positions(R, gene_id, tier, role='donor'):
    lo, hi = R.gene_span(gene_id)
    ps = set()
    offs = (-1, 0) if tier == 'quick' else (-2, -1, 0, 1)
    for b in boundaries(R, gene_id):
        ps.update(b + o for o in offs)
    for t in R.gene[gene_id]['transcripts']:
        tx = t['tx_id']
        c = R.cds_tx(tx)
        idxs = [c[0] + 1, c[0] + 2, c[0] + 3] if tier == 'quick' else [c[0] - 1, c[0], c[0] + 1, c[0] + 2, c[0] + 3, c[0] + 4,
                                                                     c[1] - 1, c[1], c[1] + 2, c[1] + 3]
        if role == 'acceptor' and tier == 'quick':
            idxs = []           # the start-codon neighbourhood matters on the donor side only
        for i in idxs:
            if 0 <= i < R.tx_len(tx):
                ps.add(R.gene_to_genomic(gene_id, R.tx_to_gene(tx, i)))
    t0 = R.gene[gene_id]['transcripts'][0]
    if tier == 'quick':
        for a, b in t0['exons']:
            ps.add((a + b) // 2)
        if role == 'donor':
            for (a, b), (c, d) in zip(t0['exons'], t0['exons'][1:]):
                ps.add((b + c) // 2)
    else:
        ps.update(range(lo + 2, hi, 8))
    return sorted(p for p in ps if lo <= p < hi)


def gene_pairs(R):
    ids = [g['gene_id'] for g in R.genes]
    return [(a, b) for a in ids for b in ids if a != b]


# ---- block: grid ---------------------------------------------------------------------------------
def grid_job(job):
    tool, dg, ag, dpos, apos = job
    rows = [L.Row(dg, d0, ag, a0) for d0 in dpos for a0 in apos]
    return eval_batch(tool, rows)


def add_viols(agg, viols):
    """agg[key] = [count, what, replay, rank]; the recorded example is the one of smallest rank
    (number of rows, number of records), first in enumeration order among equals."""
    for v in viols:
        key, what, replay = v[:3]
        rank = v[3] if len(v) > 3 else (len(replay.get('rows', [])),)
        a = agg.get(key)
        if a is None:
            agg[key] = [1, what, replay, rank]
        else:
            a[0] += 1
            if rank < a[3]:
                a[1], a[2], a[3] = what, replay, rank


def merge(run, results, agg):
    errs = vlib.harness_errors(results)
    if errs:
        raise RuntimeError(errs[0])
    tot = dict(rows=0, nontrivial=0, records=0, tally_checked=0, invocations=0)
    for r in results:
        for k in tot:
            tot[k] += r.get(k, 0)
        add_viols(agg, r['viol'])
        for k, v in r.get('ref', {}).items():
            s = agg.setdefault(('ref', k), [0, 0])
            s[0] += v[0]
            s[1] += v[1]
    return tot


def block_grid(run, R, agg):
    stride = 6 if run.tier == 'quick' else 1
    pos = {g['gene_id']: grid_positions(R, g['gene_id'], stride) for g in R.genes}
    jobs = []
    for tool in L.TOOLS:
        for dg, ag in gene_pairs(R):
            dp = pos[dg]
            step = 6 if run.tier == 'quick' else 4
            for i in range(0, len(dp), step):
                jobs.append((tool, dg, ag, dp[i:i + step], pos[ag]))
    res = vlib.pmap(grid_job, jobs, jobs=run.jobs, chunk=1)
    tot = merge(run, res, agg)
    run.block('grid', tot['rows'], tot['nontrivial'], True, tools=3, gene_pairs=len(gene_pairs(R)),
              positions_per_gene={k.split('.')[0]: len(v) for k, v in pos.items()}, records=tot['records'],
              parser_invocations=tot['invocations'], tallies_checked=tot['tally_checked'], stride_elsewhere=stride)


# ---- block: thresholds ---------------------------------------------------------------------------
def coord_pool(R):
    """Distinct, valid (dg, d0, ag, a0) coordinates: exon-2 positions of the first transcript of each
    gene, all ordered gene pairs interleaved."""
    per = {}
    for g in R.genes:
        a, b = g['transcripts'][0]['exons'][1]
        per[g['gene_id']] = list(range(a + 2, b - 2))
    pool = []
    for k in range(30):
        for dg, ag in gene_pairs(R):
            pool.append((dg, per[dg][k], ag, per[ag][(k * 3 + 1) % len(per[ag])]))
    assert len(set(pool)) == len(pool)
    return pool


def threshold_configs(tier):
    cfgs = []
    for t in (None, 3.0, 7.5, 0.0):
        ex = {} if t is None else dict(min_est_j=t)
        tv = 5.0 if t is None else t
        vals = sorted({round(v, 2) for v in (tv - 1, tv - 0.01, tv, tv + 0.01, tv + 1) if v >= 0})
        cfgs.append(('star', ex, [dict(est_j=v) for v in vals]))
    for cm in (None, 2):
        for su in (None, 3, 1):
            ex = {}
            if cm is not None:
                ex['max_common_mapping'] = cm
            if su is not None:
                ex['min_spanning_unique'] = su
            c0, s0 = (0 if cm is None else cm), (5 if su is None else su)
            evs = [dict(common_mapping=c, spanning_unique=s) for c in sorted({max(c0 - 1, 0), c0, c0 + 1})
                   for s in sorted({max(s0 - 1, 0), s0, s0 + 1})]
            cfgs.append(('fc', ex, evs))
    for r1 in (None, 3):
        for r2 in (None, 2):
            for cf in (None, 'low', 'medium', 'high'):
                ex = {}
                if r1 is not None:
                    ex['min_split_read1'] = r1
                if r2 is not None:
                    ex['min_split_read2'] = r2
                if cf is not None:
                    ex['min_confidence'] = cf
                a0, b0 = (1 if r1 is None else r1), (1 if r2 is None else r2)
                evs = [dict(split_reads1=a, split_reads2=b, confidence=c) for a in (a0 - 1, a0, a0 + 1)
                       for b in (b0 - 1, b0, b0 + 1) for c in ('low', 'medium', 'high')]
                cfgs.append(('arriba', ex, evs))
    return cfgs


def threshold_job(job):
    tool, explicit, evs, shift = job
    R = W()['R']
    pool = coord_pool(R)
    rows = []
    for i, ev in enumerate(evs):
        dg, d0, ag, a0 = pool[(i + shift) % len(pool)]
        rows.append(L.Row(dg, d0, ag, a0, ev=ev))
    out = eval_batch(tool, rows, explicit)
    # each row alone as well (a batch of one: the "no record" path when it is rejected)
    for row in rows:
        o = eval_batch(tool, [row], explicit)
        for k in ('rows', 'nontrivial', 'records', 'tally_checked', 'invocations'):
            out[k] += o[k]
        out['viol'] += o['viol']
    return out


def block_thresholds(run, R, agg):
    jobs = []
    for k, (tool, ex, evs) in enumerate(threshold_configs(run.tier)):
        for shift in ((0,) if run.tier == 'quick' else (0, 5, 11)):
            jobs.append((tool, ex, evs, shift + k))
    res = vlib.pmap(threshold_job, jobs, jobs=run.jobs, chunk=1)
    tot = merge(run, res, agg)
    run.block('thresholds', tot['rows'], tot['nontrivial'], True, configurations=len(threshold_configs(run.tier)),
              records=tot['records'], parser_invocations=tot['invocations'], tallies_checked=tot['tally_checked'])


# ---- block: unknown genes / antisense -------------------------------------------------------------
UNKNOWN = ('ENSG901.1', 'ENSG902.7')


def unknown_job(job):
    tool, versioned, dg, ag, k = job
    R = W()['R']
    pool = [c for c in coord_pool(R) if c[0] == dg and c[2] == ag]
    variants = []
    base = pool[k:k + 12]
    sd, sa = R.gene[dg]['strand'], R.gene[ag]['strand']
    for i, (g1, d0, g2, a0) in enumerate(base):
        m = i % 6
        if m == 0 or m == 5:
            variants.append(L.Row(g1, d0, g2, a0))
        elif m == 1:
            variants.append(L.Row(UNKNOWN[0], d0, g2, a0, strands=(sd, sa)))
        elif m == 2:
            variants.append(L.Row(g1, d0, UNKNOWN[1], a0, strands=(sd, sa)))
        elif m == 3:
            variants.append(L.Row(UNKNOWN[0], d0, UNKNOWN[1], a0, strands=(sd, sa)))
        elif m == 4:
            # unknown gene and failing evidence: category undetermined, must still be skipped
            ev = {'star': dict(est_j=1.0), 'fc': dict(spanning_unique=1), 'arriba': dict(confidence='low')}[tool]
            variants.append(L.Row(g1, d0, UNKNOWN[1], a0, ev=ev, strands=(sd, sa)))
    if tool == 'arriba':
        flip = {'+': '-', '-': '+'}
        s1, s2 = ('+' if sd == 1 else '-'), ('+' if sa == 1 else '-')
        extra = pool[k + 12:k + 16]
        evs = [dict(fusion_strand1=flip[s1]), dict(fusion_strand2=flip[s2]), dict(fusion_strand1='.'),
               dict(fusion_strand1=flip[s1], fusion_strand2=flip[s2])]
        for (g1, d0, g2, a0), ev in zip(extra, evs):
            variants.append(L.Row(g1, d0, g2, a0, ev=ev))
    out = eval_batch(tool, variants, None, versioned)
    # only-unknown batch: nothing to write
    only = [r for r in variants if r.dg not in R.gene or r.ag not in R.gene]
    o = eval_batch(tool, only, None, versioned)
    for kk in ('rows', 'nontrivial', 'records', 'tally_checked', 'invocations'):
        out[kk] += o[kk]
    out['viol'] += o['viol']
    return out


def block_unknown(run, R, agg):
    jobs = []
    for tool in L.TOOLS:
        for versioned in ((False, True) if tool == 'fc' else (False,)):
            for dg, ag in gene_pairs(R):
                for k in ((0,) if run.tier == 'quick' else (0, 7, 13)):
                    jobs.append((tool, versioned, dg, ag, k))
    res = vlib.pmap(unknown_job, jobs, jobs=run.jobs, chunk=1)
    tot = merge(run, res, agg)
    run.block('unknown', tot['rows'], tot['nontrivial'], True, records=tot['records'],
              parser_invocations=tot['invocations'], tallies_checked=tot['tally_checked'])


# ---- block: end to end ----------------------------------------------------------------------------
def call_variant_on(lines_header, rec_lines, tag):
    w = W()
    d = w['d']
    gvf = d / f'e2e_{tag}.gvf'
    with open(gvf, 'w') as f:
        f.write('\n'.join(list(lines_header) + list(rec_lines)) + '\n')
    idx = Path(str(gvf) + '.idx')
    if idx.exists():
        idx.unlink()
    r = drive.call_variant(d / f'e2e_{tag}.fasta', [gvf], refdir=d / 'ref', cleavage=drive.cleavage_argv(**CL_ARGS))
    return r


def e2e_viol(kind, tool, R, row, what, rows, dtx=None, atx=None, region=''):
    dc, ac = classes(R, row, dtx, atx)
    key = f'e2e/{kind}/{tool}/{dc}{region}/{ac}/{strands_of(R, row)}'
    return (key, f'{tool} row {row_name(row)} pair ({dtx},{atx}): {what}',
            dict(kind='e2e', tool=tool, rows=[row_dict(r) for r in rows]))


def eval_e2e(tool, rows):
    """rows: the rows of ONE parser invocation (one row for the sub-grid, two for the collapse block)."""
    w = W()
    R, cl, canon = w['R'], w['cl'], w['canon']
    out = dict(rows=0, nontrivial=0, records=0, viol=[], runs=0, cases=1, must=0, peptides=0, invocations=1)
    res = run_parser(tool, rows, tag='_e2e')
    if not res['ok']:
        out['viol'].append(mk_viol('crash-e2e', tool, R, rows[0], f'parser raised {res["exc"]}'))
        return out
    by_key = {r.key(): r for r in rows}
    singles = []
    nontrivial = False
    for rec in res['records']:
        row = by_key.get(L.record_row_key(rec))
        if row is None:
            continue            # reported by the grid block
        info = rec['info']
        pair = (info.get('TRANSCRIPT_ID'), info.get('ACCEPTER_TRANSCRIPT_ID'))
        exp = L.expected_pairs(R, row).get(pair)
        if exp is None:
            continue            # reported by the grid block
        out['records'] += 1
        n_ex = L.n_exonic_retained(R, pair[0], row.d0)
        may, must = L.fusion_peptides(R, pair[0], exp['donor'], exp['acceptor'], n_ex, cl, canon)
        cached = w['cache'].get(rec['line'])
        if cached is None:
            r = call_variant_on(res['header'], [rec['line']], 's')
            out['runs'] += 1
            if not r['ok'] or r['peptides'] is None:
                region = '@' + L.donor_region(R, pair[0], row.d0)
                out['viol'].append(e2e_viol('crash-' + (r.get('exc_type') or 'nofile'), tool, R, row,
                                            f'callVariant on the single record raised {r["exc"]}\n{rec["line"]}',
                                            rows, *pair, region=region))
                singles.append((rec, row, pair, None))
                continue
            cached = (frozenset(r['peptides']), tuple(sorted({lab.rsplit('|', 1)[0] for labs in r['peptides'].values()
                                                                for lab in labs})))
            if len(w['cache']) < 200000:
                w['cache'][rec['line']] = cached
        pep, labels = cached
        out['must'] += len(must)
        out['peptides'] += len(pep)
        if must or pep:
            nontrivial = True
        region = '@' + L.donor_region(R, pair[0], row.d0)
        spurious = sorted(pep - may)
        missing = sorted(must - pep)
        if spurious:
            out['viol'].append(e2e_viol('spurious', tool, R, row,
                                        f'peptides not products of the fused sequence from the donor ORF start: {spurious[:6]} '
                                        f'(fused={exp["donor"][-15:]}|{exp["acceptor"][:15]}; record {rec["id"]})', rows, *pair,
                                        region=region))
        if missing:
            out['viol'].append(e2e_viol('missing', tool, R, row,
                                        f'junction-spanning products absent: {missing[:6]} (got {len(pep)} peptides; '
                                        f'fused={exp["donor"][-15:]}|{exp["acceptor"][:15]}; record {rec["id"]})', rows, *pair,
                                        region=region))
        badlab = [l for l in labels if l != rec['id']]
        if badlab:
            out['viol'].append(e2e_viol('label', tool, R, row, f'labels {badlab[:4]} do not name record {rec["id"]}', rows,
                                        *pair, region=region))
        singles.append((rec, row, pair, pep))
        out.setdefault('detail', []).append(dict(record=rec['line'], may=len(may), must=sorted(must), got=sorted(pep)))
    out['rows'] = len(rows)
    if nontrivial:
        out['nontrivial'] = 1
    # the emitted file as a whole
    ok_singles = [s for s in singles if s[3] is not None]
    if len(singles) > 1 and len(ok_singles) == len(singles):
        jkey = tuple(rec['line'] for rec in res['records'])
        joint = w['cache'].get(jkey)
        row = rows[0]
        if joint is None:
            r = call_variant_on(res['header'], list(jkey), 'c')
            out['runs'] += 1
            if not r['ok'] or r['peptides'] is None:
                out['viol'].append(e2e_viol('crash-joint-' + (r.get('exc_type') or 'nofile'), tool, R, row,
                                            f'callVariant on the emitted GVF raised {r["exc"]}', rows))
            else:
                joint = w['cache'][jkey] = frozenset(r['peptides'])
        if joint is not None:
            out['joint'] = sorted(joint)
            union = set().union(*[s[3] for s in singles])
            if joint != union:
                # which records collide under VariantRecord.__eq__ (same donor transcript, POS, REF)?
                cls = {}
                for rec, rw, pair, pep in singles:
                    cls.setdefault((pair[0], rec['pos'], rec['ref']), []).append(pep)
                explained = False
                if any(len(v) > 1 for v in cls.values()):
                    for choice in itertools.product(*[range(len(v)) for v in cls.values()]):
                        pred = set().union(*[v[c] for v, c in zip(cls.values(), choice)])
                        if pred == joint:
                            explained = True
                            break
                lost = sorted(union - joint)
                extra = sorted(joint - union)
                if explained:
                    out['viol'].append(('e2e/collapsed/same-donor-breakpoint-different-accepter',
                                        f'{tool} rows {[row_name(x) for x in rows]}: {len(singles)} records, '
                                        f'{len(cls)} distinct (donor transcript, POS, REF); the run on the emitted GVF equals the '
                                        f'union of one record per (donor transcript, POS, REF) and lacks {len(lost)} peptides of '
                                        f'the other records, e.g. {lost[:4]}',
                                        dict(kind='e2e', tool=tool, rows=[row_dict(x) for x in rows]),
                                        (len(rows), len(singles))))
                else:
                    out['viol'].append(e2e_viol('joint-differs-from-union', tool, R, row,
                                                f'lost={lost[:6]} extra={extra[:6]} records={[s[0]["id"] for s in singles]}', rows))
    return out


def e2e_job(job):
    tool, dg, ag, dpos, apos = job
    tot = dict(rows=0, nontrivial=0, records=0, viol=[], runs=0, cases=0, must=0, peptides=0, invocations=0)
    for d0 in dpos:
        for a0 in apos:
            o = eval_e2e(tool, [L.Row(dg, d0, ag, a0)])
            for k in tot:
                if k == 'viol':
                    tot[k] += o[k]
                else:
                    tot[k] += o[k]
    return tot


def block_e2e(run, R, agg):
    pos = {g['gene_id']: e2e_positions(R, g['gene_id'], run.tier) for g in R.genes}
    apos = {g['gene_id']: e2e_positions(R, g['gene_id'], run.tier, 'acceptor') for g in R.genes}
    jobs = []
    subblocks = []
    for pi, (dg, ag) in enumerate(gene_pairs(R)):
        # a sub-block = (tool, ordered gene pair): thorough runs all 36; quick runs one tool per gene pair,
        # VERIF_SEED rotates which one (whole sub-blocks only)
        tools = L.TOOLS if run.tier == 'thorough' else (L.TOOLS[(pi + run.seed) % 3],)
        for tool in tools:
            subblocks.append(f'{tool}:{dg.split(".")[0]}>{ag.split(".")[0]}')
        for i in range(0, len(pos[dg]), 2):
            for tool in tools:         # same worker chunk sees the tools of a cell consecutively
                jobs.append((tool, dg, ag, pos[dg][i:i + 2], apos[ag]))
    res = vlib.pmap(e2e_job, jobs, jobs=run.jobs, chunk=len(tools))
    errs = vlib.harness_errors(res)
    if errs:
        raise RuntimeError(errs[0])
    tot = dict(rows=0, nontrivial=0, records=0, runs=0, cases=0, must=0, peptides=0)
    for r in res:
        for k in tot:
            tot[k] += r[k]
        add_viols(agg, r['viol'])
    run.block('e2e', tot['cases'], tot['nontrivial'], True, sub_blocks=subblocks, gene_pairs=len(gene_pairs(R)),
              donor_positions_per_gene={k.split('.')[0]: len(v) for k, v in pos.items()},
              acceptor_positions_per_gene={k.split('.')[0]: len(v) for k, v in apos.items()}, records=tot['records'],
              callvariant_runs=tot['runs'], must_peptides=tot['must'], output_peptides=tot['peptides'])


def collapse_job(job):
    tool, dg, d0, ag1, a1, ag2, a2 = job
    o = eval_e2e(tool, [L.Row(dg, d0, ag1, a1), L.Row(dg, d0, ag2, a2)])
    return o


def block_collapse(run, R, agg):
    """Two rows, same donor breakpoint, different acceptor genes."""
    jobs = []
    ids = [g['gene_id'] for g in R.genes]
    mid = {}
    for g in R.genes:
        a, b = g['transcripts'][0]['exons'][1]
        e = g['transcripts'][0]['exons']
        mid[g['gene_id']] = [a + 4, (a + b) // 2, e[1][0] if g['strand'] == 1 else e[1][1] - 1]
    for tool in L.TOOLS:
        for dg in ids:
            others = [x for x in ids if x != dg]
            dlist = [mid[dg][1], mid[dg][0]] + ([] if run.tier == 'quick' else
                                                 [R.gene[dg]['transcripts'][0]['exons'][1][1] - 1,
                                                  R.gene[dg]['transcripts'][0]['exons'][1][0]])
            for d0 in dlist:
                for ag1, ag2 in itertools.combinations(others, 2):
                    for k in ((2,) if run.tier == 'quick' else (0, 1, 2)):
                        jobs.append((tool, dg, d0, ag1, mid[ag1][k], ag2, mid[ag2][k]))
    res = vlib.pmap(collapse_job, jobs, jobs=run.jobs, chunk=2)
    errs = vlib.harness_errors(res)
    if errs:
        raise RuntimeError(errs[0])
    tot = dict(rows=0, nontrivial=0, records=0, runs=0, cases=0)
    for r in res:
        for k in tot:
            tot[k] += r[k]
        add_viols(agg, r['viol'])
    run.block('collapse', tot['cases'], tot['nontrivial'], True, records=tot['records'], callvariant_runs=tot['runs'])


# ---- replay ---------------------------------------------------------------------------------------
def replay(path):
    r = json.load(open(path))
    print('replaying', r['key'])
    print('recorded:', r['what'])
    rows = [row_from(d) for d in r['rows']]
    R = W()['R']
    tool = r['tool']
    for row in rows[:5]:
        print('input row  :', L.row_text(R, tool, row, r.get('fc_versioned', False)))
        for pair, e in sorted(L.expected_pairs(R, row).items()):
            print(f'  expected {pair}: donor[{len(e["donor"])}]=..{e["donor"][-20:]} | acceptor[{len(e["acceptor"])}]={e["acceptor"][:20]}..')
    if r['kind'] == 'parse':
        out = eval_batch(tool, rows, r.get('explicit') or None, r.get('fc_versioned', False))
        res = run_parser(tool, rows, r.get('explicit') or None, r.get('fc_versioned', False))
        print('parser ok:', res['ok'], res['exc'], 'tally:', res['tally'])
        for rec in res['records'][:12]:
            print('  emitted:', rec['line'])
    else:
        out = eval_e2e(tool, rows)
        for dct in out.get('detail', []):
            print('  emitted:', dct['record'])
            print('     oracle MUST (junction-spanning):', dct['must'])
            print('     callVariant (this record alone) :', dct['got'])
        if 'joint' in out:
            union = sorted(set().union(*[set(x['got']) for x in out['detail']]))
            print('  union of the one-record runs :', union)
            print('  callVariant on emitted GVF   :', out['joint'])
            print('  lost:', sorted(set(union) - set(out['joint'])), 'extra:', sorted(set(out['joint']) - set(union)))
    print('violations now:', len(out['viol']))
    for key, what, _ in out['viol'][:10]:
        print(' ', key, '\n    ', what)
    return 1 if out['viol'] else 0


def main():
    run = vlib.Run('C15', 'exploration', __doc__)
    if run.args.replay:
        sys.exit(replay(run.args.replay))
    R = L.build_ref()
    L.check_ref(R)
    run.rule = ('rows = every (donor breakpoint, acceptor breakpoint) pair of the per-gene position grid x every '
                'ordered gene pair x tool (x evidence lattice x option values; x unknown-gene / antisense variants), '
                'each batch driven through the real parser command; non-trivial = the row has >= 1 eligible transcript '
                'pair (parser blocks) / the fusion yields >= 1 expected or reported peptide (e2e blocks)')
    run.assume('tool conventions: 1-based coordinates; donor breakpoint = last retained donor base, acceptor breakpoint = '
               'first retained acceptor base (STAR-Fusion / Arriba / FusionCatcher manuals, repository test inputs)')
    run.assume('GVF fusion semantics: POS = 1-based gene coordinate of the first donor base not retained; '
               'ACCEPTER_POSITION = 1-based gene coordinate of the first acceptor base retained; an intronic breakpoint '
               'retains the intronic bases between the breakpoint and the nearest exon on the retained side')
    run.assume('eligible transcript = transcript of the named gene whose span contains the breakpoint base')
    run.assume('e2e runs use --cleavage-exception None, min length 5, min mass 300 (exception handling is C01/C10 matter)')
    run.assume('callVariant is a function of the GVF record lines and the reference: a one-record or joint run is executed once '
               'per distinct record-line tuple per worker and re-used when another tool emits identical lines (the ##parser '
               'header line differs)')
    run.assume('the REF column of a fusion record is not part of the denoted sequence; mismatches are counted in the '
               'evidence (ref_column) and not reported as violations')
    agg = {}
    if run.want('grid'):
        block_grid(run, R, agg)
    if run.want('thresholds'):
        block_thresholds(run, R, agg)
    if run.want('unknown'):
        block_unknown(run, R, agg)
    if run.want('e2e'):
        block_e2e(run, R, agg)
    if run.want('collapse'):
        block_collapse(run, R, agg)
    refstats = {}
    for key in sorted(k for k in agg if isinstance(k, str)):
        n, what, rp = agg[key][:3]
        run.violation(key, f'[{n} case(s) in this run; first:] {what}', rp)
    for k, v in agg.items():
        if isinstance(k, tuple):
            refstats[k[1]] = dict(records=v[0], ref_base_differs_from_gene_sequence_at_POS=v[1])
    run.extra['ref_column'] = refstats
    run.sample(dict(reference={g['gene_id']: dict(strand=g['strand'], transcripts={t['tx_id']: t['exons'] for t in g['transcripts']})
                               for g in R.genes}))
    row = L.Row('ENSG001.3', 116, 'ENSG002.4', 346)
    for tool in L.TOOLS:
        run.sample(dict(tool=tool, row=L.row_text(R, tool, row),
                        expected={f'{a}+{b}': f'..{e["donor"][-10:]}|{e["acceptor"][:10]}..' for (a, b), e in L.expected_pairs(R, row).items()}))
    run.finish()


if __name__ == '__main__':
    main()
