"""C09 — callAltTranslation equals the definitional alt-translation digest.

Bounded exhaustive input enumeration: coding transcripts whose CDS is ATG + X + stop for every
string X of length <= k over {K, R, P, A, W, U (TGA + Selenocysteine feature), M}, plus
cds_start_NF (phase 0/1/2) and mRNA_end_NF variants, multi-exon / minus-strand layouts and three
cleavage settings on the shorter strings; flags in {--selenocysteine-termination,
--w2f-reassignment, both}.  The seven strings sharing a prefix are placed (each as its own gene) in
one reference together with a fixed background transcript, so the canonical pool is shared; the
oracle (lib/c09lib.py) computes it over all proteins of the reference and verdicts are attributed
per transcript through the header.  Oracle: products of the annotated ORF stopped at an annotated
Sec codon and/or with W>F at >= 1 tryptophan, valid, minus canonical; MUST <= output <= MAY where
the statement is silent; every header entry must name events that suffice to give the peptide.
"""
import itertools, json, shutil, sys
from pathlib import Path
import vlib, drive, refgen, oracle as O
import c09lib as L

A = L.ALPHA
FLAG_ORDER = ('sect', 'w2f', 'both')


def members_of(kind, prefix, with_parent=False):
    m = [(kind, prefix + c) for c in A]
    if with_parent and not (kind.startswith('startnf') and not prefix):
        m.append((kind, prefix))
    return m


def case_id(kind, X, layout, cln, flag, extra=''):
    return f'{kind}:{X or "-"}|layout={layout};cl={cln};flags={flag}{extra}'


def plan(run):
    """jobs: (block, sub, kind, prefix, layout, cln, with_parent)."""
    jobs = []

    def add(block, sub, kind, plen, layout='plus1', cln='T0', parent=False):
        for pre in itertools.product(A, repeat=plen):
            jobs.append((block, sub(pre) if callable(sub) else sub, kind, ''.join(pre), layout, cln, parent))
    # ---- base (every tier, every seed) ----
    for plen in range(0, 5):
        add('complete-k<=5', 'base', 'complete', plen)
    for kind in ('startnf0', 'startnf1', 'startnf2', 'endnf'):
        for plen in range(0, 4):
            add('nf-k<=4', 'base', kind, plen)
    for cln in ('TX', 'LC', 'T3'):
        for plen in range(0, 4 if cln != 'T3' else 5):
            add('cleavage-k<=4', 'base', 'complete', plen, cln=cln)
    for layout in ('plus2', 'minus2'):
        for plen in range(0, 3):
            add('layout-k<=3', 'base', 'complete', plen, layout=layout)
    for kind in ('complete', 'endnf', 'startnf0'):
        for plen in range(0, 3):
            add('with-parent-k<=3', 'base', kind, plen, parent=True)
    # ---- thorough space beyond base, in complete sub-blocks ----
    subs6 = [a + b for a in A for b in A]
    if run.tier == 'thorough':
        chosen = list(range(len(subs6)))
    else:
        chosen = vlib.seeded_windows(run.seed, len(subs6), 3, always=())
    for i in chosen:
        ab = subs6[i]
        for rest in itertools.product(A, repeat=3):
            jobs.append(('complete-k=6', f'k6/{ab}', 'complete', ab + ''.join(rest), 'plus1', 'T0', False))
    if run.tier == 'thorough':
        for kind in ('startnf0', 'startnf1', 'startnf2', 'endnf'):
            add('nf-k=5', lambda pre: f'nf5/{pre[0]}', kind, 4)
        for cln in ('TX', 'LC'):
            add('cleavage-k=5', lambda pre: f'cl5/{pre[0]}', 'complete', 4, cln=cln)
        for layout in ('plus2', 'minus2'):
            add('layout-k=4', lambda pre: f'lay4/{pre[0]}', 'complete', 3, layout=layout)
    return jobs, len(chosen), len(subs6)


def work(job):
    block, sub, kind, prefix, layout, cln, parent = job
    members = members_of(kind, prefix, parent)
    d = vlib.worker_dir() / 'c'
    shutil.rmtree(d, ignore_errors=True)
    B = L.Batch(members, layout)
    B.write(d)
    out = []
    for flag in FLAG_ORDER:
        res = L.run_tool(d, cln, flag, d / 'o.fasta')
        ev = L.evaluate(B, cln, flag, res)
        for tx, inf in B.info.items():
            F, nt = ev[tx]
            if tx == L.BG_TX:
                if F:
                    out.append((('background', inf['X']), flag, F, False))
                continue
            out.append(((inf['kind'], inf['X']), flag, F, nt))
    return block, sub, layout, cln, parent, out


def replay(path):
    r = json.load(open(path))
    print('replaying', r['key'])
    members = [tuple(m) for m in r['members']]
    d = vlib.worker_dir() / 'replay'
    B = L.Batch(members, r['layout'])
    B.write(d)
    cln, flag = r['cl'], r['flag']
    cl = O.Cleavage(*L.CLEAVAGE[cln])
    print('reference proteins:', {t: (i['kind'], i['prot']) for t, i in B.info.items()})
    print('settings:', L.CLEAVAGE[cln], 'flags:', flag, 'layout:', r['layout'])
    res = L.run_tool(d, cln, flag, d / 'o.fasta')
    canon = O.canonical_pool(B.proteins(), cl, B.start_nf())
    ev = L.evaluate(B, cln, flag, res)
    bad = 0
    for tx, inf in B.info.items():
        must, may = L.alt_expected(inf['prot'], inf['kind'], *L.FLAGS[flag], cl, canon)
        got = sorted((s, [e for e in h.split(' ') if e.startswith(tx + '|')]) for h, s in (res['peptides'] or [])
                     if any(e.startswith(tx + '|') for e in h.split(' ')))
        focus = (inf['kind'], inf['X']) == tuple(r['case'])
        if focus or ev[tx][0]:
            print(f'{tx} {inf["kind"]} {inf["prot"]} sec ids {inf["sect_id"]}')
            print('   expected MUST    :', sorted(must.items()))
            print('   expected MAY-only:', sorted(may - set(must)))
            print('   got              :', got if res['ok'] else res['exc'])
            for f in ev[tx][0]:
                print('   FINDING', f)
                bad += 1
    return 1 if bad else 0


def main():
    run = vlib.Run('C09', 'exploration', __doc__)
    if run.args.replay:
        sys.exit(replay(run.args.replay))
    run.rule = ('every CDS string X of length <= k over KRPAWUM (U = annotated Sec codon) as a coding transcript '
                '(complete / cds_start_NF phase 0-2 / mRNA_end_NF; 1-exon, 2-exon, minus strand) x 3 flag sets '
                'x cleavage settings; seven sibling strings + a background transcript per reference; non-trivial '
                '= the MUST set of the transcript is non-empty')
    run.assume('N-terminal M removal and the trailing product of an mRNA_end_NF ORF are allowed but not required')
    run.assume('W>F forms are required only when substituting in the peptide and substituting before digestion '
               'agree; allowed when either gives the peptide')
    run.assume('W2F-<pos> is the 1-based position in the peptide (docs: peptide coordinate); SECT-<pos> is the '
               '1-based gene coordinate of the first base of the Sec codon')
    jobs, nsub, Nsub = plan(run)
    if run.only:
        jobs = [j for j in jobs if j[0] in run.only]
    res = vlib.pmap(work, jobs, jobs=run.jobs)
    errs = vlib.harness_errors(res)
    if errs:
        raise RuntimeError(errs[0])
    blocks = {}
    mech = {}
    for (block, sub, layout, cln, parent, out), job in zip(res, jobs):
        b = blocks.setdefault(block, [0, 0, 0])
        b[2] += 1
        members = members_of(job[2], job[3], parent)
        for (kind, X), flag, F, nt in out:
            b[0] += 1
            b[1] += 1 if nt else 0
            for m, det in F:
                sk = (len(X), kind != 'complete', kind, tuple(A.index(c) if c in A else 99 for c in X), layout, cln,
                      parent, FLAG_ORDER.index(flag))
                cur = mech.get((m, sub))
                if cur is None or sk < cur[0]:
                    mech[(m, sub)] = (sk, case_id(kind, X, layout, cln, flag, ';with-parent' if parent else ''),
                                      dict(members=members, layout=layout, cl=cln, flag=flag, case=[kind, X],
                                           detail=det, mechanism=m))
    base_mechs = {m for (m, sub) in mech if sub == 'base'}
    for (m, sub), (sk, cid, rp) in sorted(mech.items(), key=lambda kv: (kv[0][1] != 'base', kv[0])):
        if sub != 'base' and m in base_mechs:
            continue
        key = f'{m}@{cid}' if sub == 'base' else f'{m}@{sub}@{cid}'
        run.violation(key, f'{m}: case={cid} detail={rp["detail"]}', rp)
    for name in ('complete-k<=5', 'nf-k<=4', 'cleavage-k<=4', 'layout-k<=3', 'with-parent-k<=3', 'complete-k=6',
                 'nf-k=5', 'cleavage-k=5', 'layout-k=4'):
        if name in blocks:
            ev, nt, nb = blocks[name]
            extra = dict(sub_blocks_run=nsub, sub_blocks_total=Nsub) if name == 'complete-k=6' else {}
            run.block(name, ev, nt, exhaustive=True, references=nb, **extra)
    cl = O.Cleavage(*L.CLEAVAGE['T0'])
    B = L.Batch([('complete', 'AKAWUAWK')])
    must, may = L.alt_expected('MAKAWUAWK', 'complete', True, True, cl, O.canonical_pool(B.proteins(), cl))
    run.sample(dict(protein='MAKAWUAWK', flags='both', settings=L.CLEAVAGE['T0'], must=sorted(must.items()),
                    may_only=sorted(may - set(must))))
    run.extra['design'] = dict(alphabet=A, utr5=L.UTR5, utr3=L.UTR3, background_protein=L.BG_PROT, intron=L.INTRON,
                               cleavage=L.CLEAVAGE)
    run.finish()


if __name__ == '__main__':
    main()
