"""C16 — parseRMATS records reproduce the alternative isoform.

Bounded exhaustive input enumeration driving the real `parseRMATS` command:
  gene structures : every set of 1..3 isoforms drawn from 13 exon chains over a five-slot exon skeleton
                    (slot 2 with two 3' ends, slot 4 with two 5' starts, two intron-retaining exons,
                    truncated isoforms), on both strands, on a designed non-repetitive genome;
  events          : every SE / A5SS / A3SS / MXE / RI row constructible from the skeleton's exon instances
                    that lies inside the gene (68 per strand);
  read support    : the full 3x3 lattice {t-1,t,t+1}^2 of (IJC, SJC) around each (min_ijc, min_sjc).
One GTF + genome per annotation, one set of five rMATS files per (annotation, thresholds, counts);
all rows of an annotation go through one CLI invocation and every emitted record is attributed to
its row through the coordinates in its id (fallback: one invocation per row).  A second block puts
every row alone in its file (parseRMATS merges identical records of different rows).

Oracle (sequence level, lib/c16lib.py): a transcript that contains one form of the event *exactly*
(consecutive exons equal to the event's exons) has an expected alternative isoform = its chain with
the other form substituted.  Each record emitted for that transcript and event, applied to the
transcript by the documented GVF semantics, must give exactly that isoform's sequence; no record
may be emitted when the other form's support is below its threshold or when some annotated isoform
already has the other form at all of its junctions; nothing at all may be emitted when both counts
are below threshold or both forms are annotated.  Transcripts matching an event only partially are
not judged (their records are counted).
"""
import itertools, json, shutil
from pathlib import Path
import vlib, drive, refgen, c16lib as L

GENE_ID = 'ENSG16'
THRESHOLDS = {'quick': [(1, 1), (2, 3), (3, 2)], 'thorough': [(1, 1), (2, 3), (3, 2)]}
OTHER = {'inc': 'skp', 'skp': 'inc'}


def lattice(th):
    mi, ms = th
    return [(i, s) for i in (mi - 1, mi, mi + 1) for s in (ms - 1, ms, ms + 1)]


def tx_id(k):
    return f'ENST16{k:02d}'


def build_ref(genome, strand, isoforms):
    return refgen.Ref(genome, [dict(gene_id=GENE_ID, strand=strand, biotype='lncRNA', transcripts=[
        dict(tx_id=tx_id(k), exons=list(ex), cds=None) for k, ex in enumerate(isoforms)])])


# ---- running the tool -------------------------------------------------------------------------
def run_tool(d: Path, strand, events, idxs, th, cnt, tag='b'):
    """Run parseRMATS on the rows with indices `idxs`.  -> (ok, exc, records)"""
    out = d / f'{tag}.gvf'
    argv = ['parseRMATS', '-o', out, '--source', 'AlternativeSplicing',
            '--annotation-gtf', d / 'ref' / 'annotation.gtf', '--genome-fasta', d / 'ref' / 'genome.fasta',
            '--quiet']
    if th != (1, 1):       # (1,1) is the CLI default: exercised through the defaults
        argv += ['--min-ijc', th[0], '--min-sjc', th[1]]
    if out.exists():
        out.unlink()
    for t in L.ETYPES:
        rows = [L.rmats_row(i, events[i], GENE_ID, strand, cnt[0], cnt[1]) for i in idxs if events[i]['type'] == t]
        if not rows:
            continue
        p = d / f'{tag}_{t}.MATS.JC.txt'
        L.write_rmats(p, t, rows)
        argv += [L.CLI_FLAG[t], p]
    r = drive.run(argv)
    recs = L.read_gvf(out) if (r['ok'] and out.exists()) else []
    return r['ok'], r['exc'], recs


# ---- the oracle's view of one annotation ---------------------------------------------------------
class Case:
    def __init__(self, genome, strand, isoforms):
        self.genome, self.strand, self.isoforms = genome, strand, [list(map(tuple, t)) for t in isoforms]
        self.st = '+' if strand == 1 else '-'
        self.gene = L.Gene(genome, strand, self.isoforms)
        self.events = [e for e in L.all_events(strand) if self.gene.contains(e)]
        self.sigs = {i: L.event_signature(self.gene, e) for i, e in enumerate(self.events)}
        self.tpos = [self.gene.positions(t) for t in self.isoforms]
        self.tseq = [self.gene.seq_of(p) for p in self.tpos]
        # premise[i][k] = dict(f=form of T_k, o=other form, exp=expected sequence, pos=its provenance,
        #                      geom=where the form sits in T_k, alt=exon chain) or None
        self.premise = []
        self.partial = []
        for e in self.events:
            row, part = [], 0
            for t in self.isoforms:
                m = L.match(t, e)
                if m is None:
                    row.append(None)
                    part += 1 if L.touches(t, e) else 0
                    continue
                f, alt, i = m
                n = len(L.forms(e)[f])
                lo, hi = i == 0, i + n == len(t)
                if strand == -1:
                    lo, hi = hi, lo
                geom = 'whole' if lo and hi else ('head' if lo else ('tail' if hi else 'mid'))
                # where the exon the event alters sits in T (5'->3'): SE/MXE alter an exon between two others
                if e['type'] in ('SE', 'MXE'):
                    where = 'internal'
                else:
                    if e['type'] == 'RI':
                        a_lo, a_hi = lo, hi
                    else:
                        j = i + (0 if L.forms(e)[f][0] in (e['L'], e['S']) else 1)
                        a_lo, a_hi = j == 0, j == len(t) - 1
                        if strand == -1:
                            a_lo, a_hi = a_hi, a_lo
                    where = 'only' if a_lo and a_hi else ('first' if a_lo else ('last' if a_hi else 'internal'))
                pos = self.gene.positions(alt)
                row.append(dict(f=f, o=OTHER[f], exp=self.gene.seq_of(pos), pos=pos, geom=geom, alt=alt, where=where))
            self.premise.append(row)
            self.partial.append(part)
        self.annot = [{f: L.form_annotated(self.gene, e, f) for f in ('inc', 'skp')} for e in self.events]
        self.novel = [{f: L.unannotated_junctions(self.gene, e, f) for f in ('inc', 'skp')} for e in self.events]

    def judge_event(self, i, recs, th, cnt):
        """recs: records attributed to row i.  -> (findings, judged, unjudged, nontrivial, ambiguous)"""
        e = self.events[i]
        sup = {'inc': cnt[0] >= th[0], 'skp': cnt[1] >= th[1]}
        by_tx = {}
        for r in recs:
            by_tx.setdefault(r['info'].get('TRANSCRIPT_ID'), []).append(r)
        out = []
        judged = unjudged = ambiguous = 0
        nontrivial = False

        def finding(kind, k, rec, detail, cls):
            out.append(dict(kind=kind, key=f'{kind}/{e["type"]}{self.st}/{cls}', event=i, tx=k,
                            record=rec['line'] if rec else None, detail=detail))
        if recs and not sup['inc'] and not sup['skp']:
            finding('below-threshold', None, recs[0], f'{len(recs)} record(s) although IJC={cnt[0]}<{th[0]} and '
                    f'SJC={cnt[1]}<{th[1]}', 'both-forms-unsupported')
        if recs and self.annot[i]['inc'] and self.annot[i]['skp']:
            finding('annotated-form', None, recs[0], f'{len(recs)} record(s) although both forms of the event are '
                    'annotated isoforms of the gene', 'both-forms-annotated')
        for k in range(len(self.isoforms)):
            rk = by_tx.pop(tx_id(k), [])
            pm = self.premise[i][k]
            if pm is None:
                unjudged += len(rk)
                continue
            f, o, exp, alt = pm['f'], pm['o'], pm['exp'], pm['alt']
            cls0 = f'{f}->{o}/{pm["geom"]}'
            expect_record = sup[o] and bool(self.novel[i][o])
            if expect_record or rk:
                nontrivial = True
            if expect_record and not rk:
                finding('missing', k, None, f'transcript {tx_id(k)} has the {f} form exactly, the {o} form has '
                        f'unannotated junction(s) {self.novel[i][o]} and support (IJC,SJC)={cnt} >= {th}, but no '
                        f'record was emitted (expected isoform {alt})',
                        f'{f}->{o}/altered-exon-{pm["where"]}/novel=' + '+'.join(self.novel[i][o]))
            for r in rk:
                judged += 1
                cls = f'{cls0}/{r["alt"].strip("<>")}'
                if not sup[o]:
                    finding('below-threshold', k, r, f'record creates the {o} form whose support '
                            f'(IJC,SJC)={cnt} is below (min_ijc,min_sjc)={th}', cls)
                    continue
                if self.annot[i][o]:
                    finding('annotated-form', k, r, f'record creates the {o} form although an annotated isoform '
                            'already has it at all its junctions', cls)
                    continue
                try:
                    got, prov = L.apply_record(self.gene, self.tpos[k], r)
                except L.Inapplicable as x:
                    finding('inapplicable', k, r, f'{x}; expected isoform {alt}', cls)
                    continue
                if got != exp:
                    finding('wrong-sequence', k, r, f'expected {exp} (exons {alt}) got {got}', cls)
                    continue
                if prov != pm['pos']:
                    ambiguous += 1
                if r['ref'] != self.gene.gene_seq[r['pos0']]:
                    finding('ref-base', k, r, f'REF={r["ref"]} but gene base at POS is '
                            f'{self.gene.gene_seq[r["pos0"]]}', cls)
        for t, rk in by_tx.items():
            finding('unknown-transcript', None, rk[0], f'record for transcript {t} which is not in the annotation',
                    'tx')
        return out, judged, unjudged, nontrivial, ambiguous


def summarise_missing(case, th, miss):
    """miss: findings of kind 'missing' of one threshold pair.  One finding per (row, transcript) whose key
    says at which lattice points the record is absent."""
    groups = {}
    for f in miss:
        groups.setdefault((f['event'], f['tx']), []).append(f)
    out = []
    for (i, k), fs in sorted(groups.items()):
        o = case.premise[i][k]['o']
        ax = 0 if o == 'inc' else 1
        S = {c for c in lattice(th) if c[ax] >= th[ax]}
        M = {tuple(f['cnt']) for f in fs}
        first = min(fs, key=lambda f: f['cnt'])
        e = case.events[i]
        if M == S:
            key = first['key'] + '/whenever-supported'
        elif M == {c for c in S if c[ax] == th[ax]}:
            key = f'missing/{e["type"]}{case.st}/{case.premise[i][k]["f"]}->{o}/only-at-threshold'
        else:
            key = first['key'] + '/at-some-counts'
        g = dict(first)
        g.update(key=key, detail=first['detail'] + f' [absent at (IJC,SJC) in {sorted(M)} of supported {sorted(S)}]',
                 n=len(fs))
        out.append(g)
    return out


def explore_annotation(job):
    """job = (mode, strand, chain indices, thresholds list, genome variant) -> stats + findings.
    mode 'file': all rows of the annotation in one invocation; 'alone': one invocation per row."""
    mode, strand, combo, ths, gv = job
    genome = L.make_genome(variant=gv)
    isoforms = [L.chain_exons(L.CHAINS[c]) for c in combo]
    case = Case(genome, strand, isoforms)
    d = vlib.worker_dir()
    shutil.rmtree(d / 'ref', ignore_errors=True)
    build_ref(genome, strand, isoforms).write(d / 'ref')
    n_ev = len(case.events)
    stats = dict(pairs=n_ev, pairs_premise=sum(1 for row in case.premise if any(row)), cases=0, nontrivial=0,
                 judged=0, unjudged=0, records=0, invocations=0, files_split_after_crash=0, rows_rerun_alone=0,
                 crashes_outside=0, ambiguous=0, partial_tx=sum(case.partial),
                 premise_tx=sum(1 for row in case.premise for x in row if x), by_type={})
    findings = []
    all_idx = list(range(n_ev))
    prone = set()
    for th in ths:
        miss = []
        for cnt in lattice(th):
            per = {i: [] for i in all_idx}
            crashed = {}
            split = []
            alone = mode == 'alone'

            def run_rows(idxs):
                """all rows `idxs` in one file; on a crash or an unattributable id split the file in two"""
                ok, exc, recs = run_tool(d, strand, case.events, idxs, th, cnt, tag='b' if len(idxs) > 1 else 's')
                stats['invocations'] += 1
                got = {i: [] for i in idxs}
                if ok:
                    sub = {i: case.sigs[i] for i in idxs}
                    for r in recs:
                        # rows that differ only in a coordinate the id does not carry (RI rows with the same
                        # intron) yield one identical record: it stands for each of them
                        hits = [idxs[0]] if len(idxs) == 1 else L.attribute(L.id_numbers(r['id']), sub)
                        if not hits:
                            ok = False
                            break
                        for h in hits:
                            got[h].append(r)
                if ok:
                    per.update(got)
                elif len(idxs) == 1:
                    crashed[idxs[0]] = exc or 'unattributable record id'
                else:
                    if not split:
                        split.append(1)
                        stats['files_split_after_crash'] += 1
                    h = len(idxs) // 2
                    run_rows(idxs[:h])
                    run_rows(idxs[h:])
            if alone:
                for i in all_idx:
                    run_rows([i])
            else:
                # rows that made the tool raise at an earlier lattice point go alone straight away
                rest = [i for i in all_idx if i not in prone]
                if rest:
                    run_rows(rest)
                for i in all_idx:
                    if i in prone:
                        run_rows([i])
                prone.update(crashed)
            for i in all_idx:
                e = case.events[i]
                stats['cases'] += 1
                stats['records'] += len(per[i])
                if i in crashed:
                    fs, j, u, nt, amb = [], 0, 0, False, 0
                    ks = [k for k, x in enumerate(case.premise[i]) if x]
                    if ks:
                        # nothing is emitted, so the letter of the property holds; but the whole conversion of a
                        # file aborts on a row that matches an annotated transcript exactly
                        k = ks[0]
                        fs = [dict(kind='crash', key=f'crash/{e["type"]}{case.st}/{crashed[i].split(":")[0]}',
                                   event=i, tx=k, record=None,
                                   detail=f'parseRMATS raised {crashed[i]} on a row whose '
                                   f'{case.premise[i][k]["f"]} form is exactly in {tx_id(k)}')]
                        nt = True
                    else:
                        stats['crashes_outside'] += 1
                else:
                    fs, j, u, nt, amb = case.judge_event(i, per[i], th, cnt)
                    if not alone and any(f['kind'] == 'missing' for f in fs):  # (also after a split: harmless)
                        # parseRMATS keeps one record per distinct (location, type, range, donor) and transcript,
                        # so an identical record of another row may have absorbed this one: decide with the
                        # row alone in the file
                        stats['rows_rerun_alone'] += 1
                        stats['invocations'] += 1
                        ok1, exc1, recs1 = run_tool(d, strand, case.events, [i], th, cnt, tag='s')
                        if ok1:
                            fs, j, u, nt, amb = case.judge_event(i, recs1, th, cnt)
                stats['judged'] += j
                stats['unjudged'] += u
                stats['ambiguous'] += amb
                stats['nontrivial'] += 1 if nt else 0
                bt = stats['by_type'].setdefault(e['type'], [0, 0])
                bt[0] += 1
                bt[1] += 1 if nt else 0
                for f in fs:
                    f.update(cnt=list(cnt), th=list(th), n=1)
                    (miss if f['kind'] == 'missing' else findings).append(f)
        findings.extend(summarise_missing(case, th, miss))
    for f in findings:
        f.update(strand=strand, chains=list(combo), gv=gv, event_name=case.events[f['event']]['name'])
    return stats, findings


# ---- replay --------------------------------------------------------------------------------------
def run_single(strand, combo, gv, event_name, th, cnt, verbose=True):
    genome = L.make_genome(variant=gv)
    isoforms = [L.chain_exons(L.CHAINS[c]) for c in combo]
    case = Case(genome, strand, isoforms)
    d = vlib.worker_dir('replay')
    shutil.rmtree(d / 'ref', ignore_errors=True)
    build_ref(genome, strand, isoforms).write(d / 'ref')
    i = next(i for i, e in enumerate(case.events) if e['name'] == event_name)
    ok, exc, recs = run_tool(d, strand, case.events, [i], tuple(th), tuple(cnt), tag='r')
    if verbose:
        e = case.events[i]
        print(f'genome  : {genome}')
        print(f'strand  : {case.st}   gene span [{case.gene.gs},{case.gene.ge})   gene sequence {case.gene.gene_seq}')
        for k, c in enumerate(combo):
            print(f'  {tx_id(k)}: {" ".join(L.CHAINS[c])}  exons {isoforms[k]}')
        print(f'event   : {e["name"]}  ' + ' '.join(f'{k}={v}' for k, v in e.items() if k not in ('type', 'name')))
        print('rMATS   : ' + '\t'.join(L.HEADERS[e['type']] + L.HEAD_TAIL[:3]))
        print('          ' + '\t'.join(L.rmats_row(0, e, GENE_ID, strand, cnt[0], cnt[1]).split('\t')[:len(L.HEADERS[e['type']]) + 3]))
        print(f'thresholds (min_ijc,min_sjc)={tuple(th)} counts (IJC,SJC)={tuple(cnt)}')
        print(f'tool    : ok={ok} exc={exc}')
        for r in recs:
            print('  emitted: ' + r['line'])
        for k in range(len(isoforms)):
            pm = case.premise[i][k]
            if pm is None:
                print(f'  {tx_id(k)}: no exact match (not judged)')
                continue
            o = pm['o']
            print(f'  {tx_id(k)}: has the {pm["f"]} form exactly ({pm["geom"]}); {o} form: annotated={case.annot[i][o]} '
                  f'unannotated junctions={case.novel[i][o]} supported={L.supported(o, cnt[0], cnt[1], th[0], th[1])}')
            print(f'     transcript sequence : {case.tseq[k]}')
            print(f'     expected alternative: {pm["exp"]}   exons {pm["alt"]}')
            for r in recs:
                if r['info'].get('TRANSCRIPT_ID') != tx_id(k):
                    continue
                try:
                    got = L.apply_record(case.gene, case.tpos[k], r)[0]
                except L.Inapplicable as x:
                    got = f'<inapplicable: {x}>'
                print(f'     record applied      : {got}   {"==" if got == pm["exp"] else "!="} expected')
    if not ok:
        return [dict(kind='crash', key='crash', detail=exc, event=i, tx=None, record=None)]
    return case.judge_event(i, recs, tuple(th), tuple(cnt))[0]


def replay(path):
    r = json.load(open(path))
    print('replaying', r['key'])
    fs = run_single(r['strand'], r['chains'], r['gv'], r['event_name'], r['th'], r['cnt'])
    print('verdict :', [(f['key'], f['detail']) for f in fs] or 'no finding')
    if r['key'].startswith('missing/'):
        print('records emitted for the row at each (IJC,SJC) of the lattice (row alone in its file):')
        for cnt in lattice(tuple(r['th'])):
            fs = run_single(r['strand'], r['chains'], r['gv'], r['event_name'], r['th'], cnt, verbose=False)
            print(f'   (IJC,SJC)={cnt}: ' + ('record missing' if any(f['kind'] == 'missing' for f in fs) else
                                          ('other finding: ' + fs[0]['key'] if fs else 'as expected')))


# ---- main ---------------------------------------------------------------------------------------
def main():
    run = vlib.Run('C16', 'exploration', __doc__)
    if run.args.replay:
        return replay(run.args.replay)
    tier = run.tier
    n = len(L.CHAINS)
    run.rule = ('annotations = all sets of 1..3 of the 13 exon chains x both strands; rows = every '
                'SE/A5SS/A3SS/MXE/RI row over the skeleton exon instances inside the gene; support = full 3x3 '
                'lattice around each threshold pair.  quick: all 1- and 2-isoform annotations plus two complete '
                'slices of the 3-isoform annotations (slice = all triples with a given smallest chain; slice 0 '
                'always, one more chosen by VERIF_SEED); '
                'thorough: everything, on two designed genomes.  Non-trivial: some transcript contains one form of '
                'the event exactly and a record is expected or was emitted for it.')
    run.assume('GVF semantics as documented in docs/file-format.md 1.4 and implemented by the GVF reader: POS/START/'
               'DONOR_START are 1-based, END/DONOR_END exclusive; Insertion puts gene[DONOR_START,DONOR_END) after '
               'POS; Deletion removes [POS,END); Substitution replaces [POS,END) by the donor segment; anchors must '
               'be bases of the transcript')
    run.assume('IJC supports the inclusion form (exon included / long exon / 1st exon of MXE / intron retained), SJC '
               'the other form, on both strands (the convention of the CLI help and the code comments); rMATS itself '
               'swaps the MXE roles on the minus strand - not judged here')
    run.assume('completeness side (keys missing/...: a record is expected when the transcript has one form exactly, '
               'the other form has a junction annotated nowhere in the gene and its support is >= the threshold) '
               'follows the CLI help ("minimal junction read count ... to be analyzed") and docs/file-format.md 1.4, '
               'not the literal property text, which only constrains emitted records')
    run.assume('a parseRMATS crash on a row that no transcript matches exactly is counted, not judged')
    ths = THRESHOLDS[tier]
    gvs = [0] if tier == 'quick' else [0, 1]
    singles = [(c,) for c in range(n)]
    pairs = list(itertools.combinations(range(n), 2))
    triples = list(itertools.combinations(range(n), 3))
    blocks = [('one-isoform', 'file', singles, ths, gvs), ('two-isoforms', 'file', pairs, ths, gvs)]
    if tier == 'quick':
        chosen = vlib.seeded_windows(run.seed, n - 2, 2, always=(0,))
        blocks.append(('three-isoforms-slices-' + ','.join(map(str, chosen)), 'file',
                       [t for t in triples if t[0] in chosen], ths[:2], gvs))
        blocks.append(('one-isoform-rows-alone', 'alone', singles, [(1, 1)], [0]))
    else:
        blocks.append(('three-isoforms', 'file', triples, ths, gvs))
        blocks.append(('one-isoform-rows-alone', 'alone', singles, ths, [0]))
        blocks.append(('two-isoforms-rows-alone', 'alone', pairs, [(1, 1)], [0]))
    vlib.scratch_root()       # created in the parent so that the forked workers share it and it is removed at exit
    keyed, kcount = {}, {}
    agg_by_type = {}
    extra = dict(invocations=0, files_split_after_crash=0, rows_rerun_alone=0, crashes_outside=0, ambiguous=0)
    for name, mode, combos, bths, bgvs in blocks:
        if not run.want(name.split('-slices')[0]):
            continue
        jobs = [(mode, s, c, bths, gv) for gv in bgvs for s in (1, -1) for c in combos]
        res = vlib.pmap(explore_annotation, jobs, jobs=run.jobs, chunk=1 if mode == 'alone' else 2)
        errs = vlib.harness_errors(res)
        if errs:
            raise RuntimeError(errs[0])
        agg = dict(pairs=0, pairs_premise=0, cases=0, nontrivial=0, judged=0, unjudged=0, records=0,
                   partial_tx=0, premise_tx=0)
        for stats, findings in res:
            for k in agg:
                agg[k] += stats[k]
            for k in extra:
                extra[k] += stats[k]
            for t, (a, b) in stats['by_type'].items():
                x = agg_by_type.setdefault(t, [0, 0])
                x[0] += a
                x[1] += b
            for f in findings:
                # minimal representative per key: fewest isoforms, first genome, default thresholds, then lexicographic
                rank = (len(f['chains']), f['gv'], tuple(f['th']) != (1, 1), f['chains'], -f['strand'], f['event_name'],
                        f['th'], f['cnt'])
                kcount[f['key']] = kcount.get(f['key'], 0) + f.get('n', 1)
                if f['key'] not in keyed or rank < keyed[f['key']][0]:
                    keyed[f['key']] = (rank, f)
        run.block(name, agg['cases'], agg['nontrivial'], True, annotations=len(jobs),
                  annotation_row_pairs=agg['pairs'], pairs_with_exact_match=agg['pairs_premise'],
                  records_emitted=agg['records'], records_judged=agg['judged'],
                  records_for_partial_matches_not_judged=agg['unjudged'],
                  exact_tx_row_matches=agg['premise_tx'], partial_tx_row_matches=agg['partial_tx'],
                  thresholds=bths, genomes=len(bgvs), rows_per_invocation='all' if mode == 'file' else 1)
    # Completeness observations (keys missing/...): C16 constrains the records that ARE emitted and states
    # when none may be emitted; it has no clause requiring a record.  Absent records are therefore recorded
    # in the evidence, not reported as violations (see DESIGN.md, C16).
    run.extra['completeness_observations'] = {k: kcount[k] for k in sorted(keyed) if k.startswith('missing/')}
    for key in sorted(keyed):
        if key.startswith('missing/'):
            continue
        f = keyed[key][1]
        what = (f'{kcount[key]} case(s); minimal: strand={"+" if f["strand"] == 1 else "-"} isoforms='
                f'{[" ".join(L.CHAINS[c]) for c in f["chains"]]} row={f["event_name"]} (min_ijc,min_sjc)={tuple(f["th"])} '
                f'(IJC,SJC)={tuple(f["cnt"])} tx={tx_id(f["tx"]) if f["tx"] is not None else "-"}: {f["detail"]}'
                + (f' | record: {f["record"]}' if f['record'] else ''))
        run.violation(key, what, dict(strand=f['strand'], chains=f['chains'], gv=f['gv'], event_name=f['event_name'],
                                      th=f['th'], cnt=f['cnt'], tx=f['tx'], record=f['record'], detail=f['detail'],
                                      cases=kcount[key], isoforms=[L.chain_exons(L.CHAINS[c]) for c in f['chains']],
                                      genome=L.make_genome(variant=f['gv'])))
    run.extra['cases_by_event_type'] = {t: dict(cases=a, nontrivial=b) for t, (a, b) in sorted(agg_by_type.items())}
    run.extra['parseRMATS_invocations'] = extra['invocations']
    run.extra['files_split_after_crash'] = extra['files_split_after_crash']
    run.extra['rows_rerun_alone_to_confirm_absence'] = extra['rows_rerun_alone']
    run.extra['crashes_on_rows_without_exact_match_not_judged'] = extra['crashes_outside']
    run.extra['correct_sequence_from_other_coordinates'] = extra['ambiguous']
    run.extra['skeleton'] = dict(exons=L.EXONS, chains=[' '.join(c) for c in L.CHAINS], genomes=[L.make_genome(variant=g) for g in gvs])
    run.sample(dict(strand='+', isoforms=['E1 E2L E3 E4L E5'], row='SE(E1,E2L,E3)', counts=[1, 1],
                    expected='one Deletion removing E2L from the transcript'))
    run.sample(dict(strand='-', isoforms=['E1 E3 E5', 'E1 E2S E3 E5'], row='SE(E1,E2S,E3)', counts=[1, 1],
                    expected='nothing: both forms are annotated'))
    run.finish()


if __name__ == '__main__':
    main()
