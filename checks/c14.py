"""C14 — parseVEP / parseREDItools preserve the genomic event.

Bounded exhaustive input enumeration (E-INPUT) driving the real `parseVEP` / `parseREDItools`
commands in-process on a designed reference panel (lib/c14lib.py: two genes on opposite strands,
3 exons, 2 isoforms + 2 cds_start_NF transcripts each; the panel holds the same structure on
4 rotations of a de Bruijn sequence x both strand assignments).

vep   : EVERY genomic position of every gene (+3 nt flanks) x EVERY event of the alphabet
        {3 SNVs; insertion of all strings of 1-2 (thorough 1-3) nt in the three VEP spellings;
        deletion of 1-3 (1-4) nt in two spellings; substitution of 3-4 (3-5) nt}
        x EVERY transcript of the gene.  Oracle is sequence level: the event is applied to the
        chromosome string and the gene re-extracted; the emitted record applied to the gene
        sequence must give exactly that string and REF must equal the gene at POS.  Events not
        contained in the named transcript must be rejected; interior events must be emitted.
redi  : a row at EVERY genomic position x every non-empty subset of the spanning transcripts x
        3 spellings of the annotation column x the threshold lattice.
"""
import itertools, json, os, re, sys
from fractions import Fraction
from pathlib import Path
import vlib, drive, refgen, oracle as O
import c14lib as L

WINDOW = 8          # genomic positions per VEP job


# =============================================================================================
# parseVEP
# =============================================================================================
def vep_rows(R, gene, positions, tier):
    """All rows (one per event x transcript x spelling) for the events anchored at `positions`."""
    gid = gene['gene_id']
    strand = gene['strand']
    glen = len(R.gene_seq(gid))
    rows = []
    for g in positions:
        for ev in L.events_at(R.genome, g, tier):
            kind, s, e, alt = ev
            a, b = L.gene_interval(R, gid, s, e)
            for t in gene['transcripts']:
                tx = t['tx_id']
                t0, t1 = L.tx_span_gene(R, tx)
                nf = 'cds_start_NF' in t.get('tags', [])
                cls, zone = L.classify(kind, a, b, t0, t1, nf, glen)
                if kind == 'sub' and e - s == 2:
                    cls = 'INFO'     # a 2-nt substitution is outside the property ("three or more")
                for sp, loc, allele in L.vep_spellings(R.genome, ev):
                    c2, z2 = cls, zone
                    if sp == 'del/U' and cls == 'MUST':
                        # the Location of this spelling includes the anchor base; when that base is the
                        # first base of the transcript or lies outside it, rejection is allowed
                        ca, _ = L.classify('del', *L.gene_interval(R, gid, s - 1, e), t0, t1, nf, glen)
                        if ca != 'MUST':
                            c2, z2 = 'MAY', 'anchor-at-tx-edge'
                    rows.append(dict(gene=gid, tx=tx, strand=strand, nf=nf, kind=kind, s=s, e=e, alt=alt, a=a, b=b,
                                     sp=sp, loc=loc, allele=allele, cls=c2, zone=z2))
    return rows


def loc_in_gene(R, row):
    gs, ge = R.gene_span(row['gene'])
    p = [int(x) for x in row['loc'].split('-')]
    return gs + 1 <= p[0] and p[-1] <= ge


def run_parse_vep(R, refdir, rows, d: Path, skip_failed=True, tag='b'):
    tsv = d / f'{tag}.tsv'
    out = d / f'{tag}.gvf'
    if out.exists():
        out.unlink()
    with open(tsv, 'w') as f:
        f.write(L.VEP_HEADER + '\n')
        for i, r in enumerate(rows):
            f.write(L.vep_line(R.chrom, f'v{i}', r['loc'], r['allele'], r['gene'], r['tx'], r['strand']) + '\n')
    argv = ['parseVEP', '-i', tsv, '-o', out, '--genome-fasta', refdir / 'genome.fasta',
            '--annotation-gtf', refdir / 'annotation.gtf', '--source', 'gSNP']
    if skip_failed:
        argv.append('--skip-failed')
    res = drive.run(argv, capture_log=True)
    recs = L.read_gvf(out) if res['ok'] else []
    return res, recs


def row_key(r, symptom):
    return (f"vep/{r['sp']}/{'+' if r['strand'] == 1 else '-'}/{'nf' if r['nf'] else 'full'}/"
            f"{r['zone']}/{symptom}")


def row_order(vi, r):
    return (len(r['alt']) + (r['e'] - r['s']), vi, r['gene'], r['tx'], r['a'], r['allele'])


def judge_rows(R, rows, recs, gseq):
    """-> (fails [(symptom, row, got)], n_emitted_rows, n_nontrivial, info2)"""
    by_key = {}
    for r in rows:
        by_key[(r['tx'], f"{R.chrom}:{r['loc']}")] = r
    got = {}
    fails = []
    for rec in recs:
        k = (rec['attrs'].get('TRANSCRIPT_ID'), rec['attrs'].get('GENOMIC_POSITION'))
        if k not in by_key:
            fails.append(('unattributed-record', rows[0], rec))
            continue
        got.setdefault(k, []).append(rec)
    nt = 0
    info2 = [0, 0]
    for k, r in by_key.items():
        rr = got.get(k, [])
        exp = L.expected_gene(R, r['gene'], r['s'], r['e'], r['alt'])
        shown = [(x['pos'], x['ref'], x['alt'], x['id']) for x in rr]
        if r['cls'] == 'INFO':
            info2[0] += 1
            if rr and any(L.judge_record(gseq[r['gene']], exp, (x['pos'], x['ref'], x['alt'])) for x in rr):
                info2[1] += 1
            continue
        if len(rr) > 1:
            fails.append(('duplicate-record', r, shown))
            continue
        if not rr:
            if r['cls'] == 'MUST':
                nt += 1
                fails.append(('not-emitted', r, shown))
            continue
        nt += 1
        x = rr[0]
        if x['chrom'] != r['gene']:
            fails.append(('wrong-gene', r, shown))
            continue
        sym = L.judge_record(gseq[r['gene']], exp, (x['pos'], x['ref'], x['alt']))
        if sym is None and r['cls'] == 'REJECT':
            sym = 'emitted-' + r['zone']
        if sym is not None:
            fails.append((sym, r, shown))
    return fails, len(got), nt, info2


_TALLY = [('total', r'Totally records read: (\d+)'), ('succeed', r'Records successfully processed: (\d+)'),
          ('failed', r'Records failed: (\d+)'), ('start', r'Start codon mutation: (\d+)'),
          ('stop', r'Stop codon mutation: (\d+)'), ('skipped', r'Records skipped: (\d+)')]


def tally_of(log):
    t = {}
    for _, msg in log or []:
        for k, pat in _TALLY:
            m = re.fullmatch(pat, msg)
            if m:
                t[k] = int(m.group(1))
    return t


def vep_job(job):
    vi, gi, w, tier = job
    variant = L.VARIANTS[vi]
    R = L.make_ref(variant)
    d = vlib.worker_dir() / f'vep{vi}_{gi}_{w}'
    d.mkdir(exist_ok=True)
    refdir = R.write(d / 'ref')
    gene = R.genes[gi]
    gs, ge = R.gene_span(gene['gene_id'])
    allpos = list(range(gs - L.FLANK, ge + L.FLANK + 1))
    positions = allpos[w * WINDOW:(w + 1) * WINDOW]
    rows = vep_rows(R, gene, positions, tier)
    gseq = {g['gene_id']: R.gene_seq(g['gene_id']) for g in R.genes}
    groups = {}
    for r in rows:
        groups.setdefault((r['tx'], r['loc']), []).append(r)
    nb = max(len(v) for v in groups.values())
    out = dict(rows=0, calls=0, nontrivial=0, emitted=0, fails=[], zones={}, info2=[0, 0], generic=0,
               noskip_rows=0, noskip_calls=0)
    for r in rows:
        z = f"{r['cls']}:{r['zone']}"
        out['zones'][z] = out['zones'].get(z, 0) + 1
    for k in range(nb):
        batch = [v[k] for v in groups.values() if len(v) > k]
        res, recs = run_parse_vep(R, refdir, batch, d, True)
        out['calls'] += 1
        out['rows'] += len(batch)
        if not res['ok']:
            out['fails'].append(('crash-with-skip-failed', batch[0], res['exc']))
            continue
        fails, nem, nt, info2 = judge_rows(R, batch, recs, gseq)
        out['fails'] += fails
        out['emitted'] += nem
        out['nontrivial'] += nt
        out['info2'][0] += info2[0]
        out['info2'][1] += info2[1]
        t = tally_of(res['log'])
        exp_t = dict(total=len(batch), succeed=len(recs), failed=len(batch) - len(recs))
        if any(t.get(k2) != v for k2, v in exp_t.items()) or \
                (t.get('failed') and t.get('start', 0) + t.get('stop', 0) > t['failed']):
            out['fails'].append(('tally-mismatch', batch[0], dict(expected=exp_t, logged=t)))
        out['generic'] += t.get('failed', 0) - t.get('start', 0) - t.get('stop', 0)
        # the same rows without --skip-failed, restricted to rows whose Location lies inside the gene
        # (a Location outside the gene aborts the whole run with ValueError; see assumptions)
        inb = [r for r in batch if loc_in_gene(R, r)]
        if inb:
            res2, recs2 = run_parse_vep(R, refdir, inb, d, False, tag='n')
            out['noskip_calls'] += 1
            out['noskip_rows'] += len(inb)
            if not res2['ok']:
                n_found = 0
                for r in inb:
                    r1, _ = run_parse_vep(R, refdir, [r], d, False, tag='s')
                    if not r1['ok']:
                        out['fails'].append(('crash-without-skip-failed:' + str(r1.get('exc_type')), r, r1['exc']))
                        n_found += 1
                        if n_found >= 3:
                            break
                if not n_found:
                    out['fails'].append(('crash-without-skip-failed:batch-only', inb[0], res2['exc']))
            else:
                f2, _, _, _ = judge_rows(R, inb, recs2, gseq)
                seen = {(s_, id(r_)) for s_, r_, _ in fails}
                out['fails'] += [(s_, r_, g_) for s_, r_, g_ in f2 if (s_, id(r_)) not in seen]
    # compact the failures: per key the count and the minimal example
    agg = {}
    for sym, r, gotv in out['fails']:
        key = row_key(r, sym)
        o = row_order(vi, r)
        a = agg.setdefault(key, [0, None, None])
        a[0] += 1
        if a[1] is None or o < a[1]:
            a[1] = o
            a[2] = dict(variant=list(variant), row={k2: r[k2] for k2 in
                        ('gene', 'tx', 'strand', 'nf', 'kind', 's', 'e', 'alt', 'sp', 'loc', 'allele', 'cls', 'zone', 'a', 'b')},
                        symptom=sym, got=gotv)
    out['fails'] = agg
    import shutil
    shutil.rmtree(d, ignore_errors=True)
    return out


def describe_vep(R, row, gotv):
    gseq = R.gene_seq(row['gene'])
    exp = L.expected_gene(R, row['gene'], row['s'], row['e'], row['alt'])
    return (f"reference {R.name}: VEP row Location={R.chrom}:{row['loc']} Allele={row['allele']} Gene={row['gene']} "
            f"Feature={row['tx']} (strand {row['strand']:+d}, cds_start_NF={row['nf']}) = {row['kind']} "
            f"genome[{row['s']}:{row['e']}]->'{row['alt']}', gene interval [{row['a']},{row['b']}), zone {row['zone']} "
            f"({row['cls']}); gene={gseq}; expected gene after event={exp}; emitted (POS,REF,ALT,ID)={gotv}")


def part_vep(run):
    tier = run.tier
    if tier == 'quick':
        rest = [i for i in range(len(L.VARIANTS)) if i not in (0, 1)]
        vsel = [0, 1] + [rest[i] for i in vlib.seeded_windows(run.seed, len(rest), 1, always=())]
    else:
        vsel = list(range(len(L.VARIANTS)))
    nwin = -(-(50 + 2 * L.FLANK + 1) // WINDOW)
    jobs = [(vi, gi, w, tier) for vi in vsel for gi in (0, 1) for w in range(nwin)]
    res = vlib.pmap(vep_job, jobs, jobs=run.jobs, chunk=1)
    errs = vlib.harness_errors(res)
    if errs:
        raise RuntimeError(errs[0])
    tot = dict(rows=0, calls=0, nontrivial=0, emitted=0, noskip_rows=0, noskip_calls=0, generic=0)
    zones = {}
    info2 = [0, 0]
    agg = {}
    for o in res:
        for k in tot:
            tot[k] += o[k]
        for z, n in o['zones'].items():
            zones[z] = zones.get(z, 0) + n
        info2[0] += o['info2'][0]
        info2[1] += o['info2'][1]
        for key, (n, order, ex) in o['fails'].items():
            a = agg.setdefault(key, [0, None, None])
            a[0] += n
            if a[1] is None or tuple(order) < tuple(a[1]):
                a[1], a[2] = order, ex
    for key in sorted(agg):
        n, _, ex = agg[key]
        R = L.make_ref(tuple(ex['variant']))
        run.violation(key, f"{n} case(s); minimal: " + describe_vep(R, ex['row'], ex['got']),
                      dict(kind='vep', variant=ex['variant'], row=ex['row'], symptom=ex['symptom'], cases=n))
    bd = L.bounds(tier)
    run.block('vep-all-positions-all-events', tot['rows'], tot['nontrivial'], True, references=len(vsel),
              cli_calls=tot['calls'], records_emitted=tot['emitted'], ins_len=bd['ins'], del_len=bd['dele'],
              sub_len=bd['sub'][1:], rejected_by_other_exception=tot['generic'])
    run.block('vep-no-skip-failed', tot['noskip_rows'], 0, True, cli_calls=tot['noskip_calls'],
              note='same rows (Location inside the gene) without --skip-failed: must not abort, same verdicts')
    run.extra['vep_zone_rows'] = dict(sorted(zones.items()))
    run.extra['vep_2nt_substitution_rows'] = dict(rows=info2[0], emitted_as_something_else=info2[1],
                                                  note='outside the property (VEP writes a 2-nt substitution '
                                                       'and an insertion with the same Location shape)')
    run.extra['vep_references'] = [L.make_ref(L.VARIANTS[i]).name for i in vsel]
    R = L.make_ref(L.VARIANTS[0])
    g = R.genes[1]
    ev = ('ins', 70, 70, 'AG')
    run.sample(dict(kind='vep', reference=R.name, gene=g['gene_id'], strand=g['strand'], event='insert AG before genome[70]',
                    spellings=L.vep_spellings(R.genome, ev), gene_seq=R.gene_seq(g['gene_id']),
                    expected_gene_after=L.expected_gene(R, g['gene_id'], 70, 70, 'AG')))


# =============================================================================================
# parseREDItools
# =============================================================================================
THETAS_QUICK = [(3, '0.1', 10, 10), (4, '0.25', 16, 8), (1, '0.5', 2, -1), (2, '0.125', 8, 0)]
THETAS_MORE = [(5, '0.375', 12, 3), (1, '0.0', 1, -1), (1, '1.0', 1, 1), (3, '0.1', 10, -1)]
THETA_P = (3, '0.1', 10, 10)


def theta_argv(th):
    return ['--min-coverage-alt', th[0], '--min-frequency-alt', th[1], '--min-coverage-rna', th[2],
            '--min-coverage-dna', th[3]]


def data_grid(th):
    """(alt, total, gcov): total in {t-1,t,t+1} of min-coverage-rna plus 16 and 32; alt every count
    1..total; gcov in {t-1,t,t+1} of min-coverage-dna plus 'no DNA-seq data'."""
    ca, fa, cr, cd = th
    totals = sorted({x for x in (cr - 1, cr, cr + 1, 16, 32) if x >= 1})
    gcs = sorted({x for x in (cd - 1, cd, cd + 1) if x >= 0}) + [None]
    if len(gcs) == 1:
        gcs = [0, 5, None]
    return [(alt, tot, g) for tot in totals for alt in range(1, tot + 1) for g in gcs]


_D5 = {}


def data_five(th):
    if th not in _D5:
        _D5[th] = _data_five(th)
    return _D5[th]


def _data_five(th):
    """One row passing everything and one failing exactly one threshold, for each threshold."""
    want = {(): None, ('alt',): None, ('freq',): None, ('rna',): None, ('dna',): None}
    ca, fa, cr, cd = th
    for tot in range(1, 4 * max(cr, 8) + 1):
        for alt in range(1, tot + 1):
            for g in (cd + 2, cd - 1):
                if g < 0:
                    continue
                f = []
                if alt < ca:
                    f.append('alt')
                if Fraction(alt, tot) < Fraction(fa):
                    f.append('freq')
                if tot < cr:
                    f.append('rna')
                if g < cd:
                    f.append('dna')
                if tuple(f) in want and want[tuple(f)] is None:
                    want[tuple(f)] = (alt, tot, g)
    return [v for v in want.values() if v is not None]


def data_mix(th):
    """Row data for the row-independence block: one passing row and one failing exactly one threshold per threshold
    (data_five) plus the same passing row without DNA-seq data."""
    five = data_five(th)
    return five + [(five[0][0], five[0][1], None)]


def redi_positions(R):
    out = []
    for gene in R.genes:
        gs, ge = R.gene_span(gene['gene_id'])
        for g in range(gs - 2, ge + 2):
            out.append((g, gene if gs <= g < ge else None))
    return out


def redi_combos(R, g, gene, block, tier, theta):
    """The list of row specs for position g in the given block.
    spec = (txs, deco, [(alt_base_index, alt_count)], total, gcov)"""
    if gene is None:
        sp = []
    else:
        sp = L.spanning(R, gene['gene_id'], g)
    if block == 'P':
        subsets = [c for n in range(1, len(sp) + 1) for c in itertools.combinations(sp, n)] or [()]
        alts = (0, 1, 2) if tier == 'thorough' else (g % 3,)
        return [(txs, deco, [(ai, alt)], tot, gc) for txs in subsets for deco in (0, 1, 2)
                for (alt, tot, gc) in data_five(theta) for ai in alts]
    if block == 'N':
        if gene is None:
            return []
        ns = [t['tx_id'] for t in gene['transcripts'] if t['tx_id'] not in sp]
        ca, fa, cr, cd = theta          # a row that passes every threshold with room to spare
        alt = ca + 2
        tot = max(cr + 2, alt + 1)
        while Fraction(alt, tot) <= Fraction(fa):
            alt += 1
        gc = cd + 2
        out = []
        for t in ns:
            out.append(((t,), 0, [(g % 3, alt)], tot, gc))
            if sp:
                out.append((tuple(sp) + (t,), 0, [(g % 3, alt)], tot, gc))
                out.append(((t,) + tuple(sp), 0, [((g + 1) % 3, alt)], tot, gc))
        return out
    if block == 'T':
        return [(tuple(sp), 0, [(g % 3, alt)], tot, gc) for (alt, tot, gc) in data_grid(theta)]
    if block == 'X':
        return [(tuple(sp), 0, [(g % 3, alt)], tot, gc) for (alt, tot, gc) in data_mix(theta)]
    if block == 'M':
        ca = theta[0]
        return [(tuple(sp), 0, [(0, c1), (1, c2)], 10 + c1 + c2, None if theta[3] == -1 else theta[3])
                for c1 in (ca - 1, ca, ca + 1) for c2 in (ca - 1, ca, ca + 1) if c1 >= 1 and c2 >= 1]
    raise ValueError(block)


def redi_row(R, g, gene, spec):
    txs, deco, subs, total, gcov = spec
    strand = gene['strand'] if gene else 1
    fwd = R.genome[g]
    ref = fwd if strand == 1 else L.COMP[fwd]
    others = [b for b in 'ACGT' if b != ref]
    counts = {ref: total - sum(c for _, c in subs)}
    subl = []
    for ai, c in subs:
        counts[others[ai]] = c
        subl.append(ref + others[ai])
    tid, feat = L.tid_column(R, list(txs), g, deco)
    line = L.redi_line(R.chrom, g + 1, ref, 1 if strand == 1 else 0, counts, subl, gcov, feat,
                       gene['gene_id'] if gene else '-', tid)
    return line, ref, [(ref + others[ai])[1] for ai, _ in subs]


def redi_expected(R, g, gene, spec, theta):
    """-> (must set, may set, sigs) of (gene, pos1, ref, alt, tx)"""
    txs, deco, subs, total, gcov = spec
    must, may, sigs = set(), set(), {}
    if gene is None:
        return must, may, sigs
    strand = gene['strand']
    ref = R.genome[g] if strand == 1 else L.COMP[R.genome[g]]
    others = [b for b in 'ACGT' if b != ref]
    pos1 = R.genomic_to_gene(gene['gene_id'], g) + 1
    for ai, c in subs:
        ok, sig = L.thr_ok(theta, c, total, gcov)
        sigs[others[ai]] = sig
        for t in txs:
            if t in L.spanning(R, gene['gene_id'], g) and L.exonic(R, t, g):
                rec = (gene['gene_id'], pos1, ref, others[ai], t)
                if ok is True:
                    must.add(rec)
                    may.add(rec)
                elif ok is None:
                    may.add(rec)
    return must, may, sigs


def sig_str(sig):
    if sig is None:
        return '-'
    if sig['dna'] == 'skip/gcov=na':
        return 'dna=skip,gcov=na'
    return f"alt{sig['alt']}freq{sig['freq']}rna{sig['rna']}dna{sig['dna']}"


def site_class(R, gene, g, tx):
    if gene is None:
        return 'flank'
    if tx not in L.spanning(R, gene['gene_id'], g):
        return 'tx-not-spanning'
    return 'exonic' if L.exonic(R, tx, g) else 'intronic'


def run_parse_redi(R, refdir, lines, theta, d, tag='r'):
    tsv = d / f'{tag}.tsv'
    out = d / f'{tag}.gvf'
    if out.exists():
        out.unlink()
    tsv.write_text(L.REDI_HEADER + '\n' + '\n'.join(lines) + '\n')
    argv = ['parseREDItools', '-i', tsv, '-o', out, '--annotation-gtf', refdir / 'annotation.gtf',
            '--source', 'RNAEditing'] + theta_argv(theta)
    res = drive.run(argv, capture_log=True)
    return res, (L.read_gvf(out) if res['ok'] else [])


def judge_redi(R, theta, entries, recs):
    """entries: [(g, gene, spec)] one per genomic position.  -> fails [(key, order, example)], nontrivial"""
    by_pos = {}
    for rec in recs:
        by_pos.setdefault(rec['attrs'].get('GENOMIC_POSITION'), []).append(rec)
    fails = []
    nt = 0
    known = set()
    for g, gene, spec in entries:
        gp = f'{R.chrom}:{g + 1}'
        known.add(gp)
        must, may, sigs = redi_expected(R, g, gene, spec, theta)
        got = [(x['chrom'], x['pos'], x['ref'], x['alt'], x['attrs'].get('TRANSCRIPT_ID')) for x in by_pos.get(gp, [])]
        if must or got:
            nt += 1
        gset = set(got)
        strand = '+' if (gene and gene['strand'] == 1) else ('-' if gene else '.')
        probs = []
        if len(got) != len(gset):
            probs.append(('duplicate', sorted(x for x in gset if got.count(x) > 1)[0]))
        for x in sorted(must - gset):
            moved = [y for y in gset if (y[0], y[2], y[3], y[4]) == (x[0], x[2], x[3], x[4])]
            probs.append(('misplaced' if moved else 'missing', x))
        for y in sorted(gset - may):
            if any((y[0], y[2], y[3], y[4]) == (x[0], x[2], x[3], x[4]) for x in must):
                continue      # reported as misplaced
            probs.append(('spurious', y))
        for sym, x in probs:
            tx = x[4]
            sc = site_class(R, gene, g, tx)
            key = f"redi/{sym}/{strand}/{sc}" + ('' if sc == 'tx-not-spanning' or sym == 'misplaced'
                                                 else '/' + sig_str(sigs.get(x[3])))
            fails.append((key, (g, str(spec)), dict(g=g, gene=gene['gene_id'] if gene else None, spec=spec,
                                                    theta=theta, symptom=sym, record=x, expected=sorted(must),
                                                    got=sorted(gset))))
    for gp in by_pos:
        if gp not in known:
            fails.append(('redi/unattributed-record', (0, gp), dict(got=by_pos[gp])))
    return fails, nt


def redi_job(job):
    vi, block, ti, tier, k0, k1 = job
    theta = ALL_THETAS[ti]
    variant = L.VARIANTS[vi]
    R = L.make_ref(variant)
    d = vlib.worker_dir() / f'redi{vi}_{block}_{ti}_{k0}'
    d.mkdir(exist_ok=True)
    refdir = R.write(d / 'ref')
    pos = redi_positions(R)
    combos = [redi_combos(R, g, gene, block, tier, theta) for g, gene in pos]
    out = dict(rows=0, calls=0, nontrivial=0, fails={}, undecided=0)
    if block == 'X':
        return redi_mix_job(R, refdir, theta, variant, vi, ti, pos, combos, d, out)
    for k in range(k0, min(k1, max(len(c) for c in combos))):
        entries = [(g, gene, c[k]) for (g, gene), c in zip(pos, combos) if len(c) > k]
        lines = [redi_row(R, g, gene, spec)[0] for g, gene, spec in entries]
        res, recs = run_parse_redi(R, refdir, lines, theta, d)
        out['calls'] += 1
        out['rows'] += len(entries)
        if not res['ok']:
            fl = [('redi/crash/' + str(res.get('exc_type')), (entries[0][0], ''), dict(exc=res['exc'], g=entries[0][0],
                   gene=None, spec=entries[0][2], theta=theta))]
            nt = 0
        else:
            fl, nt = judge_redi(R, theta, entries, recs)
            t = tally_of(res['log'])
            nsucc = len({x['attrs'].get('GENOMIC_POSITION') for x in recs})
            if recs and (t.get('total') != len(entries) or t.get('succeed') != nsucc or
                         t.get('skipped') != len(entries) - nsucc):
                fl.append(('redi/tally-mismatch', (0, ''), dict(logged=t, rows=len(entries), with_records=nsucc)))
        out['nontrivial'] += nt
        for key, order, ex in fl:
            a = out['fails'].setdefault(key, [0, None, None])
            a[0] += 1
            o = (vi, ti) + tuple(order)
            if a[1] is None or o < a[1]:
                ex = dict(ex)
                ex['variant'] = list(variant)
                ex['block'] = block
                a[1], a[2] = o, ex
    import shutil
    shutil.rmtree(d, ignore_errors=True)
    return out


def redi_mix_job(R, refdir, theta, variant, vi, ti, pos, combos, d, out):
    """Row independence: what is written for a row may not depend on the other rows of the table.  Every row
    (position j, data i) is run in a homogeneous file (all rows carry data i), in the rotated file s = (i - j) mod n
    (neighbours carry the next / previous data) and in the counter-rotated file; the records of the row must agree."""
    import shutil
    n = len(data_mix(theta))
    P = [(j, g, gene, c) for j, ((g, gene), c) in enumerate(zip(pos, combos)) if len(c) == n]

    def run_file(pick, tag):
        entries = [(g, gene, c[pick(j)]) for j, g, gene, c in P]
        lines = [redi_row(R, g, gene, spec)[0] for g, gene, spec in entries]
        res, recs = run_parse_redi(R, refdir, lines, theta, d, tag=tag)
        out['calls'] += 1
        out['rows'] += len(entries)
        if not res['ok']:
            return None, res
        by = {}
        for x in recs:
            by.setdefault(x['attrs'].get('GENOMIC_POSITION'), []).append(
                (x['chrom'], x['pos'], x['ref'], x['alt'], x['attrs'].get('TRANSCRIPT_ID')))
        return {(j, pick(j)): sorted(by.get(f'{R.chrom}:{g + 1}', [])) for j, g, gene, c in P}, res
    homo = {}
    for i in range(n):
        r, res = run_file(lambda j, i=i: i, 'h')
        if r is None:
            out['fails']['redi/mix/crash'] = [1, (vi, ti, 0, ''), dict(exc=res['exc'], theta=theta, variant=list(variant), block='X')]
            shutil.rmtree(d, ignore_errors=True)
            return out
        homo.update(r)
    for name, mk in (('rotated', lambda s: (lambda j: (j + s) % n)), ('counter-rotated', lambda s: (lambda j: (s - j) % n))):
        for s in range(n):
            r, res = run_file(mk(s), 'x')
            if r is None:
                out['fails'][f'redi/mix/crash/{name}'] = [1, (vi, ti, s, ''), dict(exc=res['exc'], theta=theta, variant=list(variant), block='X')]
                continue
            for (j, i), got in r.items():
                if got or homo[(j, i)]:
                    out['nontrivial'] += 1
                if got != homo[(j, i)]:
                    _, g, gene, c = P[j] if P[j][0] == j else next(x for x in P if x[0] == j)
                    prev_i = mk(s)(j - 1) if j > 0 else None
                    sig = sig_str(L.thr_ok(theta, c[i][2][0][1], c[i][3], c[i][4])[1])
                    psig = sig_str(L.thr_ok(theta, c[prev_i][2][0][1], c[prev_i][3], c[prev_i][4])[1]) if prev_i is not None else 'first-row'
                    key = f'redi/row-dependence/{sig}/after:{psig}'
                    a = out['fails'].setdefault(key, [0, None, None])
                    a[0] += 1
                    o = (vi, ti, g, name)
                    if a[1] is None or o < a[1]:
                        a[1] = o
                        a[2] = dict(g=g, gene=gene['gene_id'] if gene else None, spec=c[i], theta=theta, arrangement=name,
                                    shift=s, alone_or_homogeneous=homo[(j, i)], mixed=got, variant=list(variant), block='X',
                                    previous_row_data=list(c[prev_i][2:]) if prev_i is not None else None)
    shutil.rmtree(d, ignore_errors=True)
    return out


ALL_THETAS = THETAS_QUICK + THETAS_MORE


def part_redi(run):
    tier = run.tier
    if tier == 'quick':
        rest = [i for i in range(len(L.VARIANTS)) if i not in (0, 1)]
        vsel = [0, 1] + [rest[i] for i in vlib.seeded_windows(run.seed + 1, len(rest), 1, always=())]
        thetas = list(range(len(THETAS_QUICK)))
    else:
        vsel = list(range(len(L.VARIANTS)))
        thetas = list(range(len(ALL_THETAS)))
    jobs = []
    meta = []
    for vi in vsel:
        R = L.make_ref(L.VARIANTS[vi])
        pos = redi_positions(R)
        for block in ('P', 'N', 'T', 'M', 'X'):
            tl = [ALL_THETAS.index(THETA_P)] if block in ('P', 'N') else thetas
            if block == 'X':
                for ti in ([ALL_THETAS.index(THETA_P)] if tier == 'quick' else [t for t in thetas if ALL_THETAS[t][3] >= 0]):
                    jobs.append((vi, 'X', ti, tier, 0, 0))
                    meta.append('X')
                continue
            if block == 'T' and tier == 'quick' and vi not in (0, 1):
                tl = thetas[:2]
            for ti in tl:
                nb = max(len(redi_combos(R, g, gene, block, tier, ALL_THETAS[ti])) for g, gene in pos)
                step = 24
                for k0 in range(0, nb, step):
                    jobs.append((vi, block, ti, tier, k0, k0 + step))
                    meta.append(block)
    res = vlib.pmap(redi_job, jobs, jobs=run.jobs, chunk=1)
    errs = vlib.harness_errors(res)
    if errs:
        raise RuntimeError(errs[0])
    agg = {}
    per = {}
    for b, o in zip(meta, res):
        p = per.setdefault(b, dict(rows=0, calls=0, nontrivial=0))
        for k in p:
            p[k] += o[k]
        for key, (n, order, ex) in o['fails'].items():
            a = agg.setdefault(key, [0, None, None])
            a[0] += n
            if a[1] is None or tuple(order) < tuple(a[1]):
                a[1], a[2] = order, ex
    for key in sorted(agg):
        n, _, ex = agg[key]
        what = f'{n} row(s); minimal: ' + describe_redi(ex)
        run.violation(key, what, dict(kind='redi', **{k: v for k, v in ex.items()}))
    names = dict(P='redi-positions-x-transcript-lists', N='redi-listed-transcript-not-spanning',
                 T='redi-threshold-lattice', M='redi-two-substitutions', X='redi-row-independence')
    for b in ('P', 'N', 'T', 'M', 'X'):
        if b in per:
            run.block(names[b], per[b]['rows'], per[b]['nontrivial'], True, cli_calls=per[b]['calls'],
                      references=len(vsel), threshold_settings=1 if b in 'PN' else len(thetas))
    run.extra['redi_threshold_settings'] = [ALL_THETAS[i] for i in thetas]
    R = L.make_ref(L.VARIANTS[0])
    g, gene = 30, R.genes[0]
    spec = (tuple(L.spanning(R, gene['gene_id'], g)), 1, [(0, 3)], 30, 10)
    run.sample(dict(kind='redi', reference=R.name, row=redi_row(R, g, gene, spec)[0], thresholds=THETA_P,
                    expected_records=sorted(redi_expected(R, g, gene, spec, THETA_P)[0])))


def describe_redi(ex):
    if 'spec' not in ex:
        return json.dumps(ex, default=str)[:500]
    R = L.make_ref(tuple(ex['variant']))
    gene = R.gene[ex['gene']] if ex.get('gene') else None
    spec = ex['spec']
    spec = (tuple(spec[0]), spec[1], [tuple(x) for x in spec[2]], spec[3], spec[4])
    line = redi_row(R, ex['g'], gene, spec)[0]
    th = ex['theta']
    return (f"reference {R.name}, thresholds alt>={th[0]} freq>={th[1]} rna>={th[2]} dna>={th[3]}; row: "
            f"{line!r}; {ex.get('symptom')} record (gene,POS,REF,ALT,tx)={ex.get('record')}; expected={ex.get('expected')} "
            f"got={ex.get('got')} {ex.get('exc', '')}" +
            (f" | row independence: records for this row alone / among equal rows = {ex.get('alone_or_homogeneous')}, in the "
             f"{ex.get('arrangement')} table (previous row data (subs,total,gcov) = {ex.get('previous_row_data')}) = {ex.get('mixed')}"
             if ex.get('block') == 'X' else ''))


# =============================================================================================
def replay(path):
    r = json.load(open(path))
    print('replaying', r['key'])
    print(r['what'])
    d = vlib.worker_dir()
    R = L.make_ref(tuple(r['variant']))
    refdir = R.write(d / 'ref')
    if r['kind'] == 'vep':
        row = r['row']
        gseq = {g['gene_id']: R.gene_seq(g['gene_id']) for g in R.genes}
        for skip in (True, False):
            res, recs = run_parse_vep(R, refdir, [row], d, skip)
            print(f"--skip-failed={skip}: ok={res['ok']} exc={res['exc']}")
            print('  expected gene after event:', L.expected_gene(R, row['gene'], row['s'], row['e'], row['alt']),
                  f"class={row['cls']} zone={row['zone']}")
            print('  got records:', [(x['chrom'], x['pos'], x['ref'], x['alt'], x['id']) for x in recs])
            fails, _, _, _ = judge_rows(R, [row], recs, gseq)
            print('  verdict:', [f[0] for f in fails] or 'ok')
    else:
        gene = R.gene[r['gene']] if r.get('gene') else None
        spec = r['spec']
        spec = (tuple(spec[0]), spec[1], [tuple(x) for x in spec[2]], spec[3], spec[4])
        theta = tuple(r['theta'])
        if r.get('block') == 'X':
            return replay_mix(R, refdir, theta, r, d)
        line = redi_row(R, r['g'], gene, spec)[0]
        res, recs = run_parse_redi(R, refdir, [line], theta, d)
        print('row:', line)
        print('thresholds:', theta, 'ok=', res['ok'], res['exc'])
        must, may, sigs = redi_expected(R, r['g'], gene, spec, theta)
        print('expected (must):', sorted(must), 'may:', sorted(may - must), 'signature:', sigs)
        print('got:', [(x['chrom'], x['pos'], x['ref'], x['alt'], x['attrs'].get('TRANSCRIPT_ID')) for x in recs])
        fl, _ = judge_redi(R, theta, [(r['g'], gene, spec)], recs)
        print('verdict:', [f[0] for f in fl] or 'ok')


def replay_mix(R, refdir, theta, r, d):
    """Row-independence case: the row alone, then inside the recorded arrangement of the table."""
    pos = redi_positions(R)
    combos = [redi_combos(R, g, gene, 'X', 'quick', theta) for g, gene in pos]
    n = len(data_mix(theta))
    P = [(j, g, gene, c) for j, ((g, gene), c) in enumerate(zip(pos, combos)) if len(c) == n]
    s = r['shift']
    pick = (lambda j: (j + s) % n) if r['arrangement'] == 'rotated' else (lambda j: (s - j) % n)
    gene = R.gene[r['gene']] if r.get('gene') else None
    j0 = next(j for j, g, _, _ in P if g == r['g'])
    c0 = P[[x[0] for x in P].index(j0)][3]
    line = redi_row(R, r['g'], gene, c0[pick(j0)])[0]
    res1, recs1 = run_parse_redi(R, refdir, [line], theta, d, tag='one')
    lines = [redi_row(R, g, gn, c[pick(j)])[0] for j, g, gn, c in P]
    res2, recs2 = run_parse_redi(R, refdir, lines, theta, d, tag='mix')
    gp = f'{R.chrom}:{r["g"] + 1}'
    f = lambda recs: sorted((x['chrom'], x['pos'], x['ref'], x['alt'], x['attrs'].get('TRANSCRIPT_ID')) for x in recs
                            if x['attrs'].get('GENOMIC_POSITION') == gp)
    print('thresholds:', theta)
    print('row:', line)
    k = lines.index(line)
    print('previous row in the table:', lines[k - 1] if k else None)
    print('records for the row alone      :', f(recs1))
    print('records for the row in the table:', f(recs2), f'({len(lines)} rows, arrangement {r["arrangement"]} shift {s})')
    bad = f(recs1) != f(recs2)
    print('verdict:', 'row-dependence' if bad else 'ok')
    if bad:
        sys.exit(1)


def main():
    run = vlib.Run('C14', 'exploration', __doc__)
    if run.args.replay:
        return replay(run.args.replay)
    run.rule = ('vep: every genomic position of each gene (+3 nt flanks) x every event of the alphabet (3 SNVs; every '
                'inserted string up to the stated length in 3 VEP spellings; deletions in 2 spellings; substitutions) '
                'x every transcript of the gene, on each reference of the panel; quick covers 2 fixed references + 1 '
                'chosen by VERIF_SEED, thorough all 8.  redi: every genomic position x every non-empty subset of the '
                'spanning transcripts x 3 spellings of the annotation column x {pass, fail-one-threshold} rows; every '
                'position x the full (alt, total, gCoverage) grid around each threshold for each threshold setting.  '
                'Non-trivial: the oracle requires a record or the tool emitted one (which is then verified).')
    run.assume('VEP conventions (Location chr:start-end 1-based inclusive, insertion written chr:p-(p+1) with the '
               'inserted bases, deletion Allele "-", forward-strand alleles; untrimmed VCF alleles give the '
               'single-position insertion spellings) are taken from the VEP output documentation, docs/ and test/files/vep')
    run.assume('a 2-nt substitution is not judged (VEP writes it with the same Location shape as an insertion; the '
               'property speaks of substitutions of three or more bases); record TYPE / ID prefix is not judged')
    run.assume('rows whose Location lies outside the gene abort parseVEP with ValueError unless --skip-failed is given; '
               'they are only run with --skip-failed, where they must yield no record')
    run.assume('events touching the first base of a transcript with a complete 5\' end must be rejected; events whose '
               'anchor base is that first base, insertions after the last base, and (cds_start_NF) insertions before the '
               'first base may be rejected - if a record is emitted it must be sequence-correct; everything else inside '
               'the transcript (including its last base) must be emitted')
    run.assume('REDItools rows are strand-corrected (Strand 1/0, bases reported on the gene strand); frequency = alt reads '
               '/ all reads at the site; a site without DNA-seq coverage ("-") under --min-coverage-dna >= 0 is not judged; '
               '"Minimal ..." thresholds are inclusive; --min-coverage-dna -1 = do not check (CLI help)')
    if run.want('vep'):
        part_vep(run)
    if run.want('redi'):
        part_redi(run)
    run.finish()


if __name__ == '__main__':
    main()
