"""C17 — parseCIRCexplorer records denote the reported circular RNA.

Bounded exhaustive input enumeration driving the real `parseCIRCexplorer` command in-process.
Space (per designed reference, lib/c17lib.make_ref):
  circ-exact    every transcript x every non-empty exon subset (contiguous runs and all
                non-contiguous combinations) as a circRNA row
  circ-shift    each of those rows with one boundary of one block moved by every d in the delta set
  circ-foreign  exon subsets of a sibling isoform / of another gene under the transcript's name,
                intron blocks labelled circRNA and exon blocks labelled ciRNA, unknown isoform names
  cirna-lattice every transcript x every intron x (start offset, end offset) over the complete lattice
                {lo-1..hi+1}^2 of the tolerance ranges, for every range configuration of the tier
  thresholds    rows x read-number lattice {t-1,t,t+1} (and FPBcirc / CIRCscore lattices for CIRCexplorer3)
each in CIRCexplorer2 and CIRCexplorer3 format.  Rows are batched per parser invocation; a batch whose
outcome cannot be attributed row by row (crash, tally or per-gene count mismatch) is re-run one row
per invocation.
"""
import itertools, json, os, shutil, sys
from pathlib import Path
import vlib, drive, refgen, oracle as O
import c17lib as L

BATCH = 24
STRAND_FREE = {'reparse-type', 'crash', 'tally'}
# checks of one emitted record against itself (text vs in-memory vs re-parsed model): cannot be
# mis-attributed inside a batch, so they do not force the row-by-row re-run
SELF_CONSISTENCY = {'reparse-type', 'reparse-model', 'mem-vs-text', 'ref-alt', 'reparse-raises', 'reparse-count'}


# ---- enumeration -----------------------------------------------------------------------------
class Namer:
    def __init__(self, prefix):
        self.p, self.n = prefix, 0

    def __call__(self):
        self.n += 1
        return f'{self.p}{self.n}'


def _row(R, nm, tx, kind, blocks, cls, **kw):
    g = R.gene_of.get(tx)
    strand = g['strand'] if g else kw.pop('strand', 1)
    kw.pop('strand', None)
    return L.mk_row(nm(), tx, kind, blocks, strand, cls=cls, chrom=R.chrom,
                    gene_name=(g['gene_id'] + 'N') if g else 'UNKNOWN', **kw)


def exon_subsets(exons):
    for k in range(1, len(exons) + 1):
        for idx in itertools.combinations(range(len(exons)), k):
            contig = all(b - a == 1 for a, b in zip(idx, idx[1:]))
            yield idx, contig


def rows_circ_exact(R, nm):
    out = []
    for tx, t in R.tx.items():
        for idx, contig in exon_subsets(t['exons']):
            out.append(_row(R, nm, tx, 'circRNA', [t['exons'][i] for i in idx],
                            'exact-contiguous' if contig else 'exact-noncontiguous'))
    return out


def rows_circ_shift(R, nm, deltas):
    out = []
    n = len(R.genome)
    for tx, t in R.tx.items():
        for idx, _ in exon_subsets(t['exons']):
            base = [tuple(t['exons'][i]) for i in idx]
            for j in range(len(base)):
                for side in (0, 1):
                    for d in deltas:
                        b = list(base[j])
                        b[side] += d
                        bl = base[:j] + [tuple(b)] + base[j + 1:]
                        if not b[0] < b[1] or b[0] < 0 or b[1] > n:
                            continue
                        if any(x[1] > y[0] for x, y in zip(bl, bl[1:])):
                            continue
                        r = _row(R, nm, tx, 'circRNA', bl, 'shift')
                        r['dist'] = abs(d)
                        out.append(r)
    return out


def rows_circ_foreign(R, nm):
    out = []
    for tx, t in R.tx.items():
        g = R.gene_of[tx]
        mine = set(tuple(e) for e in t['exons'])
        for g2 in R.genes:
            for t2 in g2['transcripts']:
                if t2['tx_id'] == tx:
                    continue
                for idx, _ in exon_subsets(t2['exons']):
                    bl = [tuple(t2['exons'][i]) for i in idx]
                    if all(b in mine for b in bl):
                        continue          # already an exact row of tx
                    if g2 is not g and len(bl) > 2:
                        continue          # other gene: singles and pairs are enough
                    r = _row(R, nm, tx, 'circRNA', bl, 'foreign-sibling' if g2 is g else 'foreign-gene')
                    r['dist'] = 0 if g2 is g else 99
                    out.append(r)
        for it in L.introns_genomic(R, tx):
            out.append(_row(R, nm, tx, 'circRNA', [it], 'intron-labelled-circRNA'))
        for e in t['exons']:
            out.append(_row(R, nm, tx, 'ciRNA', [e], 'exon-labelled-ciRNA'))
    # unknown isoform names
    for g in R.genes:
        t = g['transcripts'][0]
        for bad in ('ENST17ZZ9', t['tx_id'] + '.2', t['tx_id'][:-1]):
            out.append(_row(R, nm, bad, 'circRNA', t['exons'][:2], 'unknown-tx', strand=g['strand']))
            out.append(_row(R, nm, bad, 'ciRNA', [L.introns_genomic(R, t['tx_id'])[0]], 'unknown-tx',
                            strand=g['strand']))
    return out


def rows_cirna(R, nm, sr, er):
    """Complete lattice {lo-1..hi+1} x {lo-1..hi+1} around every intron of every transcript."""
    sr = sr or L.DEFAULT_SRANGE
    er = er or L.DEFAULT_ERANGE
    out = []
    for tx in R.tx:
        g = R.gene_of[tx]
        gid = g['gene_id']
        gs, ge = R.gene_span(gid)
        for k, it in enumerate(L.introns_genomic(R, tx)):
            ia, ib = L.to_gene(R, gid, it)
            for so in range(sr[0] - 1, sr[1] + 2):
                for eo in range(er[0] - 1, er[1] + 2):
                    a, b = ia + so, ib + eo
                    if b - a < 1 or a < 0 or b > ge - gs:
                        continue
                    blk = (gs + a, gs + b) if g['strand'] == 1 else (ge - b, ge - a)
                    r = _row(R, nm, tx, 'ciRNA', [blk], 'cirna-lattice')
                    r['dist'] = abs(so) + abs(eo)
                    out.append(r)
        # introns of sibling isoforms under this name (exact boundaries)
        mine = set(L.introns_genomic(R, tx))
        for t2 in g['transcripts']:
            for it in L.introns_genomic(R, t2['tx_id']):
                if it not in mine:
                    out.append(_row(R, nm, tx, 'ciRNA', [it], 'cirna-foreign'))
    return out


def with_lattice(rows, nm, reads, fpbs=(9.0,), scores=(9.0,)):
    out = []
    for r in rows:
        for rd in reads:
            for f in fpbs:
                for s in scores:
                    x = dict(r)
                    x.update(name=nm(), reads=rd, fpb=f, score=s, cls='thr-' + r['cls'])
                    out.append(x)
    return out


SR_ALWAYS = [(None, None), ((0, 0), (0, 0)), ((-1, 1), (-2, 2))]
SR_EXTRA = [((-3, -1), (-5, -1)), ((0, 2), (1, 3)), ((-2, 0), (-3, 0)), ((1, 2), (-2, 2)), ((-3, 2), (-4, 3)),
            ((-2, 0), (0, 0)), ((0, 0), (-100, 5)), ((-1, 0), (2, 2))]


def build_jobs(run):
    """-> list of jobs (block, refname, cfg, rows).  Every block is a complete enumeration."""
    thorough = run.tier == 'thorough'
    refs = ['R17a', 'R17b']
    ranges = SR_ALWAYS + SR_EXTRA
    run.extra['range_configs'] = [('default' if s is None else list(s), 'default' if e is None else list(e))
                                  for s, e in ranges]
    deltas = (-3, -2, -1, 1, 2, 3) if thorough else (-1, 1)
    jobs = []

    def add(block, refname, cfg, rows):
        rows = list(rows)
        # interleave so that consecutive rows differ in gene / verdict class
        for i in range(0, len(rows), BATCH):
            jobs.append((block, refname, cfg, rows[i:i + BATCH]))

    for refname in refs:
        R = L.make_ref(refname)
        nm = Namer(refname[-1])
        exact = rows_circ_exact(R, nm)
        shift = rows_circ_shift(R, nm, deltas)
        foreign = rows_circ_foreign(R, nm)
        for fmt in (2, 3):
            base = dict(fmt=fmt)
            add('circ-exact', refname, base, interleave(exact))
            add('circ-shift', refname, base, interleave(shift))
            add('circ-foreign', refname, base, interleave(foreign))
            add('circ-foreign', refname, dict(fmt=fmt, skip_failed=True), interleave(foreign))
            for sr, er in ranges:
                if refname == 'R17b' and (er or L.DEFAULT_ERANGE)[0] < -20:
                    continue        # 9-nt introns: the long end ranges are enumerated on R17a
                cfg = dict(fmt=fmt, srange=sr, erange=er)
                add('cirna-lattice', refname, cfg, interleave(rows_cirna(R, nm, sr, er)))
        if thorough:
            # the complete square of tolerance configurations with -3<=lo<=hi<=2 (start) and
            # -4<=lo<=hi<=3 (end), each with its complete offset lattice (CIRCexplorer2 format)
            listed = set((s, e) for s, e in ranges)
            for slo in range(-3, 3):
                for shi in range(slo, 3):
                    for elo in range(-4, 4):
                        for ehi in range(elo, 4):
                            sr, er = (slo, shi), (elo, ehi)
                            if (sr, er) in listed:
                                continue
                            add('cirna-lattice-all-ranges', refname, dict(fmt=2, srange=sr, erange=er),
                                interleave(rows_cirna(R, nm, sr, er)))
        # thresholds
        cir0 = [r for r in rows_cirna(R, nm, (0, 0), (0, 0)) if r['cls'] == 'cirna-lattice']
        if thorough:
            thr_rows = exact + cir0 + shift[::7]
        else:
            full = [r for r in exact if len(r['blocks']) == len(R.tx[r['tx']]['exons'])]
            thr_rows = full + cir0[::9] + shift[:4]
        for t in (None, 3, 0):
            tt = L.DEFAULT_MIN_READ if t is None else t
            reads = sorted({max(0, tt - 1), tt, tt + 1})
            add('thresholds', refname, dict(fmt=2, min_read=t, srange=(-1, 1), erange=(-1, 1)),
                with_lattice(thr_rows, nm, reads))
        for t, mf, ms in ((None, None, None), (3, 1.5, None), (None, None, 2.0), (2, 0.75, 1.25),
                          (None, 1.0, 1.0)):
            tt = L.DEFAULT_MIN_READ if t is None else t
            reads = sorted({max(0, tt - 1), tt, tt + 1})
            fp = (9.0,) if mf is None else (mf - 0.25, mf, mf + 0.25)
            sc = (9.0,) if ms is None else (ms - 0.25, ms, ms + 0.25)
            add('thresholds', refname, dict(fmt=3, min_read=t, min_fpb=mf, min_score=ms, srange=(-1, 1),
                                            erange=(-1, 1)),
                with_lattice(thr_rows, nm, reads, fp, sc))
    return jobs


def interleave(rows):
    """Deterministic reordering: round-robin over transcripts, so that a batch mixes genes, strands
    and accepted / rejected rows (the enumeration itself is unchanged)."""
    by = {}
    for r in rows:
        by.setdefault(r['tx'], []).append(r)
    out = []
    qs = [list(v) for v in by.values()]
    while any(qs):
        for q in qs:
            if q:
                out.append(q.pop(0))
    return out


# ---- driving the implementation ---------------------------------------------------------------
_REFS = {}


def get_ref(refname):
    """Per worker: reference files on tmpfs + gene sequences obtained through the tool's own loader
    (as callVariant does), asserted equal to the generator's."""
    if refname not in _REFS:
        R = L.make_ref(refname)
        d = vlib.worker_dir() / refname
        if not (d / 'annotation.gtf').exists():
            R.write(d)
        from moPepGen.cli import common
        args = drive.parse(['callVariant', '-i', d / 'x.gvf', '-o', d / 'x.fasta', '-a', d / 'annotation.gtf',
                            '-g', d / 'genome.fasta'])
        genome, anno, *_ = common.load_references(args, True, False)
        gseq = {}
        for g in R.genes:
            gm = anno.genes[g['gene_id']]
            s = gm.get_gene_sequence(genome[R.chrom])
            if str(s.seq) != R.gene_seq(g['gene_id']):
                raise RuntimeError(f'gene sequence of {g["gene_id"]} differs between tool and generator')
            gseq[g['gene_id']] = s
        _REFS[refname] = (R, d, gseq)
    return _REFS[refname]


_captured = []
_patched = False


def _patch_writer():
    """Interpose on moPepGen.circ.io.write (looked up at call time by the CLI) to see the in-memory
    models that are about to be written."""
    global _patched
    if _patched:
        return
    import moPepGen.circ.io as cio
    orig = cio.write

    def write(records, metadata, handle):
        records = list(records)
        _captured.append(records)
        return orig(records, metadata, handle)
    cio.write = write
    _patched = True


def parse_tally(log):
    t = {}
    keys = {'Totally records read': 'total', 'Records successfully processed': 'succeed',
            'Records skipped': 'skipped', 'Invalid circRNA record': 'invalid',
            'Insufficient evidence': 'insufficient'}
    for _, msg in log or []:
        k, _, v = msg.strip().partition(':')
        if k in keys:
            try:
                t[keys[k]] = int(v)
            except ValueError:
                pass
    if 'skipped' in t:
        t.setdefault('invalid', 0)
        t.setdefault('insufficient', 0)
    return t


def run_rows(refname, cfg, rows, workaround=False):
    R, d, _ = get_ref(refname)
    _patch_writer()
    inp = d / f'in_{os.getpid()}.txt'
    out = d / f'out_{os.getpid()}.gvf'
    inp.write_text(''.join(L.row_text(r, cfg['fmt']) + '\n' for r in rows))
    if out.exists():
        out.unlink()
    argv = ['parseCIRCexplorer', '-i', inp, '-o', out, '-a', d / 'annotation.gtf', '--source', 'circRNA']
    argv += L.cfg_argv(cfg)
    del _captured[:]
    over = {}
    if workaround:
        over['min_fbr_circ'] = cfg.get('min_fpb')
    res = drive.run(argv, capture_log=True, **over)
    res['models'] = _captured[-1] if _captured else []
    res['gvf'] = out.read_text() if out.exists() else None
    if not res['ok']:
        res['gvf'] = None
    res['tally'] = parse_tally(res['log'])
    res['argv'] = [str(a) for a in argv[1:]]
    return res


def is_ce3_attr_crash(res):
    return (not res['ok']) and res.get('exc_type') == 'AttributeError' and 'min_fbr_circ' in (res['exc'] or '')


# ---- comparison -------------------------------------------------------------------------------
def model_view(m):
    return dict(frags=[[int(f.location.start), int(f.location.end)] for f in m.fragments],
                types=[f.type for f in m.fragments], intron=list(m.intron), id=m.id, tx=m.transcript_id,
                gene=m.gene_id, symbol=m.gene_name)


def check_emitted(R, gseq, exp, gv, mem, line):
    """-> list of (kind, detail).  gv: the GVF record read by the independent reader; mem: the in-memory
    model handed to the writer; line: the GVF text line."""
    import io as _io
    from moPepGen.circ import io as cio
    fails = []

    def f(kind, e, g):
        fails.append((kind, f'expected {e!r} got {g!r}'))
    if gv['gene'] != exp['gene_id']:
        f('gene', exp['gene_id'], gv['gene'])
    if sorted(gv['frags']) != exp['frags']:
        f('fragments', exp['frags'], sorted(gv['frags']))
    if gv['id'] != exp['id']:
        f('id', exp['id'], gv['id'])
    if gv['tx'] != exp['tx']:
        f('transcript-id', exp['tx'], gv['tx'])
    if gv['symbol'] != exp['gene_symbol']:
        f('gene-symbol', exp['gene_symbol'], gv['symbol'])
    if gv['genomic_position'] != exp['genomic_position']:
        f('genomic-position-text', exp['genomic_position'], gv['genomic_position'])
    # INTRON: none for a circRNA; for a one-block ciRNA exactly one index.  The base of the index is
    # documented both ways (docs/file-format.md example: 0; docs/files/circ_rna.gvf and
    # test_circ_rna.py: 1), so it is not pinned here -- whether writer and reader agree is decided
    # by `reparse-type` below.
    if exp['ftype'] == 'exon':
        if gv['intron'] != []:
            f('intron-index', [], gv['intron'])
    elif gv['intron'] not in ([0], [1]):
        f('intron-index', '[0] or [1]', gv['intron'])
    if (gv['ref'], gv['alt']) != ('.', '.'):
        f('ref-alt', ('.', '.'), (gv['ref'], gv['alt']))
    # own slicing of the generator's gene sequence
    gs = R.gene_seq(exp['gene_id'])
    own = ''.join(gs[a:b] for a, b in sorted(gv['frags']) if 0 <= a <= b <= len(gs))
    if own != exp['seq']:
        f('sequence-own-slicing', exp['seq'], own)
    # in-memory model
    mv = None
    if mem is None:
        fails.append(('mem-model-missing', 'no in-memory model captured for this record'))
    else:
        mv = model_view(mem)
        if mv['frags'] != gv['frags'] or mv['id'] != gv['id'] or mv['tx'] != gv['tx'] or mv['gene'] != gv['gene'] \
                or mv['intron'] != gv['intron']:
            f('mem-vs-text', dict(frags=gv['frags'], id=gv['id'], tx=gv['tx'], gene=gv['gene'], intron=gv['intron']), mv)
        if any(t != exp['ftype'] for t in mv['types']):
            f('mem-type', exp['ftype'], mv['types'])
        try:
            s = str(mem.get_circ_rna_sequence(gseq[exp['gene_id']]).seq) if exp['gene_id'] in gseq else None
        except Exception as e:
            s = f'raised {e!r}'
        if s != exp['seq']:
            f('sequence-model', exp['seq'], s)
    # re-parse with the tool's reader
    try:
        rm = list(cio.parse(_io.StringIO(line + '\n')))
        rv = model_view(rm[0]) if len(rm) == 1 else None
    except Exception as e:
        rm, rv = None, None
        fails.append(('reparse-raises', repr(e)[:200]))
    if rm is not None and rv is None:
        fails.append(('reparse-count', f'{len(rm)} models from one line'))
    if rv is not None:
        try:
            s = str(rm[0].get_circ_rna_sequence(gseq[exp['gene_id']]).seq) if exp['gene_id'] in gseq else None
        except Exception as e:
            s = f'raised {e!r}'
        if s != exp['seq']:
            f('sequence-reparsed', exp['seq'], s)
        if mv is not None:
            a = {k: v for k, v in mv.items() if k != 'types'}
            b = {k: v for k, v in rv.items() if k != 'types'}
            if a != b:
                f('reparse-model', a, b)
            # fragment exon/intron typing after a re-parse is NOT judged: the property speaks of
            # fragment intervals, sequence and id only, and the INTRON index base is documented both
            # ways (writer 0-based, reader 1-based).  Recorded as an observation in DESIGN.md.
    return fails


def expected_tally(exps):
    n = len(exps)
    v = [e['verdict'] for e in exps]
    return dict(total=n, skipped=n - v.count('emit'), insufficient=v.count('skip-threshold'),
                invalid_min=v.count('skip-nomatch'),
                invalid_max=v.count('skip-nomatch') + v.count('skip-unknown-tx') + v.count('skip-outside'))


def tally_fail(t, et):
    if not t:
        return 'no tally was logged'
    bad = []
    if t.get('total') != et['total']:
        bad.append(f"total expected {et['total']} got {t.get('total')}")
    if t.get('skipped') != et['skipped']:
        bad.append(f"skipped expected {et['skipped']} got {t.get('skipped')}")
    if t.get('insufficient') != et['insufficient']:
        bad.append(f"insufficient-evidence expected {et['insufficient']} got {t.get('insufficient')}")
    if not et['invalid_min'] <= t.get('invalid', -1) <= et['invalid_max']:
        bad.append(f"invalid-record expected {et['invalid_min']}..{et['invalid_max']} got {t.get('invalid')}")
    return '; '.join(bad) or None


def eval_single(refname, cfg, row, workaround):
    """One row per invocation: exact attribution.  -> list of (kind, detail)."""
    R, _, gseq = get_ref(refname)
    exp = L.expected(R, cfg, row)
    res = run_rows(refname, cfg, [row], workaround)
    if not res['ok']:
        return exp, [('crash', f"{res['exc']}")], res
    fails = []
    recs = L.read_gvf(res['gvf']) if res['gvf'] else []
    if exp['verdict'] == 'emit':
        if len(recs) == 0:
            fails.append(('wrongly-skipped', f"expected {exp['id']} with fragments {exp['frags']}; tally {res['tally']}"))
        elif len(recs) > 1:
            fails.append(('multiple-records', f'{len(recs)} records for one row'))
        else:
            mem = res['models'][0] if len(res['models']) == 1 else None
            fails += check_emitted(R, gseq, exp, recs[0], mem, recs[0]['line'])
    elif recs:
        fails.append(('wrongly-emitted', f"expected {exp['verdict']}; got {[r['line'] for r in recs]}"))
    tf = tally_fail(res['tally'], expected_tally([exp]))
    if tf:
        fails.append(('tally', tf))
    return exp, fails, res


def work(job):
    block, refname, cfg, rows = job
    R, _, gseq = get_ref(refname)
    exps = [L.expected(R, cfg, r) for r in rows]
    ninv = 1
    res = run_rows(refname, cfg, rows)
    flags = []
    workaround = False
    if is_ce3_attr_crash(res):
        flags.append(('ce3-cli', res['exc'], res['argv']))
        workaround = True
        res = run_rows(refname, cfg, rows, True)
        ninv += 1
    per_row = None
    if res['ok'] and not tally_fail(res['tally'], expected_tally(exps)):
        recs = L.read_gvf(res['gvf']) if res['gvf'] else []
        mems = res['models']
        if len(mems) == len(recs):
            by_gene_got = {}
            for r, m in zip(recs, mems):
                by_gene_got.setdefault(r['gene'], []).append((r, m))
            by_gene_exp = {}
            for i, e in enumerate(exps):
                if e['verdict'] == 'emit':
                    by_gene_exp.setdefault(e['gene_id'], []).append(i)
            if set(by_gene_got) == set(by_gene_exp) and all(len(by_gene_got[g]) == len(by_gene_exp[g]) for g in by_gene_exp):
                per_row = [[] for _ in rows]
                for g, idxs in by_gene_exp.items():
                    for i, (r, m) in zip(idxs, by_gene_got[g]):
                        per_row[i] = check_emitted(R, gseq, exps[i], r, m, r['line'])
    mode = 'batch'
    if per_row is not None and any(k not in SELF_CONSISTENCY for fl in per_row for k, _ in fl):
        per_row = None          # a discrepancy against the oracle: attribute exactly, one row per invocation
    if per_row is None:
        mode = 'singles'
        per_row = []
        for r in rows:
            _, fl, _ = eval_single(refname, cfg, r, workaround)
            ninv += 1
            per_row.append(fl)
    out = []
    for r, e, fl in zip(rows, exps, per_row):
        out.append((r['name'], e['verdict'], fl))
    return dict(block=block, refname=refname, cfg=cfg, mode=mode, ninv=ninv, flags=flags, rows=out)


# ---- replay -----------------------------------------------------------------------------------
def replay(path):
    r = json.load(open(path))
    print('replaying', r['key'])
    print('reference :', r['ref'], '(lib/c17lib.make_ref)')
    print('config    :', r['cfg'], ' argv:', ' '.join(str(a) for a in L.cfg_argv(r['cfg'])))
    print('row       :', L.row_text(r['row'], r['cfg']['fmt']).replace('\t', ' | '))
    if r.get('kind') == 'ce3-cli':
        res = run_rows(r['ref'], r['cfg'], [r['row']])
        print('expected  : the command runs')
        print('got       :', 'ok' if res['ok'] else res['exc'])
        return
    exp, fails, res = eval_single(r['ref'], r['cfg'], r['row'], r.get('workaround', False))
    print('expected  :', {k: v for k, v in exp.items()})
    print('got       : ok=%s exc=%s tally=%s' % (res['ok'], res['exc'], res['tally']))
    print('            gvf=%s' % ([x['line'] for x in L.read_gvf(res['gvf'])] if res['gvf'] else None))
    for k, dt in fails:
        print('  FAIL', k, dt)
    if not fails:
        print('  (no discrepancy)')


# ---- main -------------------------------------------------------------------------------------
def fail_key(kind, row, exp_verdict, detail):
    st = '+' if row['strand'] == 1 else '-'
    if kind == 'crash':
        et = detail.split(':', 1)[0]
        return f'crash/{exp_verdict}/{et}'
    if kind in STRAND_FREE:
        return f"{kind}/{row['kind']}"
    return f"{kind}/{row['kind']}/{st}"


def main():
    run = vlib.Run('C17', 'exploration', __doc__)
    if run.args.replay:
        return replay(run.args.replay)
    run.rule = ('rows are generated from genomic exon/intron intervals of designed references: every transcript x '
                'every non-empty exon subset; each with one block boundary moved by each delta; sibling-isoform / '
                'other-gene / mislabelled / unknown-isoform rows; every intron x the complete (start,end) offset '
                'lattice {lo-1..hi+1}^2 for each tolerance configuration; threshold lattices {t-1,t,t+1}; all in '
                'CIRCexplorer2 and CIRCexplorer3 format.  Non-trivial: the oracle expects a record to be emitted '
                '(its fragments, id, typing, GVF text, re-parsed model and three sequence read-outs are compared).')
    run.assume('a ciRNA block ending before the annotated intron end is accepted whatever --intron-end-range says '
               '(pinned by test_to_convert_ci_rna_fuzzy_end_*); the end range only limits overshoot')
    run.assume('the base (0/1) of the INTRON fragment indices is not pinned (the documentation shows both); required is '
               'that the fragment typing of the emitted model survives the tool\'s own reader')
    run.assume('listing order of fragments and the POS column are not judged (readers sort fragments); only the '
               'interval set, the id and the sequence are')
    run.assume('the count of successfully processed records in the tally is not judged (property speaks of skipped rows)')
    run.assume('GENOMIC_POSITION is compared in the emitted text only; the reader dropping it belongs to C13')
    jobs = build_jobs(run)
    vlib.scratch_root()     # created in the parent so that forked workers share it and it is removed at exit
    if run.only:
        jobs = [j for j in jobs if j[0] in run.only]
    results = vlib.pmap(work, jobs, jobs=run.jobs, chunk=1)
    errs = vlib.harness_errors(results)
    if errs:
        raise RuntimeError(errs[0][1] + '\n' + errs[0][2])
    blocks = {}
    groups = {}
    ce3 = None
    rowmap = {}
    for j, res in zip(jobs, results):
        for r in j[3]:
            rowmap[(j[1], r['name'])] = r
        b = blocks.setdefault(res['block'], dict(n=0, nt=0, inv=0, singles=0, skip=0))
        b['inv'] += res['ninv']
        b['singles'] += 1 if res['mode'] == 'singles' else 0
        if res['flags'] and ce3 is None:
            ce3 = (res['flags'][0], j)
        b.setdefault('ce3fail', 0)
        b['ce3fail'] += len(res['flags'])
        for name, verdict, fails in res['rows']:
            b['n'] += 1
            if verdict == 'emit':
                b['nt'] += 1
            else:
                b['skip'] += 1
            row = rowmap[(res['refname'], name)]
            for kind, detail in fails:
                key = fail_key(kind, row, verdict, detail)
                g = groups.setdefault(key, [])
                g.append(((len(row['blocks']), row.get('dist', 0), res['refname'], row['tx'], row['blocks'],
                           L.cfg_key(res['cfg']), row['reads'], row['fpb'], row['score']),
                          res['refname'], 0, row, res['cfg'], verdict, kind, detail, bool(res['flags'])))
    if ce3 is not None:
        (kind, exc, argv), j = ce3
        n = sum(b.get('ce3fail', 0) for b in blocks.values())
        run.violation('ce3-cli/AttributeError-min_fbr_circ',
                      f'parseCIRCexplorer --circexplorer3 raises before converting any row ({n} of {n} CIRCexplorer3 '
                      f'invocations): {exc}.  The remaining CIRCexplorer3 results were obtained with the Namespace '
                      f'attribute min_fbr_circ supplied by the harness.',
                      dict(kind='ce3-cli', ref=j[1], cfg=j[2], row=j[3][0]))
    for key in sorted(groups):
        g = sorted(groups[key], key=lambda x: x[0])
        _, refname, _, row, cfg, verdict, kind, detail, wa = g[0]
        run.violation(key, f'{len(g)} case(s); minimal: ref={refname} cfg={L.cfg_key(cfg)} tx={row["tx"]} '
                           f'{row["kind"]} blocks={row["blocks"]} class={row["cls"]} expected={verdict}: {kind}: {detail}',
                      dict(kind=kind, ref=refname, cfg=cfg, row=row, workaround=wa, cases=len(g),
                           other_cases=[dict(ref=x[1], cfg=L.cfg_key(x[4]), tx=x[3]['tx'], blocks=x[3]['blocks'])
                                        for x in g[1:6]]))
    for name in ('circ-exact', 'circ-shift', 'circ-foreign', 'cirna-lattice', 'cirna-lattice-all-ranges', 'thresholds'):
        if name in blocks:
            b = blocks[name]
            run.block(name, b['n'], b['nt'], True, expected_skipped=b['skip'], invocations=b['inv'],
                      batches_rerun_row_by_row=b['singles'])
    R = L.make_ref('R17a')
    ex = dict(fmt=2)
    for row in (rows_circ_exact(R, Namer('s'))[20], rows_cirna(R, Namer('s'), None, None)[700]):
        run.sample(dict(ref='R17a', row=L.row_text(row, 2), expected=L.expected(R, ex, row)))
    run.finish()


if __name__ == '__main__':
    main()
