"""C05 — options and inputs act monotonically on callVariant's peptide set: relaxing a limit, enabling
SECT / W2F / coding novel ORFs, or adding a record only adds peptides, each attributable to the
relaxation; restrictive switches yield a subset (DESIGN §4 C05).  Paired runs of the real command; the
relation itself is the oracle."""
import sys
import vlib, enginea as E, cv_common as CC, panel, oracle as O, expasy_table as ET, cvoracle as CV

BASE = dict(exception=None)
CFGS = {
    'none': E.Cfg(**BASE),                       # misc 2, 7..25, 500
    'm0': E.Cfg(misc=0, **BASE),
    'm1': E.Cfg(misc=1, **BASE),
    'min6': E.Cfg(min_length=6, **BASE),
    'max12': E.Cfg(max_length=12, **BASE),
    'max13': E.Cfg(max_length=13, **BASE),
    'mw900': E.Cfg(min_mw=900., **BASE),
    'mw700': E.Cfg(min_mw=700., **BASE),
    'w2f': E.Cfg(flags=('--w2f-reassignment',), **BASE),
    'sect': E.Cfg(flags=('--selenocysteine-termination',), **BASE),
    'novel': E.Cfg(flags=('--coding-novel-orf',), **BASE),
}


def n_internal(p, cl):
    return len([x for x in ET.sites(cl.rule, p, cl.exception) if 0 < x < len(p)])


def entries_all(res, pep, pred):
    return all(pred(CV.parse_entry(e)) for e in res['peptides'][pep])


# (strict, relaxed, attribution(pep, strict_cfg, relaxed_cfg, relaxed_result) -> reason or None)
def attr_misc(pep, s, r, rr):
    k = n_internal(pep, r.cleavage())
    return None if k == r.misc else f'has {k} internal sites, expected exactly {r.misc}'


def attr_minlen(pep, s, r, rr):
    return None if len(pep) < s.min_length else f'length {len(pep)} is allowed by the stricter limit too'


def attr_maxlen(pep, s, r, rr):
    return None if len(pep) > s.max_length else f'length {len(pep)} is allowed by the stricter limit too'


def attr_mw(pep, s, r, rr):
    return None if O.mol_weight(pep) < s.min_mw else 'mass is allowed by the stricter limit too'


def attr_id(prefix):
    def f(pep, s, r, rr):
        ok = entries_all(rr, pep, lambda pe: any(i.startswith(prefix) for i in pe[1]))
        return None if ok else f'an entry carries no {prefix} identifier: {rr["peptides"][pep]}'
    return f


def attr_orf(pep, s, r, rr):
    ok = entries_all(rr, pep, lambda pe: pe[2] is not None)
    return None if ok else f'an entry carries no ORF id: {rr["peptides"][pep]}'


EDGES = [('m0', 'm1', attr_misc), ('m1', 'none', attr_misc), ('none', 'min6', attr_minlen), ('max12', 'max13', attr_maxlen),
         ('max13', 'none', attr_maxlen), ('mw900', 'mw700', attr_mw), ('mw700', 'none', attr_mw)]
FLAG_EDGES = [('none', 'w2f', attr_id('W2F-')), ('none', 'sect', attr_id('SECT-')), ('none', 'novel', attr_orf)]


def compare(run, name, cases_s, res_s, cases_r, res_r, attr, what):
    nt = 0
    for cs, rs, cr, rr in zip(cases_s, res_s, cases_r, res_r):
        if not rs['ok'] or not rr['ok']:
            if rs['ok'] != rr['ok']:
                run.violation(f'{cr.key()}|{what}|one-crashes', f'strict ok={rs["ok"]} relaxed ok={rr["ok"]}: {rs["exc"] or rr["exc"]}',
                              dict(strict=CC.case_to_replay(cs), relaxed=CC.case_to_replay(cr), edge=what))
            continue
        a, b = set(rs['peptides'] or {}), set(rr['peptides'] or {})
        if a or b:
            nt += 1
        lost = a - b
        if lost:
            run.violation(f'{cr.key()}|{what}|lost:{",".join(sorted(lost)[:3])}',
                          f'{what}: peptides of the stricter run missing from the relaxed run: {sorted(lost)[:6]}',
                          dict(strict=CC.case_to_replay(cs), relaxed=CC.case_to_replay(cr), edge=what))
        if attr is not None:
            for pep in sorted(b - a):
                why = attr(pep, cs.cfg, cr.cfg, rr)
                if why:
                    run.violation(f'{cr.key()}|{what}|unattributable:{pep}',
                                  f'{what}: added peptide {pep} is not attributable to the relaxation: {why}',
                                  dict(strict=CC.case_to_replay(cs), relaxed=CC.case_to_replay(cr), edge=what))
    return nt


def addfile_case(job):
    """records of file A alone vs. A plus a second GVF file B (in both orders, B with and without a .idx)."""
    import shutil, refgen, drive
    refname, a_recs, b_recs, order, with_idx = job
    d = vlib.worker_dir() / 'c05f'
    shutil.rmtree(d, ignore_errors=True)
    d.mkdir()
    fa, fb = d / 'a.gvf', d / 'b.gvf'
    refgen.write_gvf(fa, [v.gvf() for v in a_recs], 'parseVEP', 'gSNP')
    files = [fa]
    if b_recs:
        refgen.write_gvf(fb, [v.gvf() for v in b_recs], 'parseVEP', 'gINDEL')
        if with_idx:
            r = drive.run(['indexGVF', '-i', fb, '--quiet'])
            if not r['ok']:
                return dict(ok=False, exc='indexGVF: ' + str(r['exc']), seqs=None)
        files = [fa, fb] if order == 'ab' else [fb, fa]
    import ordctl
    ordctl.order_control(0)
    r = drive.call_variant(d / 'o.fasta', files, refdir=E.ref_dir(refname), cleavage=CC.CFG_NONE.argv())
    return dict(ok=r['ok'], exc=r['exc'], seqs=sorted(r['peptides'] or {}) if r['ok'] else None)


def replay(path):
    import json
    r = json.load(open(path))
    if r.get('kind') == 'addfile':
        print(r['key'], '\n', r['what'])
        return
    cs, cr = CC.case_from_replay(r['strict']), CC.case_from_replay(r['relaxed'])
    a, b = E.execute(cs), E.execute(cr)
    print('edge   :', r.get('edge'), '\nkey    :', r['key'])
    print('strict :', sorted(a['peptides'] or {}) if a['ok'] else a['exc'])
    print('relaxed:', sorted(b['peptides'] or {}) if b['ok'] else b['exc'])
    if a['ok'] and b['ok']:
        print('lost   :', sorted(set(a['peptides']) - set(b['peptides'])))
        print('added  :', {p: b['peptides'][p] for p in sorted(set(b['peptides']) - set(a['peptides']))})


def main():
    run = vlib.Run('C05', 'exploration', __doc__)
    if run.args.replay:
        replay(run.args.replay)
        sys.exit(0)
    run.rule = ('for every base case (all single variants on R1/R3/R6; all pairs of the quick D2 windows; fusion / '
                'circRNA cases) and every edge of the permissiveness order, both configurations are executed and '
                'compared; non-trivial = one of the two outputs is non-empty.')
    refs = [('R1', 'ENST01'), ('R3', 'ENST03')] + ([('R2', 'ENST02')] if run.tier == 'thorough' else [])
    cache = {}

    def block(r, tx, cn):
        k = (r, cn)
        if k not in cache:
            cases = E.d1_cases(r, tx, CFGS[cn])
            cache[k] = (cases, E.run_block(f'D1/{r}/{cn}', cases, jobs=run.jobs)[0])
        return cache[k]
    for r, tx in refs:
        for s, x, attr in EDGES:
            if run.only and 'edges' not in run.only:
                continue
            cs, rs = block(r, tx, s)
            cr, rr = block(r, tx, x)
            nt = compare(run, f'{r}/{s}->{x}', cs, rs, cr, rr, attr, f'{s}->{x}')
            run.block(f'EDGE/{r}/{s}->{x}', len(cs), nt, True, deviations=1)
    for r, tx, edges in (('R1', 'ENST01', FLAG_EDGES[0:1] + FLAG_EDGES[2:3]), ('R6', 'ENST06', FLAG_EDGES[0:2]), ('R3', 'ENST03', FLAG_EDGES[0:1])):
        for s, x, attr in edges:
            if run.only and 'flags' not in run.only:
                continue
            cs, rs = block(r, tx, s)
            cr, rr = block(r, tx, x)
            nt = compare(run, f'{r}/{s}->{x}', cs, rs, cr, rr, attr, f'+{x}')
            run.block(f'FLAG/{r}/+{x}', len(cs), nt, True, deviations=1)

    # ---- limits under Sec termination: the limit applies to the terminated form, not to the Sec-containing fragment --
    if not run.only or 'sectlimits' in run.only:
        SF = ('--selenocysteine-termination',)
        maxes = (6, 7, 8, 9) if run.tier == 'quick' else (4, 5, 6, 7, 8, 9, 10, 11, 12, 13, 14)
        hi = 70 if run.tier == 'quick' else None
        chain = []
        for m in maxes:
            cfg = E.Cfg(exception=None, misc=1, min_length=4, max_length=m, flags=SF)
            cases = E.d1_cases('R6', 'ENST06', cfg, 0, hi)
            name = f'D1/R6/sect/max{m}' if hi == 70 else f'D1/R6/sect/max{m}/all'
            chain.append((m, cases, E.run_block(name, cases, jobs=run.jobs)[0]))
        for (ms, cs, rs), (mx, cr, rr) in zip(chain, chain[1:]):
            nt = compare(run, f'R6/sect/max{ms}->max{mx}', cs, rs, cr, rr, attr_maxlen, f'sect:max{ms}->max{mx}')
            run.block(f'EDGE/R6/sect/max{ms}->max{mx}', len(cs), nt, True, deviations=1)

    # ---- adding a record: S subset of S+{v} -----------------------------------------------------
    if not run.only or 'add' in run.only:
        for r, tx in (('R1', 'ENST01'), ('R3', 'ENST03')):
            wins = CC.windows(r, tx)
            chosen = vlib.seeded_windows(run.seed, len(wins), 2 if run.tier == 'quick' else len(wins), always=(1,))
            for wi in chosen:
                lo, hi = wins[wi]
                red = run.tier == 'quick'
                pairs = E.d2_cases(r, tx, CC.CFG_NONE, lo, hi, 9, reduced=red)
                pres, _, _ = E.run_block(f'D2/{r}/none/w{wi}' + ('r' if red else ''), pairs, jobs=run.jobs)
                singles = {}
                for c in pairs:
                    for v in c.small:
                        singles.setdefault(v, E.Case(r, small=(v,), cfg=CC.CFG_NONE))
                sl = list(singles.values())
                sres, _, _ = E.run_block(f'ADD/{r}/singles/w{wi}' + ('r' if red else ''), sl, jobs=run.jobs)
                sidx = {c.small[0]: rr for c, rr in zip(sl, sres)}
                nt = 0
                for c, rr in zip(pairs, pres):
                    for v, other in ((c.small[0], c.small[1]), (c.small[1], c.small[0])):
                        rs = sidx[v]
                        if not (rs['ok'] and rr['ok']):
                            continue
                        a, b = set(rs['peptides'] or {}), set(rr['peptides'] or {})
                        nt += 1 if (a or b) else 0
                        lost = a - b
                        if lost:
                            run.violation(f'{c.key()}|add:{other.id()}|lost:{",".join(sorted(lost)[:3])}',
                                          f'adding record {other.id()} to {{{v.id()}}} removed peptides {sorted(lost)[:6]}',
                                          dict(strict=CC.case_to_replay(E.Case(r, small=(v,), cfg=CC.CFG_NONE)), relaxed=CC.case_to_replay(c), edge='add-record'))
                        so = set(sidx[other]['peptides'] or {}) if sidx[other]['ok'] else set()
                        for pep in sorted(b - a - so):
                            if not entries_all(rr, pep, lambda pe: other.id() in pe[1]):
                                run.violation(f'{c.key()}|add:{other.id()}|unattributable:{pep}',
                                              f'peptide {pep} appears only when {other.id()} is added but an entry does not name it: {rr["peptides"][pep]}',
                                              dict(strict=CC.case_to_replay(E.Case(r, small=(v,), cfg=CC.CFG_NONE)), relaxed=CC.case_to_replay(c), edge='add-record'))
                run.block(f'ADD/{r}/w{wi}', 2 * len(pairs), nt, True, deviations=2, window=[lo, hi])

    # ---- more miscleavages on an mRNA_end_NF transcript: two variants in different cleavage products near the clipped
    # 3' end (the truncated last node is reached by the deeper traversal first)
    if not run.only or 'nfend' in run.only:
        ref = panel.get('R5')
        tx = 'ENST05'
        L = ref.tx_len(tx)
        pos = list(range(max(12, L - 96), L - 3, 3 if run.tier == 'thorough' else 6))
        snv = {p: E.small_alphabet(ref, tx, p, reduced=True)[0] for p in pos}
        pairs = [(snv[a], snv[b]) for i, a in enumerate(pos) for b in pos[i + 1:] if b - a >= 6]
        res = {}
        for m in (2, 3, 4):
            cfg = E.Cfg(exception=None, misc=m, max_length=40)
            cases = [E.Case('R5', small=pr, cfg=cfg) for pr in pairs]
            res[m] = (cases, E.run_block(f'NFEND/R5/m{m}', cases, jobs=run.jobs)[0])
        for a, b in ((2, 3), (3, 4)):
            nt = compare(run, f'R5/m{a}->m{b}', res[a][0], res[a][1], res[b][0], res[b][1], None, f'nfend:m{a}->m{b}')
            run.block(f'NFEND/R5/m{a}->m{b}', len(pairs), nt, True, deviations=2, tag='mRNA_end_NF')

    # ---- adding a unit (a fusion / circRNA record, i.e. another GVF file) to a case that has other units ----
    # every later unit of a transcript reads the transcript's variant series; a unit that alters shared state
    # shows up as peptides of the *other* units disappearing when the record is added
    if not run.only or 'addunit' in run.only:
        ref = panel.get('R7')
        tx = 'ENST0A1'
        L = ref.tx_len(tx)
        snvs = [E.small_alphabet(ref, tx, p, reduced=True)[0] for p in range(12, L - 6, 14 if run.tier == 'quick' else 7)]
        allf = CC.fusion_cases('R7', 'ENST0A1', 'ENST0B1', 1, CC.CFG_NONE)
        bps = sorted({f.fusions[0].donor_pos for f in allf})
        pick = [bps[len(bps) * k // 5] for k in (1, 2, 3, 4)]
        fus = []
        for bp in pick:
            fz = [f.fusions[0] for f in allf if f.fusions[0].donor_pos == bp]
            fus.append(fz[len(fz) // 3])
        circs = [c.circs[0] for c in CC.circ_cases('R7', tx, CC.CFG_NONE)]
        pairs = []      # (strict case, relaxed case, added backbone id)
        for v in snvs:
            for c in circs:
                for f in fus:
                    pairs.append((E.Case('R7', small=(v,), circs=(c,), cfg=CC.CFG_NONE),
                                  E.Case('R7', small=(v,), circs=(c,), fusions=(f,), cfg=CC.CFG_NONE), f.id()))
            for f1 in fus:
                for f2 in fus:
                    if f1 is not f2:
                        pairs.append((E.Case('R7', small=(v,), fusions=(f1,), cfg=CC.CFG_NONE),
                                      E.Case('R7', small=(v,), fusions=(f1, f2), cfg=CC.CFG_NONE), f2.id()))
                for c in circs[::2]:
                    pairs.append((E.Case('R7', small=(v,), fusions=(f1,), cfg=CC.CFG_NONE),
                                  E.Case('R7', small=(v,), fusions=(f1,), circs=(c,), cfg=CC.CFG_NONE), c.id()))
        uniq = {}
        for a, b, _ in pairs:
            uniq.setdefault(a.key(), a)
            uniq.setdefault(b.key(), b)
        ul = list(uniq.values())
        ures, _, _ = E.run_block('ADDUNIT/R7', ul, jobs=run.jobs)
        rmap = {c.key(): r for c, r in zip(ul, ures)}
        nt = 0
        for a, b, added in pairs:
            ra, rb = rmap[a.key()], rmap[b.key()]
            if not (ra['ok'] and rb['ok']):
                if ra['ok'] != rb['ok']:
                    run.violation(f'{b.key()}|addunit:{added}|one-crashes', f'strict ok={ra["ok"]} relaxed ok={rb["ok"]}: {ra["exc"] or rb["exc"]}',
                                  dict(strict=CC.case_to_replay(a), relaxed=CC.case_to_replay(b), edge='add-unit'))
                continue
            pa, pb = set(ra['peptides'] or {}), set(rb['peptides'] or {})
            nt += 1 if (pa or pb) else 0
            lost = pa - pb
            if lost:
                run.violation(f'{b.key()}|addunit:{added}|lost:{",".join(sorted(lost)[:3])}',
                              f'adding record {added} removed peptides of the other units: {sorted(lost)[:6]}',
                              dict(strict=CC.case_to_replay(a), relaxed=CC.case_to_replay(b), edge='add-unit'))
            for pep in sorted(pb - pa):
                if not any(e.split('|')[0] == added for e in rb['peptides'][pep]):
                    run.violation(f'{b.key()}|addunit:{added}|unattributable:{pep}',
                                  f'peptide {pep} appears only when {added} is added but no entry is on that backbone: {rb["peptides"][pep]}',
                                  dict(strict=CC.case_to_replay(a), relaxed=CC.case_to_replay(b), edge='add-unit'))
        run.block('ADDUNIT/R7', len(pairs), nt, True, deviations=3, snvs=len(snvs), fusions=len(fus), circs=len(circs))

    # ---- adding a GVF file: A alone vs A + B (both orders; B with / without .idx), records of one transcript ----
    if not run.only or 'addfile' in run.only:
        ref = panel.get('R1')
        L = ref.tx_len('ENST01')
        step = 14 if run.tier == 'quick' else 7
        pos = list(range(20, L - 12, step))
        jobs, meta = [], []
        for i, p in enumerate(pos):
            a = tuple(E.small_alphabet(ref, 'ENST01', p, reduced=True)[:2][(p // 7) % 2:(p // 7) % 2 + 1])
            for qd in (4, 9, 40):
                if p + qd >= L - 3:
                    continue
                b = (E.small_alphabet(ref, 'ENST01', p + qd, reduced=True)[(p // 7 + 1) % 5],)
                jobs.append(('R1', a, (), 'a', False))
                meta.append(('base', a, b, None, None))
                for order in ('ab', 'ba'):
                    for with_idx in (False, True):
                        jobs.append(('R1', a, b, order, with_idx))
                        meta.append(('both', a, b, order, with_idx))
        res = vlib.pmap(addfile_case, jobs, jobs=run.jobs)
        errs = vlib.harness_errors(res)
        if errs:
            raise RuntimeError(errs[0])
        nt = 0
        base = None
        for (kind, a, b, order, with_idx), r in zip(meta, res):
            if kind == 'base':
                base = r
                continue
            key = f'addfile/R1/{a[0].id()}+{b[0].id()}/order={order}/idx={int(with_idx)}'
            rep = dict(kind='addfile', a=[v.gvf() for v in a], b=[v.gvf() for v in b], order=order, with_idx=with_idx)
            if not (base['ok'] and r['ok']):
                if base['ok'] != r['ok']:
                    run.violation(key + '|one-crashes', f'A alone ok={base["ok"]}, with file B ok={r["ok"]}: {base["exc"] or r["exc"]}', rep)
                continue
            nt += 1 if r['seqs'] else 0
            lost = set(base['seqs']) - set(r['seqs'])
            if lost:
                run.violation(key + f'|lost:{",".join(sorted(lost)[:3])}',
                              f'adding GVF file B ({b[0].id()}) removed peptides of file A ({a[0].id()}): {sorted(lost)[:6]}', rep)
        run.block('ADDFILE/R1', len(jobs), nt, True, deviations=2, orders='ab,ba', idx='with/without')

    # ---- one large block, limits disabled: chain of nested sets over 12 variants ---------------------
    if not run.only or 'chain' in run.only:
        ref = panel.get('R1')
        vs = []
        for k, p in enumerate(range(40, 40 + 12 * 7, 7)):
            al = E.small_alphabet(ref, 'ENST01', p, reduced=True)
            vs.append(al[(k * 2) % len(al)])
        sets = [tuple(vs[:k]) for k in range(1, len(vs) + 1)] + [tuple(v for j, v in enumerate(vs) if j != i) for i in range(len(vs))]
        cases = [E.Case('R1', small=s, cfg=CC.CFG_NONE) for s in sets]
        res, _, _ = E.run_block('CHAIN/R1', cases, jobs=run.jobs)
        nt = 0
        for i, (ci, ri) in enumerate(zip(cases, res)):
            for j, (cj, rj) in enumerate(zip(cases, res)):
                if i != j and set(ci.small) < set(cj.small) and ri['ok'] and rj['ok']:
                    nt += 1
                    lost = set(ri['peptides'] or {}) - set(rj['peptides'] or {})
                    if lost:
                        run.violation(f'CHAIN/R1/{len(ci.small)}<{len(cj.small)}/{i}-{j}|lost:{",".join(sorted(lost)[:3])}',
                                      f'a superset of {len(cj.small)} records loses peptides of its subset: {sorted(lost)[:6]}',
                                      dict(strict=CC.case_to_replay(ci), relaxed=CC.case_to_replay(cj), edge='subset'))
            if not ri['ok']:
                run.violation(f'CHAIN/R1/{i}|crash', f'raised {ri["exc"]}', dict(strict=CC.case_to_replay(ci), relaxed=CC.case_to_replay(ci), edge='chain'))
        run.block('CHAIN/R1', len(cases), nt, True, variants=12, note='ordered pairs of nested variant sets compared')

    # ---- restrictive switches -----------------------------------------------------------------------
    if not run.only or 'restrict' in run.only:
        ref = panel.get('R7')
        base = []
        fus = CC.fusion_cases('R7', 'ENST0A1', 'ENST0B1', 11, CC.CFG_NONE)
        circ = CC.circ_cases('R7', 'ENST0A1', CC.CFG_NONE)
        snvs = [E.small_alphabet(ref, 'ENST0A1', p, reduced=True)[0] for p in range(12, 170, 13)]
        for f in fus[::3]:
            for v in snvs[::3]:
                base.append(E.Case('R7', fusions=f.fusions, small=(v,), cfg=CC.CFG_NONE))
        for c in circ:
            for v in snvs:
                base.append(E.Case('R7', circs=c.circs, small=(v,), cfg=CC.CFG_NONE))
        bres, _, _ = E.run_block('RESTRICT/R7/base', base, jobs=run.jobs)
        for flag in ('--noncanonical-transcripts', '--backsplicing-only'):
            cfg = E.Cfg(exception=None, flags=(flag,))
            cases = [E.Case(c.ref, small=c.small, fusions=c.fusions, circs=c.circs, cfg=cfg) for c in base]
            res, _, _ = E.run_block(f'RESTRICT/R7/{flag}', cases, jobs=run.jobs)
            nt = compare(run, flag, cases, res, base, bres, None, f'restrict{flag}')
            run.block(f'RESTRICT/R7/{flag}', len(cases), nt, True, deviations=2)
    run.finish()


if __name__ == '__main__':
    main()
