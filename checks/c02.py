"""C02 — soundness of callVariant: every output sequence lies in MAY (liberal haplotypes, all
documented modifications); binding complexity limits and injected timeouts may only remove peptides
(DESIGN §4 C02)."""
import itertools, sys
import vlib, enginea as E, cv_common as CC, panel, cvoracle as CV


def limit_cases(refname, tx, center, tier):
    """Dense cluster: 8 designed variants within 15 nt; all 4-subsets (thorough: and 5-subsets)."""
    ref = panel.get(refname)
    vs = []
    for k, p in enumerate(range(center, center + 15, 2)):
        al = E.small_alphabet(ref, tx, p, reduced=True)
        vs.append(al[k % len(al)])
    subsets = list(itertools.combinations(vs, 4))
    if tier == 'thorough':
        subsets += list(itertools.combinations(vs, 5))
    return subsets


def timeout_case(job):
    """Run one case with the first k calls of call_variant_peptides_wrapper raising TimeoutError."""
    case, k = job
    import importlib
    M = importlib.import_module('moPepGen.cli.call_variant_peptide')
    orig = M.call_variant_peptides_wrapper
    calls = {'n': 0, 'params': []}

    def wrapper(**kw):
        calls['n'] += 1
        cp = kw['cleavage_params']
        calls['params'].append((cp.max_variants_per_node, cp.additional_variants_per_misc))
        if calls['n'] <= k:
            raise TimeoutError('injected')
        return orig(**kw)
    M.call_variant_peptides_wrapper = wrapper
    try:
        r = E.execute(case)
    finally:
        M.call_variant_peptides_wrapper = orig
    r['calls'] = calls
    return r


def main():
    run = vlib.Run('C02', 'exploration', __doc__)
    if run.args.replay:
        j = CC.replay_case(run.args.replay, 'C02')
        sys.exit(1 if (j['crash'] or j['spurious']) else 0)
    run.rule = ('same enumerated cases as C01 (all <=k-variant sets on the panel) + dense clusters under binding '
                'limits + every placement of 1..3 injected timeouts; non-trivial = output non-empty.')
    run.assume('MAY = union over all non-overlapping subsets of the supplied variants (adjacent allowed, boundary '
               'variants applied or not) of all digestion products within the miscleavage limit, with/without '
               'N-terminal M, open-ended tails, Sec read as U or stop, W>F images when requested')

    def on_case(case, r, j, name):
        if j['crash']:
            return False          # crashes are C01's business
        if j['spurious']:
            run.violation(f'{case.key()}|spurious:{",".join(j["spurious"][:3])}',
                          f'unrealizable peptides {j["spurious"][:6]} (output={j["n_out"]})', CC.case_to_replay(case))
        return bool(j['n_out'])
    CC.run_blocks(run, 'C02', on_case)

    # ---- binding limits ---------------------------------------------------------------------
    if not run.only or any(o.startswith('LIMIT') for o in run.only):
        for refname, tx, center in (('R1', 'ENST01', 60), ('R3', 'ENST03', 40)):
            subsets = limit_cases(refname, tx, center, run.tier)
            unl = [E.Case(refname, small=tuple(s), cfg=E.Cfg(exception=None)) for s in subsets]
            unl_res, _, _ = E.run_block(f'LIMIT/{refname}/unlimited', unl, jobs=run.jobs)
            for mv in (1, 2, 3, 7):
                for av in (0, 1, 2):
                    cases = [E.Case(refname, small=tuple(s), cfg=E.Cfg(exception=None, mvpn=(mv,), avpm=(av,))) for s in subsets]
                    name = f'LIMIT/{refname}/mv{mv}-av{av}'
                    res, _, _ = E.run_block(name, cases, jobs=run.jobs)
                    verdicts = vlib.pmap(CC.judge, list(zip(cases, res)), jobs=run.jobs)
                    nt = 0
                    for c, r, r0, j in zip(cases, res, unl_res, verdicts):
                        if not r['ok']:
                            run.violation(f'{c.key()}|limit-crash', f'raised under limits: {r["exc"]}', CC.case_to_replay(c))
                            continue
                        out = set(r['peptides'] or {})
                        nt += 1 if out else 0
                        if j['spurious']:
                            run.violation(f'{c.key()}|spurious:{",".join(j["spurious"][:3])}',
                                          f'unrealizable under limits mv={mv} av={av}: {j["spurious"][:6]}', CC.case_to_replay(c))
                        if r0['ok']:
                            extra = out - set(r0['peptides'] or {})
                            if extra:
                                run.violation(f'{c.key()}|limit-invents:{",".join(sorted(extra)[:3])}',
                                              f'limited run (mv={mv}, av={av}) reports peptides the unlimited run does not: {sorted(extra)[:6]}',
                                              CC.case_to_replay(c))
                    run.block(name, len(cases), nt, True, deviations='4-5', max_variants_per_node=mv, additional_variants_per_misc=av)

    # ---- injected timeouts ------------------------------------------------------------------
    if not run.only or any(o.startswith('TIMEOUT') for o in run.only):
        subsets = limit_cases('R1', 'ENST01', 60, 'quick')[:20 if run.tier == 'quick' else 70]
        lists = [((7,), (2,)), ((7, 3), (2, 1)), ((3, 2, 1), (2, 1, 0)), ((2,), (0,)), ((-1,), (-1,))]
        jobs = []
        meta = []
        for s in subsets:
            for mv, av in lists:
                for k in (0, 1, 2, 3):
                    c = E.Case('R1', small=tuple(s), cfg=E.Cfg(exception=None, mvpn=mv, avpm=av))
                    jobs.append((c, k))
                    meta.append((mv, av, k))
        res = vlib.pmap(timeout_case, jobs, jobs=run.jobs)
        errs = vlib.harness_errors(res)
        if errs:
            raise RuntimeError(errs[0])
        base = {}
        for (c, k), r in zip(jobs, res):
            if k == 0:
                base[c.key()] = r
        nt = 0
        hit = 0
        for (c, k), (mv, av, _), r in zip(jobs, meta, res):
            hit += 1 if r['calls']['n'] > 0 else 0
            key = f'{c.key()}|timeouts={k}'
            if not r['ok']:
                if 'Failed to finish transcript' in (r['exc'] or ''):
                    nt += 1
                    continue            # the documented give-up
                run.violation(key + '|crash', f'after {k} injected timeouts: {r["exc"]}', CC.case_to_replay(c))
                continue
            # schedule of limits actually used must be non-increasing
            ps = r['calls']['params']
            for (a1, b1), (a2, b2) in zip(ps, ps[1:]):
                if (a1 != -1 and a2 > a1) or (b1 != -1 and b2 > b1):
                    run.violation(key + '|limits-increase', f'retry used larger limits: {ps}', CC.case_to_replay(c))
            out = set(r['peptides'] or {})
            nt += 1 if out else 0
            j = CC.judge((c, r))
            if j['spurious']:
                run.violation(key + f'|spurious:{",".join(j["spurious"][:3])}',
                              f'after {k} timeouts unrealizable peptides {j["spurious"][:6]}', CC.case_to_replay(c))
            b = base[c.key()]
            if b['ok']:
                extra = out - set(b['peptides'] or {})
                if extra:
                    run.violation(key + f'|timeout-invents:{",".join(sorted(extra)[:3])}',
                                  f'run with {k} timeouts (limits {mv}/{av}) reports peptides the run without timeouts does not: {sorted(extra)[:6]}',
                                  CC.case_to_replay(c))
        if hit == 0:
            raise RuntimeError('timeout interposition point was never hit')
        run.block('TIMEOUT/R1', len(jobs), nt, True, timeouts='0..3', limit_lists=len(lists))
    run.finish()


if __name__ == '__main__':
    main()
