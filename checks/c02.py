"""C02 — soundness of callVariant: every output sequence lies in MAY (liberal haplotypes, all
documented modifications); binding complexity limits and injected timeouts may only remove peptides
(DESIGN §4 C02)."""
import itertools, sys
import vlib, enginea as E, cv_common as CC, panel, cvoracle as CV


def limit_cases(refname, tx, center, tier):
    """Dense cluster: 8 designed variants within 15 nt; all 4-subsets (thorough: and 5-subsets)."""
    ref = panel.get(refname)
    vs = []
    for k, p in enumerate(range(center, center + 15, 2)):
        al = E.small_alphabet(ref, tx, p, reduced=True)
        vs.append(al[k % len(al)])
    subsets = list(itertools.combinations(vs, 4))
    if tier == 'thorough':
        subsets += list(itertools.combinations(vs, 5))
    return subsets


def timeout_case(job):
    """Run one case with the first k calls of call_variant_peptides_wrapper raising TimeoutError."""
    case, k = job
    import importlib
    M = importlib.import_module('moPepGen.cli.call_variant_peptide')
    orig = M.call_variant_peptides_wrapper
    calls = {'n': 0, 'params': []}

    def wrapper(**kw):
        calls['n'] += 1
        cp = kw['cleavage_params']
        calls['params'].append((cp.max_variants_per_node, cp.additional_variants_per_misc))
        if calls['n'] <= k:
            raise TimeoutError('injected')
        return orig(**kw)
    M.call_variant_peptides_wrapper = wrapper
    try:
        r = E.execute(case)
    finally:
        M.call_variant_peptides_wrapper = orig
    r['calls'] = calls
    return r


def main():
    run = vlib.Run('C02', 'exploration', __doc__)
    if run.args.replay:
        j = CC.replay_case(run.args.replay, 'C02')
        sys.exit(1 if (j['crash'] or j['spurious']) else 0)
    run.rule = ('same enumerated cases as C01 (all <=k-variant sets on the panel) + dense clusters under binding '
                'limits + every placement of 1..3 injected timeouts; non-trivial = output non-empty.')
    run.assume('MAY = union over all non-overlapping subsets of the supplied variants (adjacent allowed, boundary '
               'variants applied or not) of all digestion products within the miscleavage limit, with/without '
               'N-terminal M, open-ended tails, Sec read as U or stop, W>F images when requested')

    def on_case(case, r, j, name):
        if j['crash']:
            return False          # crashes are C01's business
        if j['spurious']:
            run.violation(f'{case.key()}|spurious:{",".join(j["spurious"][:3])}',
                          f'unrealizable peptides {j["spurious"][:6]} (output={j["n_out"]})', CC.case_to_replay(case))
        return bool(j['n_out'])
    CC.run_blocks(run, 'C02', on_case)
    crashes = {}

    # ---- collapsing parameters: every value must keep the output inside MAY ---------------------
    if not run.only or any(o.startswith('COLLAPSE') for o in run.only):
        cb, base = CC.collapse_cases(run.tier, run.seed)
        for name, cases, info in cb:
            res, _, _ = E.run_block(name, cases, jobs=run.jobs)
            verdicts = vlib.pmap(CC.judge, list(zip(cases, res)), jobs=run.jobs)
            nt = 0
            for c, r, j in zip(cases, res, verdicts):
                if on_case(c, r, j, name):
                    nt += 1
            run.block(name, len(cases), nt, True, **info)

    # ---- binding limits ---------------------------------------------------------------------
    if not run.only or any(o.startswith('LIMIT') for o in run.only):
        for refname, tx, center in (('R1', 'ENST01', 60), ('R3', 'ENST03', 40)):
            subsets = limit_cases(refname, tx, center, run.tier)
            unl = [E.Case(refname, small=tuple(s), cfg=E.Cfg(exception=None)) for s in subsets]
            unl_res, _, _ = E.run_block(f'LIMIT/{refname}/unlimited', unl, jobs=run.jobs)
            for mv in (1, 2, 3, 7):
                for av in (0, 1, 2):
                    cases = [E.Case(refname, small=tuple(s), cfg=E.Cfg(exception=None, mvpn=(mv,), avpm=(av,))) for s in subsets]
                    name = f'LIMIT/{refname}/mv{mv}-av{av}'
                    res, _, _ = E.run_block(name, cases, jobs=run.jobs)
                    verdicts = vlib.pmap(CC.judge, list(zip(cases, res)), jobs=run.jobs)
                    nt = 0
                    for c, r, r0, j in zip(cases, res, unl_res, verdicts):
                        if not r['ok']:
                            crashes[r['exc'][:80]] = crashes.get(r['exc'][:80], 0) + 1      # see LIMITFUS below
                            continue
                        out = set(r['peptides'] or {})
                        nt += 1 if out else 0
                        if j['spurious']:
                            run.violation(f'{c.key()}|spurious:{",".join(j["spurious"][:3])}',
                                          f'unrealizable under limits mv={mv} av={av}: {j["spurious"][:6]}', CC.case_to_replay(c))
                        if r0['ok']:
                            extra = out - set(r0['peptides'] or {})
                            if extra:
                                run.violation(f'{c.key()}|limit-invents:{",".join(sorted(extra)[:3])}',
                                              f'limited run (mv={mv}, av={av}) reports peptides the unlimited run does not: {sorted(extra)[:6]}',
                                              CC.case_to_replay(c))
                    run.block(name, len(cases), nt, True, deviations='4-5', max_variants_per_node=mv, additional_variants_per_misc=av)

    # ---- binding limits across a fusion junction ------------------------------------------------
    # donor variants in the last codons before the breakpoint + an accepter variant just after it: routes that span
    # the junction are the ones skipped when --max-variants-per-node binds (skipping must not leave fragments)
    if not run.only or any(o.startswith('LIMITFUS') for o in run.only):
        ref = panel.get('R7')
        allf = CC.fusion_cases('R7', 'ENST0A1', 'ENST0B1', 1, E.Cfg(exception=None))
        bps = sorted({f.fusions[0].donor_pos for f in allf})
        nf = 8
        chosen = []
        for k in range(1, nf + 1):
            bp = bps[len(bps) * k // (nf + 1)]
            fz = [f.fusions[0] for f in allf if f.fusions[0].donor_pos == bp]
            chosen.append(fz[(len(fz) * k) // (nf + 1)])
        if run.tier == 'quick':
            chosen = [chosen[1], chosen[4], chosen[6]]          # a subset of the thorough tier's fusions
        sets = []
        for f in chosen:
            dtx, atx = f.donor_tx, f.acc_tx
            dlast = ref.gene_to_tx(dtx, f.donor_pos - 1)
            afirst = ref.gene_to_tx(atx, f.acc_pos)
            dv = [E.small_alphabet(ref, dtx, p, reduced=True)[0] for p in range(max(0, dlast - 8), dlast + 1)]
            av_ = [E.small_alphabet(ref, atx, q, reduced=True)[0] for q in range(afirst, min(afirst + 9, ref.tx_len(atx)))]
            for d in dv:
                for a in av_:
                    sets.append((f, (d, a)))
            for i, d1 in enumerate(dv):
                for d2 in dv[i + 1:i + 6]:
                    for a in av_[::2]:
                        sets.append((f, (d1, d2, a)))
        unl = [E.Case('R7', fusions=(f,), small=vs, cfg=E.Cfg(exception=None)) for f, vs in sets]
        unl_res, _, _ = E.run_block('LIMITFUS/R7/unlimited', unl, jobs=run.jobs)
        for mv, av in ((1, 0), (1, 1), (2, 0), (2, 2)):
            cases = [E.Case('R7', fusions=(f,), small=vs, cfg=E.Cfg(exception=None, mvpn=(mv,), avpm=(av,))) for f, vs in sets]
            name = f'LIMITFUS/R7/mv{mv}-av{av}'
            res, _, _ = E.run_block(name, cases, jobs=run.jobs)
            verdicts = vlib.pmap(CC.judge, list(zip(cases, res)), jobs=run.jobs)
            nt = 0
            for c, r, r0, j in zip(cases, res, unl_res, verdicts):
                if not r['ok']:
                    # a run that raises under binding limits writes no FASTA, so it reports nothing unrealizable: outside
                    # what C02 states (and C01 only speaks about non-binding limits); counted, not reported
                    crashes[r['exc'][:80]] = crashes.get(r['exc'][:80], 0) + 1
                    continue
                out = set(r['peptides'] or {})
                nt += 1 if out else 0
                if j['spurious']:
                    run.violation(f'{c.key()}|spurious:{",".join(j["spurious"][:3])}',
                                  f'unrealizable under limits mv={mv} av={av}: {j["spurious"][:6]}', CC.case_to_replay(c))
                if r0['ok']:
                    extra = out - set(r0['peptides'] or {})
                    if extra:
                        run.violation(f'{c.key()}|limit-invents:{",".join(sorted(extra)[:3])}',
                                      f'limited run (mv={mv}, av={av}) reports peptides the unlimited run does not: {sorted(extra)[:6]}',
                                      CC.case_to_replay(c))
            run.block(name, len(cases), nt, True, deviations='3-4', fusions=len(chosen), max_variants_per_node=mv,
                      additional_variants_per_misc=av)

    # ---- injected timeouts ------------------------------------------------------------------
    if not run.only or any(o.startswith('TIMEOUT') for o in run.only):
        subsets = limit_cases('R1', 'ENST01', 60, 'quick')[:20 if run.tier == 'quick' else 70]
        lists = [((7,), (2,)), ((7, 3), (2, 1)), ((3, 2, 1), (2, 1, 0)), ((2,), (0,)), ((-1,), (-1,))]
        jobs = []
        meta = []
        for s in subsets:
            for mv, av in lists:
                for k in (0, 1, 2, 3):
                    c = E.Case('R1', small=tuple(s), cfg=E.Cfg(exception=None, mvpn=mv, avpm=av))
                    jobs.append((c, k))
                    meta.append((mv, av, k))
        res = vlib.pmap(timeout_case, jobs, jobs=run.jobs)
        errs = vlib.harness_errors(res)
        if errs:
            raise RuntimeError(errs[0])
        base = {}
        for (c, k), r in zip(jobs, res):
            if k == 0:
                base[c.key()] = r
        nt = 0
        hit = 0
        for (c, k), (mv, av, _), r in zip(jobs, meta, res):
            hit += 1 if r['calls']['n'] > 0 else 0
            key = f'{c.key()}|timeouts={k}'
            if not r['ok']:
                if 'Failed to finish transcript' in (r['exc'] or ''):
                    nt += 1
                    continue            # the documented give-up
                run.violation(key + '|crash', f'after {k} injected timeouts: {r["exc"]}', CC.case_to_replay(c))
                continue
            # schedule of limits actually used must be non-increasing
            ps = r['calls']['params']
            for (a1, b1), (a2, b2) in zip(ps, ps[1:]):
                if (a1 != -1 and a2 > a1) or (b1 != -1 and b2 > b1):
                    run.violation(key + '|limits-increase', f'retry used larger limits: {ps}', CC.case_to_replay(c))
            out = set(r['peptides'] or {})
            nt += 1 if out else 0
            j = CC.judge((c, r))
            if j['spurious']:
                run.violation(key + f'|spurious:{",".join(j["spurious"][:3])}',
                              f'after {k} timeouts unrealizable peptides {j["spurious"][:6]}', CC.case_to_replay(c))
            b = base[c.key()]
            if b['ok']:
                extra = out - set(b['peptides'] or {})
                if extra:
                    run.violation(key + f'|timeout-invents:{",".join(sorted(extra)[:3])}',
                                  f'run with {k} timeouts (limits {mv}/{av}) reports peptides the run without timeouts does not: {sorted(extra)[:6]}',
                                  CC.case_to_replay(c))
        if hit == 0:
            raise RuntimeError('timeout interposition point was never hit')
        run.block('TIMEOUT/R1', len(jobs), nt, True, timeouts='0..3', limit_lists=len(lists))
    run.extra['observations_outside_property'] = dict(runs_that_raise_under_binding_limits=crashes)
    run.finish()


if __name__ == '__main__':
    main()
