"""C08 — callNovelORF equals the definitional ORF digest.

Bounded exhaustive input enumeration: every token string of length <= k over the codon alphabet
{ATG, TAA, AAA, CGT, CCT, GCT, TGG, ATT} + frame-shifting spacers {G, GC}, embedded in fixed
flanks, is the only non-coding (lncRNA) transcript of a two-transcript reference (the other is a
fixed coding transcript that supplies the canonical pool and the --coding-novel-orf target).  The
real command is run in-process on each reference x option set and its peptide FASTA and ORF FASTA
are compared with a string-level derivation (lib/c08lib.py, lib/oracle.py): every ATG in three
frames -> translate to the next stop or the transcript end -> digest -> limits -> minus canonical
pool (+ W>F forms).  Two-sided where the statement is silent (N-terminal M removal, order of W>F
substitution and digestion): MUST <= output <= MAY.
"""
import itertools, json, shutil, sys
from pathlib import Path
import vlib, drive, refgen, oracle as O
import c08lib as L

# ---- flank sets ------------------------------------------------------------------------------
FLANKS = {
    'std': (L.LEFT, L.TOKENS, L.RIGHT),
    # no left flank: the token string starts at transcript position 0 (an ORF whose start is the first base)
    'nol': ('', L.TOKENS, L.RIGHT),
    # rules with a multi-residue look-behind: tokens/flanks chosen so that the rule's window can be
    # completed across the start codon (the graph digests in the context of upstream residues)
    'casp3': ('GCATGGCTGAT', ['ATG', 'GAT', 'CAA', 'GCT', 'AAA', 'TAA', 'G', 'GC'], 'CAAGATGCTGCTAAATAAGC'),
    'entk': ('GCATGGCTGAT', ['ATG', 'GAT', 'GAA', 'AAA', 'GCT', 'TAA', 'G', 'GC'], 'GATAAAGCTGCTCGTTAAGC'),
    'peps': ('GCATGGCTGCT', ['ATG', 'TTT', 'CTG', 'AAA', 'CCT', 'GCT', 'TAA', 'G', 'GC'], 'GCTTTTGCTGCTAAATAAGC'),
    'thr': ('GCATGGCTGGT', ['ATG', 'GGT', 'CGT', 'CCT', 'GCT', 'GAT', 'TAA', 'G', 'GC'], 'GGTCGTGGTGCTCCTCGTGCTGCTTAAGC'),
}
SPECIAL_RULE = {'casp3': 'caspase 3', 'entk': 'enterokinase', 'peps': 'pepsin ph1.3', 'thr': 'thrombin'}


def tname(t):
    return O.CODON_TABLE[t] if len(t) == 3 else t.lower()


def case_id(fs, toks):
    return fs + ':' + ('.'.join(tname(t) for t in toks) if toks else 'empty')


def cfg_str(cfg):
    cl = cfg['cl'] if isinstance(cfg['cl'], str) else '/'.join(map(str, cfg['cl']))
    return (f"cl={cl};orf={cfg.get('orf', 'max')};w2f={int(bool(cfg.get('w2f')))};"
            f"coding={int(bool(cfg.get('coding')))};bio={cfg.get('bio', 'none')};"
            f"mintx={cfg.get('mintx')};layout={cfg.get('layout', 'plus1')}" + (';pool=diff' if cfg.get('pool') else ''))


CFG_A = dict(cl='T0', orf='max', w2f=True, coding=False)
CFG_B = dict(cl='TX', orf='min', w2f=False, coding=True)
CFG_C = dict(cl='LC', orf='max', w2f=True, coding=False)
CFG_D = dict(cl='T1', orf='min', w2f=True, coding=True)
OPT_PRODUCT = [dict(cl=c, orf=o, w2f=w, coding=False) for c in ('T0', 'TX', 'LC')
               for o in ('max', 'min') for w in (False, True)]
SEL_PRODUCT = [dict(cl='T0', orf='max', w2f=False, coding=c, bio=b, mintx=m)
               for c in (False, True) for b in L.BIOTYPE_FILES for m in (None, -1, 0, 1)]
LAYOUT_CFGS = [dict(cl='T0', orf='max', w2f=True, coding=False, layout=l) for l in ('minus2', 'plus2')] + \
              [dict(cl='TX', orf='min', w2f=False, coding=True, layout=l) for l in ('minus2', 'plus2')]


POOL_CFGS = [dict(cl='T0', orf='max', w2f=False, coding=False, pool='diff'),   # no W>F: images of pool members are MAY
             dict(cl='TX', orf='min', w2f=False, coding=False, pool='diff')]


def special_cfgs(fs):
    r = SPECIAL_RULE[fs]
    return [dict(cl=(r, None, 1, 2, 25, 100.), orf='max', w2f=False, coding=False),
            dict(cl=(r, None, 0, 2, 25, 100.), orf='min', w2f=False, coding=True)]


def dedup(cfgs):
    seen, out = set(), []
    for c in cfgs:
        s = cfg_str(c)
        if s not in seen:
            seen.add(s)
            out.append(c)
    return out


def strings(tokens, k):
    return itertools.product(tokens, repeat=k)


def plan(run):
    """-> list of jobs (block, sub, fs, toks, [cfgs]).  `sub` == 'base' for everything that every
    run (any tier, any seed) executes; other sub-blocks are complete slices of the thorough space."""
    jobs = []
    std = FLANKS['std'][1]
    # base: k<=3: option product + selection product (k<=2) + layouts (k<=2) + core cfgs; k=4: cfg A, B
    for k in range(0, 5):
        for toks in strings(std, k):
            if k <= 3:
                jobs.append(('options-k<=3', 'base', 'std', toks, dedup(OPT_PRODUCT + [CFG_A, CFG_B, CFG_C, CFG_D])))
            else:
                jobs.append(('core-k=4', 'base', 'std', toks, [CFG_A, CFG_B]))
            if k <= 2:
                jobs.append(('selection-k<=2', 'base', 'std', toks, SEL_PRODUCT))
                jobs.append(('layout-k<=2', 'base', 'std', toks, LAYOUT_CFGS))
    for fs in SPECIAL_RULE:
        for k in range(0, 4):
            for toks in strings(FLANKS[fs][1], k):
                jobs.append(('lookbehind-k<=3', 'base', fs, toks, special_cfgs(fs)))
    for k in range(1, 4):
        for toks in strings(std, k):
            jobs.append(('noleft-k<=3', 'base', 'nol', toks, [CFG_A, CFG_B]))
    # pool independence ("minus the canonical pool" is a set difference): same transcript, two canonical pools
    for k in range(0, 4 if run.tier != 'thorough' else 5):
        for toks in strings(std, k):
            jobs.append(('pool-independence-k<=3' if k <= 3 else 'pool-independence-k=4',
                         'base' if k <= 3 else f'pool4/{tname(toks[0])}', 'std', toks, POOL_CFGS))
    # thorough space beyond base, in complete sub-blocks
    subs5 = [(a, b) for a in std for b in std]
    if run.tier == 'thorough':
        chosen5 = list(range(len(subs5)))
    else:
        chosen5 = vlib.seeded_windows(run.seed, len(subs5), 4, always=())
    for i in chosen5:
        a, b = subs5[i]
        for rest in strings(std, 3):
            jobs.append(('core-k=5', f'k5/{tname(a)}.{tname(b)}', 'std', (a, b) + rest, [CFG_A, CFG_B]))
    if run.tier == 'thorough':
        for toks in strings(std, 4):
            jobs.append(('options-k=4', f'opt4/{tname(toks[0])}', 'std', toks,
                         [c for c in dedup(OPT_PRODUCT + [CFG_C, CFG_D]) if cfg_str(c) not in (cfg_str(CFG_A), cfg_str(CFG_B))]))
        for fs in SPECIAL_RULE:
            for toks in strings(FLANKS[fs][1], 4):
                jobs.append(('lookbehind-k=4', f'lb4/{fs}/{tname(toks[0])}', fs, toks, special_cfgs(fs)))
    return jobs, len(chosen5), len(subs5)


def run_case(fs, toks, cfg, d=None):
    left, _, right = FLANKS[fs]
    nc = L.nc_seq(toks, left, right)
    d = d or (vlib.worker_dir() / 'c')
    layout = cfg.get('layout', 'plus1')
    L.build_ref(nc, layout).write(d)
    seqs = {L.TX_C: L.CODING, L.TX_N: nc}
    res = L.run_tool(d, cfg, len(nc), d / 'o.fasta', d / 'orf.fasta')
    return seqs, res


_EMPTY = {}


def work(job):
    block, sub, fs, toks, cfgs = job
    left, _, right = FLANKS[fs]
    nc = L.nc_seq(toks, left, right)
    d = vlib.worker_dir() / 'c'
    seqs = {L.TX_C: L.CODING, L.TX_N: nc}
    out = []
    written = None
    for cfg in cfgs:
        if cfg.get('pool') == 'diff':
            out.append(work_pool(fs, toks, nc, cfg, d)[:3])
            written = None
            continue
        layout = cfg.get('layout', 'plus1')
        if written != layout:
            shutil.rmtree(d, ignore_errors=True)
            L.build_ref(nc, layout).write(d)
            written = layout
        res = L.run_tool(d, cfg, len(nc), d / 'o.fasta', d / 'orf.fasta')
        F, must_nc = L.evaluate(seqs, cfg, res)
        ek = (fs, cfg_str(cfg))
        if ek not in _EMPTY:
            cl = L.cleavage_of(cfg)
            e = L.nc_seq((), left, right)
            _EMPTY[ek] = L.tx_expected(e, cl, L.canon_pool(cl), bool(cfg.get('w2f')))[0] \
                if L.TX_N in L.selected(cfg, len(e)) else set()
        out.append((cfg, F, bool(must_nc - _EMPTY[ek])))
    return block, sub, fs, toks, out


def nc_peptides(res):
    return {s for h, s in res['peptides'] if any(e.startswith(L.TX_N + '|') for e in h.split(' '))}


def work_pool(fs, toks, nc, cfg, d, verbose=False):
    """The statement's 'minus the canonical pool' is a set difference: what is written for a transcript
    may depend on the pool only through the removal of pool members.  The same non-coding transcript is
    run next to two different coding transcripts (pools A, B); Out_A - B must equal Out_B - A."""
    cl = L.cleavage_of(cfg)
    A, B = L.canon_pool(cl, False), L.canon_pool(cl, True)
    outs = []
    for alt in (False, True):
        shutil.rmtree(d, ignore_errors=True)
        L.build_ref(nc, 'plus1', alt_coding=alt).write(d)
        res = L.run_tool(d, cfg, len(nc), d / 'o.fasta', d / 'orf.fasta')
        if not res['ok'] or res['peptides'] is None:
            return cfg, [('pool-dependence/crash', dict(exc=res['exc'], alt=alt))], False, set()
        outs.append(nc_peptides(res))
    oa, ob = outs
    if verbose:
        print('pool A run:', sorted(oa)); print('pool B run:', sorted(ob))
    F = []
    for name, lost_in, present_in, own in (('A', oa, ob, A), ('B', ob, oa, B)):
        for p in sorted(present_in - lost_in - own):
            kind = 'm-form-in-pool' if ('M' + p) in own else 'other'
            F.append((f'pool-dependence/lost/{kind}', dict(peptide=p, absent_with_pool=name)))
    diff = (oa - ob) | (ob - oa)
    if toks:
        ek = ('pooldiff', fs, cfg_str(cfg))
        if ek not in _EMPTY:
            _EMPTY[ek] = work_pool(fs, (), L.nc_seq((), *FLANKS[fs][::2]), cfg, d)[3]
        nt = bool(diff - _EMPTY[ek])      # the tokens give a peptide whose presence depends on the pool
    else:
        nt = bool(diff)
    return cfg, F, nt, diff


def replay(path):
    r = json.load(open(path))
    print('replaying', r['key'])
    toks, fs, cfg = tuple(r['tokens']), r['flanks'], r['cfg']
    if not isinstance(cfg['cl'], str):
        cfg['cl'] = tuple(cfg['cl'])
    if cfg.get('pool') == 'diff':
        left, _, right = FLANKS[fs]
        nc = L.nc_seq(toks, left, right)
        print('non-coding transcript:', nc, ' coding proteins:', L.C_PROT, '/', L.C_PROT_ALT)
        F = work_pool(fs, toks, nc, cfg, vlib.worker_dir() / 'replay', verbose=True)[1]
        for m, det in F:
            print('  ', m, det)
        return 1 if F else 0
    d = vlib.worker_dir() / 'replay'
    seqs, res = run_case(fs, toks, cfg, d)
    print('non-coding transcript:', seqs[L.TX_N])
    print('options:', cfg_str(cfg))
    cl = L.cleavage_of(cfg)
    for tx in (L.TX_C, L.TX_N):
        if tx in L.selected(cfg, len(seqs[L.TX_N])):
            must, may, _ = L.tx_expected(seqs[tx], cl, L.canon_pool(cl), bool(cfg.get('w2f')))
            print(f'expected {tx}: MUST={sorted(must)} MAY-only={sorted(may - must)}')
        else:
            print(f'expected {tx}: not selected -> no peptides, no ORFs')
    if not res['ok']:
        print('got: exception', res['exc'])
    else:
        print('got peptides:', sorted((s, h) for h, s in res['peptides']))
        print('got ORFs    :', sorted((h, s) for h, s in res['orfs']))
    F, _ = L.evaluate(seqs, cfg, res)
    print('findings:')
    for m, det in F:
        print('  ', m, det)
    return 1 if [m for m, _ in F if not m.startswith('INFO:')] else 0


def main():
    run = vlib.Run('C08', 'exploration', __doc__)
    if run.args.replay:
        sys.exit(replay(run.args.replay))
    run.rule = ('every token string of length <= k over 8 codons + 2 frame-shifting spacers, in fixed flanks, as '
                'the non-coding transcript; per string a fixed list of option sets (complete products on the '
                'short strings); non-trivial = the enumerated transcript is selected and its MUST set contains a '
                'peptide that the empty token string does not give (i.e. the tokens matter)')
    run.assume('N-terminal methionine removal of novel-ORF products is neither in the statement nor in the docs: '
               'M-removed forms are allowed (MAY) but not required')
    run.assume('W>F forms: required only when both readings (substitute in the peptide / substitute before '
               'digestion) give the peptide; allowed when either does')
    run.assume('the biotype and length filters apply to non-coding transcripts only; a user exclusion list '
               'replaces the built-in one')
    jobs, n5, N5 = plan(run)
    if run.only:
        jobs = [j for j in jobs if j[0] in run.only]
    res = vlib.pmap(work, jobs, jobs=run.jobs)
    errs = vlib.harness_errors(res)
    if errs:
        raise RuntimeError(errs[0])
    blocks = {}
    info = {}
    mech = {}     # (mechanism, sub) -> (sortkey, case, cfg, detail, fs, toks)
    for block, sub, fs, toks, out in res:
        b = blocks.setdefault(block, [0, 0, 0])
        b[2] += 1
        tix = tuple(FLANKS[fs][1].index(t) for t in toks)
        for cfg, F, nt in out:
            b[0] += 1
            b[1] += 1 if nt else 0
            for m, det in F:
                if m.startswith('INFO:'):
                    info[m] = info.get(m, 0) + 1
                    continue
                sk = (len(toks), fs != 'std', fs, tix, cfg_str(cfg))
                cur = mech.get((m, sub))
                if cur is None or sk < cur[0]:
                    mech[(m, sub)] = (sk, case_id(fs, toks), cfg, det, fs, toks)
    base_mechs = {m for (m, sub) in mech if sub == 'base'}
    for (m, sub), (sk, cid, cfg, det, fs, toks) in sorted(mech.items(), key=lambda kv: (kv[0][1] != 'base', kv[0])):
        if sub != 'base' and m in base_mechs:
            continue     # same mechanism already reported with its minimal case in the base space
        key = f'{m}@{cid}|{cfg_str(cfg)}' if sub == 'base' else f'{m}@{sub}@{cid}|{cfg_str(cfg)}'
        run.violation(key, f'{m}: tokens={cid} options={cfg_str(cfg)} detail={det}',
                      dict(tokens=list(toks), flanks=fs, cfg=cfg, detail=det, mechanism=m))
    order = ['options-k<=3', 'selection-k<=2', 'layout-k<=2', 'core-k=4', 'lookbehind-k<=3', 'noleft-k<=3',
             'pool-independence-k<=3', 'core-k=5', 'options-k=4', 'lookbehind-k=4', 'pool-independence-k=4']
    for name in order:
        if name in blocks:
            ev, nt, ns = blocks[name]
            extra = {}
            if name == 'core-k=5':
                extra = dict(sub_blocks_run=n5, sub_blocks_total=N5)
            run.block(name, ev, nt, exhaustive=True, token_strings=ns, **extra)
    run.sample(dict(tokens='std:M.A.K', transcript=L.nc_seq(['ATG', 'GCT', 'AAA']), options=cfg_str(CFG_A),
                    must=sorted(L.tx_expected(L.nc_seq(['ATG', 'GCT', 'AAA']), L.cleavage_of(CFG_A),
                                              L.canon_pool(L.cleavage_of(CFG_A)), True)[0])))
    run.extra['flanks'] = {k: dict(left=v[0], tokens=v[1], right=v[2]) for k, v in FLANKS.items()}
    run.extra['coding_transcript'] = L.CODING
    run.extra['observations_outside_property'] = info
    run.finish()


if __name__ == '__main__':
    main()
