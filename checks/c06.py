"""C06 — callVariant's peptide set is independent of --threads (incl. batches with skipped transcripts),
of how records are split into GVF files and the order of files, of .idx files, of raw vs indexed
reference and of the Python hash seed (DESIGN §4 C06).

E-STATE: the dispatch loop is driven through all (n transcripts, skip pattern, thread count)
configurations with the process pool replaced by an ordered in-process map; every configuration is
compared with the threads=1 run and every non-skipped transcript must be dispatched exactly once."""
import importlib, itertools, os, shutil, subprocess, sys
from pathlib import Path
import vlib, drive, enginea as E, cv_common as CC, panel, refgen, cvoracle as CV

REF = 'R10'
TXS = ['ENST10', 'ENST11', 'ENST12', 'ENST13', 'ENST14', 'ENST15']


class OrderedPool:
    """Stand-in for pathos ParallelPool: same interface, ordered, in-process."""
    log = []

    def __init__(self, ncpus=None, **kw):
        self.ncpus = ncpus

    def map(self, f, xs):
        xs = list(xs)
        OrderedPool.log.append([x['tx_id'] for x in xs])
        return [f(x) for x in xs]


def records_for(ref, tx, dispatched, mechanism):
    """GVF lines making `tx` either dispatched or skipped by the chosen mechanism."""
    g = ref.gene_of[tx]['gene_id']
    gs = ref.gene_seq(g)
    ex = ref.exons_gene(tx)
    c = ref.cds_tx(tx)
    p_tx = (c[0] + 20) if c else 25
    gp = ref.tx_to_gene(tx, p_tx)
    alt = 'A' if gs[gp] != 'A' else 'C'
    small, circ = [], []
    if mechanism == 'noncanonical':
        small.append(refgen.small_line(g, tx, gp, gs[gp], alt))
        if dispatched:
            circ.append(refgen.circ_line(g, tx, [ex[1]]))
    else:   # 'intronic': a transcript whose only record lies in its intron has nothing to call
        if dispatched:
            small.append(refgen.small_line(g, tx, gp, gs[gp], alt))
        else:
            ip = ex[0][1] + 5
            ialt = 'A' if gs[ip] != 'A' else 'C'
            small.append(refgen.small_line(g, tx, ip, gs[ip], ialt))
    return small, circ


def dispatch_case(job):
    n, pattern, threads, mechanism = job
    ref = panel.get(REF)
    d = vlib.worker_dir() / 'c06'
    d.mkdir(exist_ok=True)
    small, circ = [], []
    for i in range(n):
        s, c = records_for(ref, TXS[i], bool(pattern >> i & 1), mechanism)
        small += s
        circ += c
    files = []
    refgen.write_gvf(d / 'v.gvf', small)
    files.append(d / 'v.gvf')
    if circ:
        refgen.write_gvf(d / 'c.gvf', circ, 'parseCIRCexplorer', 'circRNA')
        files.append(d / 'c.gvf')
    M = importlib.import_module('moPepGen.cli.call_variant_peptide')
    orig_pool, orig_red = M.ParallelPool, M.caller_reducer
    OrderedPool.log = []
    seen = []

    def reducer(dispatch):
        seen.append(dispatch['tx_id'])
        return orig_red(dispatch)
    M.ParallelPool, M.caller_reducer = OrderedPool, reducer
    try:
        flags = ['--noncanonical-transcripts'] if mechanism == 'noncanonical' else []
        r = drive.call_variant(d / 'o.fasta', files, refdir=E.ref_dir(REF), cleavage=drive.cleavage_argv(exception=None),
                               flags=flags, threads=threads)
    finally:
        M.ParallelPool, M.caller_reducer = orig_pool, orig_red
    pairs = None
    if r['ok'] and r['peptides'] is not None:
        pairs = sorted((s, tuple(sorted(h))) for s, h in r['peptides'].items())
    return dict(ok=r['ok'], exc=r['exc'], pairs=pairs, dispatched=seen, batches=list(OrderedPool.log))


def part_dispatch(run):
    nmax = 5 if run.tier == 'quick' else 6
    tmax = 6 if run.tier == 'quick' else 7
    jobs = [(n, pat, t, mech) for mech in ('noncanonical', 'intronic') for n in range(1, nmax + 1)
            for pat in range(2 ** n) for t in range(1, tmax + 1)]
    res = vlib.pmap(dispatch_case, jobs, jobs=run.jobs)
    errs = vlib.harness_errors(res)
    if errs:
        raise RuntimeError(errs[0])
    base = {(n, pat, mech): r for (n, pat, t, mech), r in zip(jobs, res) if t == 1}
    states, transitions, nt = set(), 0, 0
    for (n, pat, t, mech), r in zip(jobs, res):
        key = f'dispatch/{mech}/n{n}/pattern{pat:0{n}b}/threads{t}'
        rep = dict(kind='dispatch', n=n, pattern=pat, threads=t, mechanism=mech)
        exp_disp = sorted(TXS[i] for i in range(n) if pat >> i & 1)
        transitions += n
        pos = 0
        for b in (r['batches'] or [[x] for x in r['dispatched']]):
            pos += len(b)
            states.add((n, pos, len(b), t))
        if not r['ok']:
            run.violation(key + '|crash', f'raised {r["exc"]}', rep)
            continue
        if r['pairs']:
            nt += 1
        if sorted(r['dispatched']) != exp_disp:
            run.violation(key + '|dispatch', f'dispatched {sorted(r["dispatched"])} expected exactly once each {exp_disp}', rep)
        b = base[(n, pat, mech)]
        if b['ok']:
            a_, b_ = {x[0] for x in r['pairs'] or []}, {x[0] for x in b['pairs'] or []}
            if a_ != b_:
                run.violation(key + '|differs-from-threads1',
                              f'peptide sequences differ from --threads 1: {len(b_ - a_)} missing, '
                              f'{len(a_ - b_)} extra; e.g. {sorted(b_ - a_)[:3]}', rep)
    run.block('dispatch-loop', len(jobs), nt, True, max_transcripts=nmax, max_threads=tmax,
              skip_mechanisms='--noncanonical-transcripts, intronic-only records')
    run.sample(dict(kind='dispatch', n=3, pattern='101', threads=2, mechanism='noncanonical'))
    return len(states), transitions, len(jobs)


# ---- file layouts --------------------------------------------------------------------------------
def set_partitions(items, kmax):
    if not items:
        yield []
        return
    first, rest = items[0], items[1:]
    for p in set_partitions(rest, kmax):
        for i in range(len(p)):
            yield p[:i] + [[first] + p[i]] + p[i + 1:]
        if len(p) < kmax:
            yield [[first]] + p


def layout_records(ref):
    out = []
    for tx, ptx, k in (('ENST10', 30, 0), ('ENST10', 33, 4), ('ENST11', 40, 1), ('ENST14', 25, 2), ('ENST10', 60, 5)):
        al = E.small_alphabet(ref, tx, ptx, reduced=True)
        out.append(al[k % len(al)])
    return out


def layout_case(job):
    layout, with_idx, dup = job
    ref = panel.get(REF)
    recs = layout_records(ref)
    d = vlib.worker_dir() / 'c06l'
    shutil.rmtree(d, ignore_errors=True)
    d.mkdir()
    files = []
    for fi, idxs in enumerate(layout):
        f = d / f'f{fi}.gvf'
        refgen.write_gvf(f, [recs[i].gvf() for i in idxs])
        files.append(f)
        if with_idx:
            r = drive.run(['indexGVF', '-i', f, '--quiet'])
            if not r['ok']:
                return dict(ok=False, exc='indexGVF: ' + str(r['exc']), pairs=None)
    r = drive.call_variant(d / 'o.fasta', files, refdir=E.ref_dir(REF), cleavage=drive.cleavage_argv(exception=None))
    pairs = None
    if r['ok'] and r['peptides'] is not None:
        pairs = sorted((s, tuple(sorted(x.rsplit('|', 1)[0] for x in h))) for s, h in r['peptides'].items())
    return dict(ok=r['ok'], exc=r['exc'], pairs=pairs)


def part_layout(run):
    n = 5
    jobs = []
    for p in set_partitions(list(range(n)), 3):
        for perm in itertools.permutations(range(len(p))):
            files = [p[i] for i in perm]
            for rev in (False, True):
                lay = [list(reversed(f)) if rev else list(f) for f in files]
                for with_idx in ((False, True) if run.tier == 'thorough' or len(p) <= 2 else (False,)):
                    jobs.append((lay, with_idx, False))
    # duplicates of one record across two files / within a file
    for i in range(n):
        jobs.append(([[0, 1, 2, 3, 4], [i]], False, True))
        jobs.append(([[0, 1, 2, 3, 4, i]], True, True))
    res = vlib.pmap(layout_case, jobs, jobs=run.jobs)
    errs = vlib.harness_errors(res)
    if errs:
        raise RuntimeError(errs[0])
    base = layout_case(([[0, 1, 2, 3, 4]], False, False))
    nt = 0
    for (lay, with_idx, dup), r in zip(jobs, res):
        key = f'layout/{"|".join(",".join(map(str, f)) for f in lay)}/idx={int(with_idx)}'
        rep = dict(kind='layout', layout=lay, with_idx=with_idx)
        if not r['ok']:
            run.violation(key + '|crash', f'raised {r["exc"]}', rep)
            continue
        nt += 1 if r['pairs'] else 0
        a_, b_ = {x[0] for x in r['pairs']}, {x[0] for x in base['pairs']}
        if a_ != b_:
            run.violation(key + '|differs', f'peptide sequences differ from the single-file run: missing {sorted(b_ - a_)[:3]} extra {sorted(a_ - b_)[:3]}', rep)
    run.block('file-layouts', len(jobs), nt, True, records=n, max_files=3)
    run.sample(dict(kind='layout', layout=[[3, 0], [4, 1, 2]], with_idx=True))
    return len(jobs)


# ---- raw reference vs index directory -----------------------------------------------------------------
def refform_case(job):
    cfgname, cargv, case_i = job
    ref = panel.get('R1')
    d = vlib.worker_dir() / f'c06r_{cfgname}'
    idx = d / 'idx'
    if not (d / 'ready').exists():
        shutil.rmtree(d, ignore_errors=True)
        d.mkdir(parents=True)
        r = drive.run(['generateIndex', '-o', idx, '--quiet'] + drive.ref_argv(E.ref_dir('R1')) + cargv)
        if not r['ok']:
            return dict(ok=False, exc='generateIndex: ' + str(r['exc']))
        # the directory then receives a second pool (updateIndex with other parameters): the first one must still be served
        other = ['--cleavage-rule', 'arg-c', '--miscleavage', 0, '--min-length', 6]
        r = drive.run(['updateIndex', '--index-dir', idx, '--quiet'] + other)
        if not r['ok']:
            return dict(ok=False, exc='updateIndex: ' + str(r['exc']))
        (d / 'ready').write_text('1')
    vs = E.small_alphabet(ref, 'ENST01', 30 + 7 * case_i, reduced=True)
    v = vs[case_i % len(vs)]
    refgen.write_gvf(d / 'v.gvf', [v.gvf()])
    outs = []
    for kw in (dict(refdir=E.ref_dir('R1')), dict(index_dir=idx)):
        r = drive.call_variant(d / 'o.fasta', [d / 'v.gvf'], cleavage=cargv, **kw)
        if not r['ok']:
            return dict(ok=False, exc=r['exc'])
        outs.append(sorted(r['peptides']))
    return dict(ok=True, exc=None, raw=outs[0], indexed=outs[1])


def part_refform(run):
    cfgs = {
        'default': ['--min-length', 5],
        'auto': ['--cleavage-exception', 'auto', '--min-length', 5],
        'none': ['--cleavage-exception', 'None', '--min-length', 5],
        'exc': ['--cleavage-exception', 'trypsin_exception', '--miscleavage', 1],
        'lysc': ['--cleavage-rule', 'lysc', '--miscleavage', 1, '--min-length', 5],
    }
    ncase = 8 if run.tier == 'quick' else 18
    jobs = [(cn, ca, i) for cn, ca in cfgs.items() for i in range(ncase)]
    # one worker per configuration keeps its index directory: group by configuration
    res = vlib.pmap(refform_case, jobs, jobs=min(run.jobs, 5), chunk=ncase)
    errs = vlib.harness_errors(res)
    if errs:
        raise RuntimeError(errs[0])
    nt = 0
    for (cn, ca, i), r in zip(jobs, res):
        key = f'refform/{cn}/case{i}'
        rep = dict(kind='refform', cfg=cn, argv=[str(x) for x in ca], case=i)
        if not r['ok']:
            run.violation(key + '|crash', f'raised {r["exc"]}', rep)
            continue
        nt += 1 if r['raw'] or r['indexed'] else 0
        if r['raw'] != r['indexed']:
            run.violation(key + '|differs', f'raw-file run and index-directory run differ: only raw {sorted(set(r["raw"]) - set(r["indexed"]))[:4]} '
                          f'only indexed {sorted(set(r["indexed"]) - set(r["raw"]))[:4]}', rep)
    run.block('raw-vs-indexed-reference', len(jobs), nt, True, configurations=len(cfgs))
    return len(jobs)


# ---- hash seeds and the real process pool (subprocess level) ----------------------------------------
def cli_case(job):
    name, lines_by_file, seed, threads = job
    d = vlib.worker_dir() / f'c06s'
    shutil.rmtree(d, ignore_errors=True)
    d.mkdir()
    files = []
    for fn, (parser, source, lines) in lines_by_file.items():
        refgen.write_gvf(d / fn, lines, parser, source)
        files.append(str(d / fn))
    env = dict(os.environ)
    if seed == 'random':
        env.pop('PYTHONHASHSEED', None)
        env['PYTHONHASHSEED'] = 'random'
    else:
        env['PYTHONHASHSEED'] = str(seed)
    rd = E.ref_dir(REF)
    cmd = ['/venv/bin/python', '-m', 'moPepGen.cli', 'callVariant', '-i'] + files + ['-o', str(d / 'o.fasta'),
           '-g', str(rd / 'genome.fasta'), '-a', str(rd / 'annotation.gtf'), '-p', str(rd / 'proteome.fasta'),
           '--cleavage-exception', 'None', '--threads', str(threads), '--quiet']
    p = subprocess.run(cmd, env=env, capture_output=True, text=True, timeout=600)
    if p.returncode != 0 or not (d / 'o.fasta').exists():
        return dict(ok=False, exc=(p.stderr or p.stdout)[-400:], pairs=None)
    pep = {}
    for h, s in drive.read_fasta(d / 'o.fasta'):
        pep.setdefault(s, []).extend(h.split(' '))
    return dict(ok=True, exc=None, pairs=sorted((s, tuple(sorted(x.rsplit('|', 1)[0] for x in h))) for s, h in pep.items()))


def seed_inputs(ref, k):
    out = {}
    for c in range(k):
        small, circ, fus = [], [], []
        for i, tx in enumerate(TXS[:4]):
            g = ref.gene_of[tx]['gene_id']
            for ptx in (20 + c, 27 + 2 * c, 50 + c):
                al = E.small_alphabet(ref, tx, ptx, reduced=True)
                small.append(al[(c + i) % len(al)].gvf())
            ex = ref.exons_gene(tx)
            circ.append(refgen.circ_line(g, tx, [ex[0]]))
            circ.append(refgen.circ_line(g, tx, [ex[1]]))
            circ.append(refgen.circ_line(g, tx, [ex[0], ex[1]]))
        d0 = ref.tx_to_gene('ENST10', 40 + c) + 1
        for acc, q in (('ENST11', 30), ('ENST12', 44), ('ENST11', 61)):
            fus.append(refgen.fusion_line(ref, 'ENST10', d0, acc, ref.tx_to_gene(acc, q + c)))
        out[f'multi{c}'] = {'v.gvf': ('parseVEP', 'gSNP', small), 'c.gvf': ('parseCIRCexplorer', 'circRNA', circ),
                            'f.gvf': ('parseSTARFusion', 'Fusion', fus)}
    return out


def part_seeds(run):
    ref = panel.get(REF)
    inputs = seed_inputs(ref, 3 if run.tier == 'quick' else 10)
    seeds = [0, 1, 2, 3, 'random']
    jobs = [(n, lf, s, 1) for n, lf in inputs.items() for s in seeds]
    pool_jobs = [(n, lf, 0, t) for n, lf in list(inputs.items())[:2 if run.tier == 'quick' else 4] for t in (2, 3)]
    res = vlib.pmap(cli_case, jobs + pool_jobs, jobs=run.jobs, chunk=1)
    errs = vlib.harness_errors(res)
    if errs:
        raise RuntimeError(errs[0])
    base = {n: r for (n, lf, s, t), r in zip(jobs, res) if s == 0}
    nt = 0
    label_diffs = [0]
    for (n, lf, s, t), r in zip(jobs + pool_jobs, res):
        key = f'cli/{n}/seed={s}/threads={t}'
        rep = dict(kind='cli', name=n, seed=s, threads=t)
        if not r['ok']:
            run.violation(key + '|crash', f'CLI failed: {r["exc"]}', rep)
            continue
        nt += 1 if r['pairs'] else 0
        b = base[n]
        if b['ok']:
            a_, b_ = {x[0] for x in r['pairs']}, {x[0] for x in b['pairs']}
            if a_ != b_:
                run.violation(key + '|differs', f'peptide sequences differ from PYTHONHASHSEED=0 --threads 1: missing {sorted(b_ - a_)[:4]} extra {sorted(a_ - b_)[:4]}', rep)
            elif r['pairs'] != b['pairs']:
                label_diffs[0] += 1
    run.block('hash-seeds-and-real-pool', len(jobs) + len(pool_jobs), nt, True, seeds='0,1,2,3,random', real_pool_threads='2,3',
              runs_with_same_sequences_but_different_header_entries=label_diffs[0])
    return len(jobs) + len(pool_jobs)


def order_case(job):
    import dataclasses
    case, salt = job
    c = dataclasses.replace(case, cfg=dataclasses.replace(case.cfg, order_salt=salt))
    r = E.execute(c)
    return dict(ok=r['ok'], exc=r['exc'], seqs=sorted(r['peptides'] or {}),
                entries=sorted((s, tuple(sorted(x.rsplit('|', 1)[0] for x in h))) for s, h in (r['peptides'] or {}).items()))


def part_order(run):
    """Set-iteration order as an explicit axis: graph nodes/edges hash by identity, so their order in sets follows
    allocation addresses; lib/ordctl.py replaces the identity hash by a salted creation counter.  The peptide set
    must be the same for every salt (ascending, descending and two scrambled orders)."""
    q = run.tier == 'quick'
    cases = E.d2_cases('R3', 'ENST03', CC.CFG_NONE, 24, 32 if q else 48, 9, reduced=True)
    cases += E.d2_cases('R1', 'ENST01', CC.CFG_EXC, 84, 90 if q else 96, 9, reduced=True)
    cases += CC.circ_cases('R8', 'ENST08', CC.CFG_NONE, with_snv=True)[::9 if q else 2]
    cases += CC.fusion_cases('R7', 'ENST0A1', 'ENST0B1', 9 if q else 4, CC.CFG_NONE)
    recs = CC.as_records('R8', 'ENST08')
    cases += [E.Case('R8', as_recs=(a,), small=(v,), cfg=CC.CFG_NONE) for a in recs
              for p in range(0, panel.get('R8').tx_len('ENST08'), 9 if q else 3)
              for v in E.small_alphabet(panel.get('R8'), 'ENST08', p, reduced=True)[:2]]
    salts = (0, 1, 2) if q else (0, 1, 2, 7)
    if q:
        cases = [c for c in cases if c.fusions or c.circs or c.as_recs] + [c for c in cases if not (c.fusions or c.circs or c.as_recs)][run.seed % 3::3]
    jobs = [(c, s) for c in cases for s in salts]
    res = vlib.pmap(order_case, jobs, jobs=run.jobs)
    errs = vlib.harness_errors(res)
    if errs:
        raise RuntimeError(errs[0])
    nt = lab = 0
    for i, c in enumerate(cases):
        rr = res[len(salts) * i:len(salts) * (i + 1)]
        base = rr[0]
        if base['seqs']:
            nt += 1
        for s, r in zip(salts[1:], rr[1:]):
            if (r['ok'], r['seqs']) != (base['ok'], base['seqs']):
                a, b = set(base['seqs']), set(r['seqs'])
                run.violation(f'order/{c.key()}/salt={s}',
                              f'peptide set depends on set-iteration order: salt 0 ok={base["ok"]} vs salt {s} ok={r["ok"]} {r["exc"] or ""}; '
                              f'only salt 0: {sorted(a - b)[:4]} only salt {s}: {sorted(b - a)[:4]}',
                              dict(kind='order', case=CC.case_to_replay(c), salt=s))
                break
        else:
            if any(r['entries'] != base['entries'] for r in rr[1:]):
                lab += 1
    run.block('set-iteration-order', len(jobs), nt, True, salts=list(salts), cases=len(cases),
              cases_with_same_sequences_but_different_header_entries=lab)
    return len(jobs)


# ---- isolation between transcripts ----------------------------------------------------------------
def isolation_cases():
    """X = an isoform of the three-isoform gene of R7 with an intron-retaining Insertion (donor = the first 12 nt of the
    intron after one of its exons); Y = another isoform with ONE SNV that is intronic for Y and lies inside X's donor
    segment (gene coordinates).  Y's record cannot contribute to X, and Y itself has nothing to call."""
    import cvoracle as CV
    ref = panel.get('R7')
    txs = ['ENST0A1', 'ENST0A2', 'ENST0A3']
    g = ref.gene_of[txs[0]]['gene_id']
    gs = ref.gene_seq(g)
    out = []
    for x in txs:
        exx = ref.exons_gene(x)
        for k in range(len(exx) - 1):
            pos, ds, de = exx[k][1] - 1, exx[k][1], min(exx[k][1] + 12, exx[k + 1][0])
            rec = CV.AS('Insertion', g, x, pos, pos + 1, ds, de, vid=f'RI-{pos}-{ds}-{de}')
            for y in txs:
                if y == x:
                    continue
                exy = ref.exons_gene(y)
                for p in range(ds, de):
                    if any(a <= p < b for a, b in exy) or not (exy[0][0] <= p < exy[-1][1]):
                        continue        # exonic for Y or outside Y
                    alt = 'A' if gs[p] != 'A' else 'C'
                    out.append((x, y, rec, CV.Var(g, y, p, p + 1, gs[p], alt)))
    return out


def isolation_case(job):
    i, threads = job
    x, y, rec, v = isolation_cases()[i]
    M = importlib.import_module('moPepGen.cli.call_variant_peptide')
    orig_pool = M.ParallelPool
    M.ParallelPool = OrderedPool
    try:
        alone = E.execute(E.Case('R7', as_recs=(rec,), cfg=E.Cfg(exception=None, threads=threads)))
        both = E.execute(E.Case('R7', as_recs=(rec,), small=(v,), cfg=E.Cfg(exception=None, threads=threads)))
    finally:
        M.ParallelPool = orig_pool
    return dict(alone=alone, both=both)


def part_isolation(run):
    cases = isolation_cases()
    tl = (1, 2, 3)
    jobs = [(i, t) for i in range(len(cases)) for t in tl]
    res = vlib.pmap(isolation_case, jobs, jobs=run.jobs)
    errs = vlib.harness_errors(res)
    if errs:
        raise RuntimeError(errs[0])
    nt = 0
    base = {}
    for (i, t), r in zip(jobs, res):
        x, y, rec, v = cases[i]
        key = f'isolation/{x}:{rec.vid}+{y}:{v.id()}/threads{t}'
        rep = dict(kind='isolation', index=i, threads=t)
        if not r['alone']['ok'] or not r['both']['ok']:
            if r['alone']['ok'] != r['both']['ok']:
                run.violation(key + '|one-crashes', f"alone ok={r['alone']['ok']} with the other transcript's record ok={r['both']['ok']}: "
                              f"{r['alone']['exc'] or r['both']['exc']}", rep)
            continue
        a, b = r['alone']['peptides'] or {}, r['both']['peptides'] or {}
        if a or b:
            nt += 1
        if set(a) != set(b):
            run.violation(key + '|foreign-record-changes-output',
                          f"{y}'s intronic SNV {v.id()} changes the peptides of {x} ({rec.vid}): extra {sorted(set(b) - set(a))[:4]} "
                          f"missing {sorted(set(a) - set(b))[:4]}", rep)
        if t == 1:
            base[i] = set(b)
        elif i in base and set(b) != base[i]:
            run.violation(key + '|differs-from-threads1', f'peptides differ from --threads 1: extra {sorted(set(b) - base[i])[:4]} '
                          f'missing {sorted(base[i] - set(b))[:4]}', rep)
    run.block('isolation-between-isoforms', 2 * len(jobs), nt, True, cases=len(cases), threads='1,2,3')
    return len(jobs)


def replay(path):
    import json
    r = json.load(open(path))
    print(r['key'], '\n', r['what'])
    if r['kind'] == 'dispatch':
        a = dispatch_case((r['n'], r['pattern'], r['threads'], r['mechanism']))
        b = dispatch_case((r['n'], r['pattern'], 1, r['mechanism']))
        print('dispatched:', a['dispatched'], 'batches:', a['batches'], 'ok:', a['ok'], a['exc'])
        print('pairs threads=N:', len(a['pairs'] or []), ' pairs threads=1:', len(b['pairs'] or []))
    elif r['kind'] == 'layout':
        a = layout_case((r['layout'], r['with_idx'], False))
        b = layout_case(([[0, 1, 2, 3, 4]], False, False))
        print('this:', a['pairs'] if a['ok'] else a['exc'], '\nbase:', b['pairs'])
    elif r['kind'] == 'isolation':
        x, y, rec, v = isolation_cases()[r['index']]
        o = isolation_case((r['index'], r['threads']))
        print(f"X={x} record {rec.vid}; Y={y} intronic SNV {v.id()}; threads={r['threads']}")
        print('X alone        :', sorted(o['alone']['peptides'] or {}) if o['alone']['ok'] else o['alone']['exc'])
        print("with Y's record:", sorted(o['both']['peptides'] or {}) if o['both']['ok'] else o['both']['exc'])
    elif r['kind'] == 'order':
        c = CC.case_from_replay(r['case'])
        for salt in (0, r['salt']):
            print('salt', salt, order_case((c, salt))['seqs'])
    else:
        print('re-run the check with --only to reproduce')


def main():
    run = vlib.Run('C06', 'model_checking', __doc__)
    if run.args.replay:
        replay(run.args.replay)
        sys.exit(0)
    run.rule = ('dispatch loop: every (n<=6 transcripts, skip pattern in 2^n, threads in 1..7) for two skip mechanisms; '
                'layouts: every set partition of 5 records into <=3 files x every file order x two record orders x idx; '
                'reference form: 5 parameter sets x cases; hash seeds 0,1,2,3,random and the real ParallelPool at the CLI; '
                'isolation: every (isoform X with an intron-retaining record, other isoform Y with one intronic SNV inside X\'s '
                'donor segment) x threads 1..3, with and without Y\'s record; '
                'non-trivial = the output has peptides.')
    run.assume('pathos ParallelPool.map returns results in submission order; the exhaustive dispatch exploration replaces it '
               'by an ordered in-process map and a small CLI block runs the real pool')
    states = transitions = traces = 0
    if run.want('dispatch'):
        s, t, n = part_dispatch(run)
        states, transitions, traces = states + s, transitions + t, traces + n
    if run.want('layout'):
        n = part_layout(run)
        states, transitions, traces = states + n, transitions + n, traces + n
    if run.want('refform'):
        traces += part_refform(run)
    if run.want('seeds'):
        traces += part_seeds(run)
    if run.want('order'):
        traces += part_order(run)
    if run.want('isolation'):
        traces += part_isolation(run)
    run.finish(states=max(states, 1), transitions=max(transitions, 1), traces=traces)


if __name__ == '__main__':
    main()
