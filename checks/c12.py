"""C12 — index directory: each parameter set maps to its own, faithful data.

Explicit-state breadth-first search over index-directory operation histories.  A state is a
directory snapshot (canonicalised and deduplicated); every transition runs the REAL command
(generateIndex / updateIndex / common.load_references) on a private copy of the predecessor's
directory while a small dictionary model is stepped in lock-step; a fixed list of invariants is
evaluated after every transition.  Nothing is sampled: from every reached state every enabled
operation of the alphabet is executed.

Blocks
  history-bfs   alphabet gen/gen --force (two references), upd/upd --force, load for each
                cleavage-parameter set; tamper(python | biopython | mopepgen below minimum |
                mopepgen == minimum) and untamper on metadata.json.
  gtf-symlink   small alphabet around generateIndex --gtf-symlink x --force (to its fixpoint).
  invalid-protein  generateIndex --invalid-protein-as-noncoding, then updateIndex (to its fixpoint).
  pair-lattice  all parameter sets of a 2^6 lattice (enzyme, exception spelling, miscleavage,
                min/max length, min mw): gen(A) then upd(B); lookup-by-parameters must keep A and B
                apart for every ordered pair (both tiers).
"""
import hashlib, json, os, pickle, shutil, sys
from pathlib import Path
import vlib, drive, refgen, oracle as O

MINIMAL = '1.3.0'          # documented minimal index version (moPepGen/version.py MINIMAL_VERSION)
BAD = dict(py=('python', '2.7.18'), bio=('biopython', '1.70'), mpg=('mopepgen', '1.2.9'),
           mpgmin=('mopepgen', MINIMAL))
VALID_STATUS = ('ok', 'mpgmin')

# name -> (rule, exception spelling on the CLI (None = flag omitted, i.e. default 'auto'), misc,
#          min_length, max_length, min_mw)
PSETS = {
    'P1': ('trypsin', None, 2, 4, 25, 300.),
    'P2': ('trypsin', 'None', 2, 4, 25, 300.),
    'P3': ('lysc', None, 0, 4, 25, 300.),
    'P4': ('trypsin', 'None', 1, 4, 25, 300.),
    'P1x': ('trypsin', 'trypsin_exception', 2, 4, 25, 300.),     # other spelling of P1
}
LATTICE = [(r, e, m, a, b, w) for r in ('trypsin', 'lysc') for e in (None, 'None') for m in (0, 2)
           for a in (4, 5) for b in (25, 9) for w in (300., 500.)]


def pname(p):
    for k, v in PSETS.items():
        if v == tuple(p):
            return k
    r, e, m, a, b, w = p
    return f'{r}:{"default" if e is None else "exc=" + e}:{m}:{a}:{b}:{w:g}'


def mkey(p):
    """Registration key of a parameter set: the CLI spelling resolved the way the tool documents it
    ('auto' -> trypsin_exception for trypsin, no exception otherwise).  A literal 'None' stays a
    spelling of its own (the tool keeps it apart from the resolved default; that is conservative)."""
    r, e, m, a, b, w = p
    if e is None or e == 'auto':
        e = 'trypsin_exception' if r == 'trypsin' else None
    return (r, e, int(m), int(a), int(b), float(w))


def cargv(p):
    r, e, m, a, b, w = p
    out = ['--cleavage-rule', r, '--miscleavage', m, '--min-length', a, '--max-length', b, '--min-mw', w]
    if e is not None:
        out += ['--cleavage-exception', e]
    return out


# ---- references ----------------------------------------------------------------------------
REFDEF = {
    # gene, tx, protein (None = non-coding), strand, intron after this many tx bases (0 = none)
    'R': [('ENSG01', 'ENST01', 'MACKHAAAAKAAARRHAAAK', 1, 0),
          ('ENSG02', 'ENST02', 'MIAAKIAAIRRRAAAAKCKYAAR', -1, 30)],
    'R2': [('ENSG03', 'ENST03', None, 1, 0),
           ('ENSG01', 'ENST01', 'MAAACKDAAAKAAACRKHAAAR', -1, 24),
           ('ENSG04', 'ENST04', 'MAAAKPAAARAAWKPAAAMRPAAK', 1, 0)],
    # a proteome with an invalid protein (internal '*'); reference name 'R3i' = the same files given to
    # generateIndex together with --invalid-protein-as-noncoding
    'R3': [('ENSG01', 'ENST01', 'MACKHAAAAKAAARRHAAAK', 1, 0),
           ('ENSG05', 'ENST05', 'MAAWKCCDEK*AAAAKLLLR', 1, 0)],
}
BFS_REFS = ('R', 'R2')


def base(ref):
    return ref[:-1] if ref.endswith('i') else ref


def build_ref(name):
    genome = 'ACGTACGTAC' if name == 'R' else 'TTGACCATGCAATC'
    genes = []
    for gid, tid, aa, strand, k in REFDEF[name]:
        if aa:
            cds = O.back_translate(aa)
            tx = 'GGCACC' + cds + 'TAA' + 'GGCTTAGCC'
        else:
            cds = None
            tx = 'GGCATTGCAGGCTTAGCCGGAGCATTCGGA'
        intron = 'GTAAGTCCCTTTTCAG' if k else ''
        pre = tx[:k] + intron + tx[k:] if k else tx
        L = len(pre)
        start = len(genome)
        genome += (pre if strand == 1 else O.revcomp(pre)) + 'ACGTTGCAAC'

        def g(a, b):     # tx-orientation interval on `pre` -> genomic half-open interval
            return (start + a, start + b) if strand == 1 else (start + L - b, start + L - a)
        ex_pre = [(0, k), (k + len(intron), L)] if k else [(0, L)]
        exons = sorted(g(a, b) for a, b in ex_pre)

        def tx2pre(x):
            return x if (not k or x < k) else x + len(intron)
        t = dict(tx_id=tid, exons=exons, cds=None)
        if aa:
            a, b = tx2pre(6), tx2pre(6 + len(cds) - 1) + 1
            t['cds'] = g(a, b)
        genes.append(dict(gene_id=gid, strand=strand, biotype='protein_coding' if aa else 'lncRNA',
                          transcripts=[t]))
    R = refgen.Ref(genome, genes, name=name)
    for gid, tid, aa, strand, k in REFDEF[name]:
        if aa:
            assert R.protein(tid) == aa, (name, tid, R.protein(tid), aa)
    return R


_refs = {}


def ref_files(name):
    """Private copy of the reference files for this process (an operation that writes through a
    symlink must not disturb other workers); re-written when found modified."""
    name = base(name)
    key = (os.getpid(), name)
    d = vlib.worker_dir() / 'refs' / name
    if key not in _refs:
        R = build_ref(name)
        R.write(d)
        _refs[key] = {f: (d / f).read_bytes() for f in ('genome.fasta', 'annotation.gtf', 'proteome.fasta')}
    return d


def refs_modified(name):
    d = ref_files(name)
    return [f for f, b in _refs[(os.getpid(), name)].items()
            if (d / f).is_symlink() or not (d / f).exists() or (d / f).read_bytes() != b]


def refs_check_restore(name):
    """-> list of source files that no longer have their original bytes (and restore them)."""
    d = ref_files(name)
    bad = []
    for f, b in _refs[(os.getpid(), name)].items():
        p = d / f
        if p.is_symlink() or not p.exists() or p.read_bytes() != b:
            bad.append(f)
            if p.is_symlink() or p.exists():
                p.unlink()
            p.write_bytes(b)
    return bad


_expect = {}


def expected_ref(name):
    """What the source files say, by independent parsing (no moPepGen code)."""
    if name in _expect:
        return _expect[name]
    d = ref_files(name)
    genome = {h.split()[0]: s for h, s in drive.read_fasta(d / 'genome.fasta')}
    prot = {}
    for h, s in drive.read_fasta(d / 'proteome.fasta'):
        f = h.split('|')
        prot[f[1]] = dict(seq=s, protein_id=f[0], gene_id=f[2])
    genes, txs = {}, {}
    for line in (d / 'annotation.gtf').read_text().splitlines():
        if not line or line.startswith('#'):
            continue
        c = line.split('\t')
        attr = {}
        for kv in c[8].strip().strip(';').split(';'):
            kv = kv.strip()
            if kv:
                k, v = kv.split(' ', 1)
                attr.setdefault(k, v.strip('"'))
        s, e, st = int(c[3]) - 1, int(c[4]), (1 if c[6] == '+' else -1)
        if c[2] == 'gene':
            genes[attr['gene_id']] = dict(chrom=c[0], span=(s, e), strand=st, transcripts=set())
        else:
            t = txs.setdefault(attr['transcript_id'], dict(gene=attr['gene_id'], exons=[], cds=[], span=None, strand=st))
            genes[attr['gene_id']]['transcripts'].add(attr['transcript_id'])
            if c[2] == 'transcript':
                t['span'] = (s, e)
            elif c[2] == 'exon':
                t['exons'].append((s, e))
            elif c[2] == 'CDS':
                t['cds'].append((s, e))
    for t in txs.values():
        t['exons'].sort()
        t['cds'].sort()
    invalid = {t for t, v in prot.items() if '*' in v['seq']} if name.endswith('i') else set()
    out = dict(genome=genome, proteome=prot, genes=genes, txs=txs, invalid=invalid,
               coding={t for t in txs if t in prot and t not in invalid},
               proteins={t: v['seq'] for t, v in prot.items() if t not in invalid})
    _expect[name] = out
    return out


_pools = {}


def oracle_pool(ref, key):
    k = (ref, tuple(key))
    if k not in _pools:
        r, e, m, a, b, w = key
        _pools[k] = frozenset(O.canonical_pool(expected_ref(ref)['proteins'], O.Cleavage(r, e, m, a, b, w)))
    return _pools[k]


def current_versions():
    import Bio, moPepGen
    return dict(python='.'.join(str(x) for x in sys.version_info[:3]), biopython=Bio.__version__,
                mopepgen=moPepGen.__version__)


# ---- directory snapshot ----------------------------------------------------------------------
def _h(b):
    if isinstance(b, str):
        b = b.encode()
    return hashlib.sha256(b).hexdigest()[:20]


def snapshot(idx: Path):
    """Canonical form of an index directory: relpath -> digest.  Pickles are digested through
    their unpickled canonical content (pickled sets / dicts need not be byte-stable)."""
    idx = Path(idx)
    if not idx.exists():
        return {'<ABSENT>': ''}
    snap = {}
    for root, dirs, files in os.walk(idx):
        dirs.sort()
        for f in sorted(files):
            p = Path(root) / f
            rel = str(p.relative_to(idx))
            if p.is_symlink():
                tgt = Path(os.readlink(p))
                body = _h(p.read_bytes()) if p.exists() else 'dangling'
                snap[rel] = f'symlink:{tgt.parent.name}/{tgt.name}:{body}'
                continue
            raw = p.read_bytes()
            dig = None
            try:
                if f == 'metadata.json':
                    d = json.loads(raw)
                    d['canonical_pools'] = sorted(d.get('canonical_pools', []), key=lambda it: (it.get('index'), it.get('filename')))
                    dig = 'json:' + json.dumps(d, sort_keys=True)
                elif f.endswith('.pkl'):
                    obj = pickle.loads(raw)
                    if isinstance(obj, (set, frozenset)):
                        dig = 'set:%d:' % len(obj) + _h('\n'.join(sorted(map(str, obj))))
                    elif isinstance(obj, dict):
                        items = sorted((str(k), str(v.seq), str(getattr(v, 'id', '')), str(getattr(v, 'description', '')),
                                        str(getattr(v, 'transcript_id', '')), str(getattr(v, 'gene_id', '')),
                                        str(getattr(v, 'protein_id', ''))) for k, v in obj.items())
                        dig = 'dict:%d:' % len(items) + _h(repr(items))
                elif f.endswith('_gene.idx'):
                    lines = []
                    for ln in raw.decode().splitlines():
                        c = ln.split('\t')
                        if len(c) == 4:
                            c[3] = ','.join(sorted(c[3].split(',')))
                        lines.append('\t'.join(c))
                    dig = 'idx:' + _h('\n'.join(lines))
            except Exception:
                dig = None
            snap[rel] = dig if dig is not None else 'raw:' + _h(raw)
    if not snap:
        snap['<EMPTY-DIR>'] = ''
    return snap


def snap_id(snap):
    return _h(json.dumps(snap, sort_keys=True))


def snap_diff(a, b):
    out = []
    for k in sorted(set(a) | set(b)):
        if a.get(k) != b.get(k):
            out.append(f'{k}: {str(a.get(k))[:60]} -> {str(b.get(k))[:60]}')
    return out


def copy_state(src, dst):
    """Copy a stored state directory; symlinks into a reference directory are re-pointed to this
    process' private copy of that reference."""
    src, dst = Path(src), Path(dst)
    if dst.exists() or dst.is_symlink():
        shutil.rmtree(dst)
    if not src.exists():
        return
    shutil.copytree(src, dst, symlinks=True)
    for root, dirs, files in os.walk(dst):
        for f in files:
            p = Path(root) / f
            if p.is_symlink():
                tgt = Path(os.readlink(p))
                if tgt.parent.name in REFDEF:
                    p.unlink()
                    os.symlink(ref_files(tgt.parent.name) / tgt.name, p)


# ---- model ----------------------------------------------------------------------------------
def op_name(op):
    k = op[0]
    if k == 'gen':
        _, p, ref, force, sym = op
        return f"gen{'F' if force else ''}{'S' if sym else ''}({p},{ref})"
    if k == 'upd':
        return f"upd{'F' if op[2] else ''}({op[1]})"
    if k == 'load':
        return f'load({op[1]})'
    if k == 'tamper':
        return f'tamper({op[1]})'
    return 'untamper'


def model_str(m):
    if m is None:
        return 'ABSENT'
    return f"{m['ref']}[{','.join(kname(k_) for k_ in m['pools'])}]{m['ver']}"


_knames = {}


def kname(key):
    key = tuple(key)
    if not _knames:
        for n, p in PSETS.items():
            _knames.setdefault(mkey(p), n)
    if key in _knames:
        return _knames[key]
    r, e, m, a, b, w = key
    return f'{r}:{"no-exception" if e is None else repr(e)}:{m}:{a}:{b}:{w:g}'


def enabled(m, op):
    if op[0] == 'tamper':
        return m is not None and m['ver'] != op[1]
    if op[0] == 'untamper':
        return m is not None and m['ver'] != 'ok'
    return True


def model_step(m, op, params):
    """-> (expected outcome, model after, directory must be unchanged).
    outcomes: 'ok' | 'SystemExit' | 'InvalidIndexError' | 'ValueError' | 'error' (any exception)."""
    k = op[0]
    if k == 'gen':
        _, p, ref, force, sym = op
        if m is not None and not force:
            return 'SystemExit', m, True
        return 'ok', dict(ref=ref, pools=[list(mkey(params[p]))], ver='ok'), False
    if k == 'upd':
        _, p, force = op
        key = list(mkey(params[p]))
        if m is None:
            return 'error', None, True
        if m['ver'] not in VALID_STATUS:
            return 'InvalidIndexError', m, True
        if key in m['pools']:
            return ('ok' if force else 'SystemExit'), m, True
        return 'ok', dict(m, pools=m['pools'] + [key]), False
    if k == 'load':
        key = list(mkey(params[op[1]]))
        if m is None:
            return 'error', None, True
        if m['ver'] not in VALID_STATUS:
            return 'InvalidIndexError', m, True
        if key not in m['pools']:
            return 'ValueError', m, True
        return 'ok', m, True
    if k == 'tamper':
        return 'ok', dict(m, ver=op[1]), False
    if k == 'untamper':
        return 'ok', dict(m, ver='ok'), False
    raise ValueError(op)


# ---- implementation side -------------------------------------------------------------------
GRAPH_ARGV = ['--max-variants-per-node', 3, '--additional-variants-per-misc', 1, '--min-nodes-to-collapse', 10,
              '--naa-to-collapse', 3]


def impl_load(idx, p, graph_argv=()):
    """load_references the way callVariant does.  -> (outcome, pool|None, (genome, anno, proteome)|None, text)"""
    from moPepGen.cli import common
    from moPepGen import params as mparams
    args = drive.parse(['callVariant', '-i', 'x.gvf', '-o', 'o.fasta', '--index-dir', idx] + cargv(p) + list(graph_argv))
    cp = mparams.CleavageParams(
        enzyme=args.cleavage_rule, exception=args.cleavage_exception, miscleavage=int(args.miscleavage),
        min_mw=float(args.min_mw), min_length=args.min_length, max_length=args.max_length,
        max_variants_per_node=args.max_variants_per_node[0],
        additional_variants_per_misc=args.additional_variants_per_misc[0],
        min_nodes_to_collapse=args.min_nodes_to_collapse, naa_to_collapse=args.naa_to_collapse)
    try:
        genome, anno, proteome, pool = common.load_references(args, load_proteome=True, cleavage_params=cp)
    except BaseException as e:
        if isinstance(e, KeyboardInterrupt):
            raise
        return type(e).__name__, None, None, f'{type(e).__name__}: {e}'[:200]
    return 'ok', pool, (genome, anno, proteome), ''


def impl_load_nopool(idx):
    """load_references the way the parse* / splitFasta / summarizeFasta commands do: no canonical pool requested."""
    from moPepGen.cli import common
    args = drive.parse(['parseVEP', '-i', 'x.tsv', '-o', 'o.gvf', '--index-dir', idx, '--source', 'gSNP'])
    try:
        common.load_references(args, load_canonical_peptides=False)
    except BaseException as e:
        if isinstance(e, KeyboardInterrupt):
            raise
        return type(e).__name__, f'{type(e).__name__}: {e}'[:200]
    return 'ok', ''


def compare_refdata(idx, data, ref):
    """Loaded genome / annotation / proteome / coding transcripts against the source files."""
    exp = expected_ref(ref)
    genome, anno, proteome = data
    out = []
    got_g = {k: str(v.seq) for k, v in genome.items()}
    if got_g != exp['genome']:
        out.append(f'genome differs from source of {ref}: keys {sorted(got_g)} lens {[len(v) for v in got_g.values()]}')
    got_p = {k: dict(seq=str(v.seq), protein_id=v.protein_id, gene_id=v.gene_id) for k, v in proteome.items()}
    # proteins declared invalid (--invalid-protein-as-noncoding) may or may not be kept in the saved proteome
    got_p = {k: v for k, v in got_p.items() if not (k in exp['invalid'] and v == exp['proteome'].get(k))}
    if got_p != {k: v for k, v in exp['proteome'].items() if k not in exp['invalid']}:
        out.append(f'proteome differs from source of {ref}: got {sorted(got_p)} expected {sorted(exp["proteome"])}')
    if set(anno.genes.keys()) != set(exp['genes']):
        out.append(f'annotation genes {sorted(anno.genes.keys())} != {sorted(exp["genes"])}')
    if set(anno.transcripts.keys()) != set(exp['txs']):
        out.append(f'annotation transcripts {sorted(anno.transcripts.keys())} != {sorted(exp["txs"])}')
    for gid, eg in exp['genes'].items():
        try:
            g = anno.genes[gid]
            got = dict(chrom=g.chrom, span=(int(g.location.start), int(g.location.end)), strand=g.strand,
                       transcripts=set(g.transcripts))
        except Exception as e:
            got = repr(e)[:120]
        if got != eg:
            out.append(f'gene {gid}: got {got} expected {eg}')
    for tid, et in exp['txs'].items():
        try:
            t = anno.transcripts[tid]
            got = dict(gene=t.gene_id, span=(int(t.transcript.location.start), int(t.transcript.location.end)),
                       strand=t.transcript.strand,
                       exons=[(int(x.location.start), int(x.location.end)) for x in t.exon],
                       cds=[(int(x.location.start), int(x.location.end)) for x in t.cds])
            coding = t.is_protein_coding
        except Exception as e:
            got, coding = repr(e)[:120], None
        if got != et:
            out.append(f'transcript {tid}: got {got} expected {et}')
        elif coding != (tid in exp['coding']):
            out.append(f'transcript {tid}: is_protein_coding={coding} expected {tid in exp["coding"]}')
    try:
        from moPepGen.index import IndexDir
        ctx = set(IndexDir(Path(idx)).load_coding_tx())
    except Exception as e:
        ctx = repr(e)[:120]
    if ctx != exp['coding']:
        out.append(f'coding transcripts {ctx} != {sorted(exp["coding"])}')
    return out


def structural(idx, m):
    """metadata.json against the files present and against the model."""
    out = []
    idx = Path(idx)
    mf = idx / 'metadata.json'
    if m is None:
        if idx.exists() and any(idx.iterdir()):
            out.append(f'model says no index, directory contains {sorted(p.name for p in idx.iterdir())}')
        return out
    if not mf.exists():
        return ['metadata.json missing']
    try:
        d = json.loads(mf.read_text())
    except Exception as e:
        return [f'metadata.json unreadable: {e!r}'[:200]]
    cur = current_versions()
    expv = dict(cur)
    if m['ver'] != 'ok':
        f, v = BAD[m['ver']]
        expv[f] = v
    if d.get('version') != expv:
        out.append(f'recorded versions {d.get("version")} expected {expv}')
    pools = d.get('canonical_pools', [])
    idxs = [it.get('index') for it in pools]
    names = [it.get('filename') for it in pools]
    if len(set(idxs)) != len(idxs):
        out.append(f'pool indices not unique: {idxs}')
    if len(set(names)) != len(names):
        out.append(f'pool file names not unique: {names}')
    present = sorted(p.name for p in idx.iterdir() if p.name.startswith('canonical_peptides'))
    if sorted(names) != present:
        out.append(f'metadata lists pool files {sorted(names)} but directory has {present}')
    keys = []
    for it in pools:
        cp = it.get('cleavage_params', {})
        try:
            key = [cp['enzyme'], cp['exception'], int(cp['miscleavage']), int(cp['min_length']),
                   int(cp['max_length']), float(cp['min_mw'])]
        except Exception as e:
            out.append(f'pool entry without cleavage parameters: {it}')
            continue
        keys.append(key)
        f = idx / str(it.get('filename'))
        if f.exists():
            try:
                got = set(pickle.loads(f.read_bytes()))
            except Exception as e:
                out.append(f'{f.name} cannot be unpickled: {e!r}'[:160])
                continue
            exp = oracle_pool(m['ref'], key)
            if got != exp:
                out.append(f'{f.name} registered for {kname(key)} on {m["ref"]} is not that pool: '
                           f'missing {sorted(exp - got)[:4]} spurious {sorted(got - exp)[:4]} (|exp|={len(exp)} |got|={len(got)})')
    if sorted(map(repr, keys)) != sorted(map(repr, m['pools'])):
        out.append(f'registered parameter sets {[kname(k) for k in keys]} expected {[kname(k) for k in m["pools"]]}')
    if d.get('source') not in ('GENCODE',):
        out.append(f'recorded source {d.get("source")!r}')
    for f in ('genome.pkl', 'proteome.pkl', 'coding_transcripts.pkl', 'annotation.gtf', 'annotation_gene.idx', 'annotation_tx.idx'):
        if not (idx / f).exists():
            out.append(f'{f} missing')
    return out


def exec_op(idx, op, params):
    """Run one operation of the alphabet on directory idx.  -> (outcome, text, pool|None, data|None)"""
    k = op[0]
    if k == 'gen':
        _, p, ref, force, sym = op
        argv = ['generateIndex', '-o', idx, '--quiet'] + drive.ref_argv(ref_files(ref)) + cargv(params[p])
        argv += (['--force'] if force else []) + (['--gtf-symlink'] if sym else [])
        argv += ['--invalid-protein-as-noncoding'] if ref.endswith('i') else []
        r = drive.run(argv)
        return ('ok' if r['ok'] else r['exc_type']), (r['exc'] or ''), None, None
    if k == 'upd':
        _, p, force = op
        r = drive.run(['updateIndex', '--index-dir', idx, '--quiet'] + cargv(params[p]) + (['--force'] if force else []))
        return ('ok' if r['ok'] else r['exc_type']), (r['exc'] or ''), None, None
    if k == 'load':
        o, pl, dat, txt = impl_load(idx, params[op[1]])
        return o, txt, pl, dat
    mf = Path(idx) / 'metadata.json'
    d = json.loads(mf.read_text())
    v = current_versions()
    if k == 'tamper':
        f, bad = BAD[op[1]]
        v[f] = bad
    d['version'] = v
    mf.write_text(json.dumps(d, indent=2))
    return 'ok', '', None, None


def outcome_matches(exp, got):
    if exp == 'error':
        return got != 'ok'
    return exp == got


def step(idx, m, op, params, universe, pre_snap=None):
    """One transition on directory `idx` (in place) + every invariant.
    -> dict(outcome, expected, model_post, snap, problems[list of str], nontrivial)"""
    idx = Path(idx)
    for r in REFDEF:
        refs_check_restore(r)
    if pre_snap is None:
        pre_snap = snapshot(idx)
    exp_out, m_post, unchanged = model_step(m, op, params)
    got_out, text, pool, data = exec_op(idx, op, params)
    problems = []
    if not outcome_matches(exp_out, got_out):
        problems.append(f'outcome: expected {exp_out} got {got_out} {text}')
    if got_out != 'ok' and exp_out == 'ok':
        # an operation that fails must leave the directory as it was: judge the rest against the old state
        m_post, unchanged = m, True
    for r in REFDEF:
        bad = refs_modified(r)
        if bad:
            problems.append(f'the operation wrote outside the index directory: source files {bad} of reference {r} '
                            'no longer have their original content')
    post = snapshot(idx)
    if unchanged and post != pre_snap:
        problems.append(f'directory changed by an operation that must leave it unchanged (expected {exp_out}, '
                        f'observed {got_out}): ' + '; '.join(snap_diff(pre_snap, post)[:8]))
    if op[0] == 'load' and got_out == 'ok' and exp_out == 'ok':
        exp_pool = oracle_pool(m['ref'], mkey(params[op[1]]))
        if set(pool) != exp_pool:
            problems.append(f'load({op[1]}) returned a wrong pool')
    if op[0] == 'upd' and exp_out == 'ok' and not unchanged:
        # adding a pool: everything that was there stays identical, exactly one pool file appears
        diff = {k for k in set(pre_snap) | set(post) if pre_snap.get(k) != post.get(k)} - {'metadata.json'}
        new = {k for k in diff if k not in pre_snap}
        if (diff - new) or len(new) != 1 or not all(k.startswith('canonical_peptides') for k in new):
            problems.append('updateIndex touched existing files: ' + '; '.join(snap_diff(pre_snap, post)[:6]))
    problems += structural(idx, m_post)
    # loads with every parameter set of the universe
    nontrivial = 0
    if m_post is not None:
        checked_ref = False
        for p in universe:
            key = list(mkey(params[p]))
            o, pl, dat, txt = impl_load(idx, params[p], GRAPH_ARGV)
            if m_post['ver'] not in VALID_STATUS:
                if o != 'InvalidIndexError':
                    problems.append(f'version mismatch ({m_post["ver"]}) not rejected: load({p}) -> {o} {txt}')
                else:
                    nontrivial = 1
                continue
            if key in m_post['pools']:
                exp_pool = oracle_pool(m_post['ref'], key)
                if o != 'ok':
                    problems.append(f'load({p}) raised {txt} but the pool is registered')
                    continue
                if set(pl) != exp_pool:
                    which = [kname(k2) for k2 in m_post['pools'] if set(pl) == oracle_pool(m_post['ref'], k2)]
                    other = [f'{r2}/{n2}' for r2 in list(REFDEF) + ['R3i'] for n2, p2 in PSETS.items() if set(pl) == oracle_pool(r2, mkey(p2))]
                    problems.append(f'load({p}) on {m_post["ref"]} returned a pool that is not the pool of {p}: '
                                    f'missing {sorted(exp_pool - set(pl))[:4]} spurious {sorted(set(pl) - exp_pool)[:4]}'
                                    f' (equals pool of {which or other or "nothing known"})')
                elif exp_pool:
                    nontrivial = 1
                if not checked_ref:
                    checked_ref = True
                    problems += compare_refdata(idx, dat, m_post['ref'])
            else:
                if o == 'ok':
                    problems.append(f'load({p}) returned a pool of {len(pl)} peptides although no pool is registered for {p}')
                elif o != 'ValueError':
                    problems.append(f'load({p}) with unregistered parameters: expected ValueError got {txt}')
                else:
                    nontrivial = 1
        # a load that does not ask for a pool (every parser, splitFasta, summarizeFasta) is subject to the same version check
        o2, txt2 = impl_load_nopool(idx)
        if m_post['ver'] not in VALID_STATUS:
            if o2 != 'InvalidIndexError':
                problems.append(f'version mismatch ({m_post["ver"]}) not rejected by a load without canonical peptides: {o2} {txt2}')
        elif o2 != 'ok':
            problems.append(f'load without canonical peptides raised {txt2} on a valid index')
        after = snapshot(idx)
        if after != post:
            problems.append('loading modified the directory: ' + '; '.join(snap_diff(post, after)[:6]))
    else:
        for p in universe[:1]:
            o, pl, dat, txt = impl_load(idx, params[p])
            if o == 'ok':
                problems.append(f'load({p}) succeeded on a directory without index')
        after = snapshot(idx)
        if after != post:
            problems.append('loading modified the directory: ' + '; '.join(snap_diff(post, after)[:6]))
    for r in REFDEF:
        refs_check_restore(r)
    return dict(outcome=got_out, expected=exp_out, text=text, model_post=m_post, snap=post, problems=problems,
                nontrivial=nontrivial)


# ---- BFS ------------------------------------------------------------------------------------
def _job(job):
    (level, j, sdir, m, op, params, universe, pre_id) = job
    work = vlib.scratch_root() / 'res' / f'L{level}' / str(j)
    work.mkdir(parents=True, exist_ok=True)
    idx = work / 'idx'
    copy_state(sdir, idx)
    pre = snapshot(idx)
    if snap_id(pre) != pre_id:
        raise RuntimeError(f'copied state differs from stored state {sdir}')
    r = step(idx, m, op, params, universe, pre)
    r['snap_id'] = snap_id(r['snap'])
    r['sym'] = any(str(v).startswith('symlink:') for v in r['snap'].values())
    if r['snap_id'] == pre_id:
        shutil.rmtree(work, ignore_errors=True)
        r['kept'] = None
    else:
        r['kept'] = str(idx)
    r['snap'] = None if not r['problems'] else r['snap']
    return r


class Explorer:
    def __init__(self, run, block, params, ops_of, universe_of, depth):
        self.run, self.block, self.params = run, block, params
        self.ops_of, self.universe_of, self.depth = ops_of, universe_of, depth
        self.states = {}       # snap_id -> dict(dir, model, hist, depth, sym)
        self.transitions = 0
        self.nontrivial = 0
        self.edges = []        # (src, dst) over non-violating transitions
        self.fixpoint = False
        self.viol = 0
        self.outcomes = {}

    def explore(self):
        run = self.run
        root_dir = vlib.scratch_root() / 'states' / self.block / 's0'   # never created: ABSENT
        root_dir.parent.mkdir(parents=True, exist_ok=True)
        rid = snap_id(snapshot(root_dir))
        self.states[rid] = dict(dir=str(root_dir), model=None, hist=[], depth=0, sym=False)
        frontier = [rid]
        self.levels = [1]
        for level in range(1, self.depth + 1):
            jobs = []
            for sid in frontier:
                st = self.states[sid]
                for op in self.ops_of(st['model'], level):
                    if enabled(st['model'], op):
                        jobs.append((level, len(jobs), st['dir'], st['model'], op, self.params,
                                     self.universe_of(st['model'], op), sid))
            res = vlib.pmap(_job, jobs, jobs=run.jobs, chunk=max(1, min(8, len(jobs) // (run.jobs * 4) or 1)))
            errs = vlib.harness_errors(res)
            if errs:
                raise RuntimeError(f'{self.block}: harness error {errs[0][1]}\n{errs[0][2]}')
            new = []
            for job, r in zip(jobs, res):
                sid, op = job[7], job[4]
                st = self.states[sid]
                self.transitions += 1
                self.outcomes[r['expected']] = self.outcomes.get(r['expected'], 0) + 1
                self.nontrivial += r['nontrivial']
                hist = st['hist'] + [list(op)]
                if r['problems']:
                    self.viol += 1
                    pre = model_str(st['model']) + ('~sym' if st['sym'] else '')
                    key = f'{self.block}/{op_name(op)}@{pre}'
                    run.violation(key, f'history {" > ".join(op_name(tuple(o)) for o in hist)}: ' + ' | '.join(r['problems'])[:1500],
                                  dict(kind='history', block=self.block, history=hist,
                                       params={k: list(v) for k, v in self.params.items()
                                               if k in {o[1] for o in hist if o[0] in ('gen', 'upd', 'load')} | set(job[6])},
                                       universe=list(job[6]), references=REFDEF,
                                       expected_outcome=r['expected'], observed_outcome=r['outcome'],
                                       problems=r['problems'], pre_state=pre))
                    if r['kept']:
                        shutil.rmtree(Path(r['kept']).parent, ignore_errors=True)
                    continue          # do not explore beyond a violating transition
                nid = r['snap_id']
                self.edges.append((sid, nid))
                if nid in self.states:
                    if self.states[nid]['model'] != r['model_post']:
                        raise RuntimeError(f'{self.block}: one directory snapshot, two model states: '
                                           f'{self.states[nid]["model"]} vs {r["model_post"]} via {hist}')
                    if r['kept']:
                        shutil.rmtree(Path(r['kept']).parent, ignore_errors=True)
                    continue
                d = vlib.scratch_root() / 'states' / self.block / f's{len(self.states)}'
                os.rename(r['kept'], d)
                shutil.rmtree(Path(r['kept']).parent, ignore_errors=True)
                self.states[nid] = dict(dir=str(d), model=r['model_post'], hist=hist, depth=level, sym=r['sym'])
                new.append(nid)
            self.levels.append(len(new))
            frontier = new
            if not frontier:
                self.fixpoint = True
                break
        shutil.rmtree(vlib.scratch_root() / 'res', ignore_errors=True)
        return self

    def traces(self):
        """Number of operation histories of each length 1..depth from the empty directory whose
        every transition was executed (paths of the explored graph, by dynamic programming)."""
        succ = {}
        for a, b in self.edges:
            succ.setdefault(a, []).append(b)
        root = next(iter(self.states))
        cur = {root: 1}
        out = []
        for _ in range(len(self.levels) - 1):
            nxt = {}
            for s, n in cur.items():
                for b in succ.get(s, []):
                    nxt[b] = nxt.get(b, 0) + n
            out.append(sum(nxt.values()))
            cur = nxt
        return out


def bfs_ops(pnames, sym=False):
    ops = []
    for p in pnames:
        for ref in BFS_REFS:
            for force in (False, True):
                ops.append(('gen', p, ref, force, False))
    if sym:
        for ref in BFS_REFS:
            for force in (False, True):
                ops.append(('gen', pnames[0], ref, force, True))
    for p in pnames:
        ops += [('upd', p, False), ('upd', p, True), ('load', p)]
    ops += [('tamper', t) for t in BAD] + [('untamper',)]
    return ops


def sanity(run, pnames):
    """The designed proteomes must separate the parameter sets (otherwise 'never a pool built with
    other parameters' could not be observed)."""
    for ref in BFS_REFS:
        seen = {}
        for n in pnames:
            pool = oracle_pool(ref, mkey(PSETS[n]))
            if not pool:
                raise RuntimeError(f'empty oracle pool {ref}/{n}')
            k = mkey(PSETS[n])
            for n2, (k2, pool2) in seen.items():
                if k2 != k and pool2 == pool:
                    raise RuntimeError(f'pools of {n} and {n2} coincide on {ref}')
            seen[n] = (k, pool)
    for n in pnames:
        if oracle_pool('R', mkey(PSETS[n])) == oracle_pool('R2', mkey(PSETS[n])):
            raise RuntimeError(f'pool of {n} is the same on both references')


def part_bfs(run):
    quick = run.tier == 'quick'
    pnames = ['P1', 'P2', 'P3'] if quick else ['P1', 'P2', 'P3', 'P4', 'P1x']
    depth = 6 if quick else 8        # upper bounds; the search stops at its fixpoint (no new state)
    sanity(run, pnames)
    ops = bfs_ops(pnames)
    params = {n: PSETS[n] for n in pnames}
    ex = Explorer(run, 'history-bfs', params, lambda m, level: ops, lambda m, op: pnames, depth).explore()
    tr = ex.traces()
    run.block('history-bfs', ex.transitions, ex.nontrivial, True, states=len(ex.states), depth=len(ex.levels) - 1,
              new_states_per_level=ex.levels, alphabet=len(ops), parameter_sets=len(pnames),
              fixpoint=ex.fixpoint, histories_covered_per_length=tr, expected_outcomes=ex.outcomes)
    missing = [c for c in ('ok', 'SystemExit', 'InvalidIndexError', 'ValueError', 'error') if not ex.outcomes.get(c)]
    if missing:
        raise RuntimeError(f'history-bfs never exercised expected outcome classes {missing}')
    run.sample(dict(block='history-bfs', alphabet=[op_name(o) for o in ops]))
    deepest = max(ex.states.values(), key=lambda s: (s['depth'], len(s['model']['pools']) if s['model'] else 0))
    run.sample(dict(block='history-bfs', example_history=[op_name(tuple(o)) for o in deepest['hist']],
                    model_state=model_str(deepest['model'])))
    return ex, ex.transitions


def part_symlink(run):
    """generateIndex --gtf-symlink interacting with --force, on a deliberately small alphabet (its
    transitions are keyed one by one)."""
    quick = run.tier == 'quick'
    pn = ['P1', 'P2']
    params = {n: PSETS[n] for n in pn}
    ops = [('gen', 'P1', 'R', False, False), ('gen', 'P1', 'R', True, False),
           ('gen', 'P1', 'R', False, True), ('gen', 'P1', 'R', True, True),
           ('gen', 'P1', 'R2', True, False), ('load', 'P1')]
    if not quick:
        ops += [('upd', 'P2', False), ('upd', 'P2', True), ('load', 'P2')]
    ex = Explorer(run, 'gtf-symlink', params, lambda m, level: ops, lambda m, op: pn, 6).explore()
    tr = ex.traces()
    run.block('gtf-symlink', ex.transitions, ex.nontrivial, True, states=len(ex.states), depth=len(ex.levels) - 1,
              new_states_per_level=ex.levels, alphabet=len(ops), fixpoint=ex.fixpoint, histories_covered_per_length=tr)
    run.sample(dict(block='gtf-symlink', alphabet=[op_name(o) for o in ops]))
    return ex, ex.transitions


def part_invalid(run):
    """generateIndex --invalid-protein-as-noncoding on a proteome with an invalid protein, followed by
    updateIndex: pools obtained through either command must be the pool of the same proteome."""
    pn = ['P1', 'P2']
    params = {n: PSETS[n] for n in pn}
    ops = [('gen', 'P1', 'R3i', False, False), ('gen', 'P1', 'R3i', True, False), ('gen', 'P2', 'R3', True, False),
           ('upd', 'P1', False), ('upd', 'P1', True), ('upd', 'P2', False), ('upd', 'P2', True),
           ('load', 'P1'), ('load', 'P2')]
    for ref in ('R3', 'R3i'):
        if oracle_pool('R3', mkey(PSETS['P1'])) == oracle_pool('R3i', mkey(PSETS['P1'])):
            raise RuntimeError('invalid protein does not contribute to the pool')
    ex = Explorer(run, 'invalid-protein', params, lambda m, level: ops, lambda m, op: pn, 6).explore()
    tr = ex.traces()
    run.block('invalid-protein', ex.transitions, ex.nontrivial, True, states=len(ex.states), depth=len(ex.levels) - 1,
              new_states_per_level=ex.levels, alphabet=len(ops), fixpoint=ex.fixpoint, histories_covered_per_length=tr)
    run.sample(dict(block='invalid-protein', alphabet=[op_name(o) for o in ops]))
    return ex, ex.transitions


def part_lattice(run):
    names = [pname(p) for p in LATTICE]
    params = {pname(p): p for p in LATTICE}
    # the lattice must separate every pair by pool content where the registration keys differ in a
    # field that matters for the digest
    rows = set(range(len(LATTICE)))          # every ordered pair, in both tiers (cheap)

    def ndiff(a, b):
        return sum(1 for x, y in zip(params[a], params[b]) if x != y)

    def ops_of(m, level):
        if level == 1:
            return [('gen', n, 'R', False, False) for n in names]
        a = kname_to_name[tuple(m['pools'][0])]
        ia = names.index(a)
        return [('upd', b, False) for b in names if b != a and (ia in rows or ndiff(a, b) == 1)]

    kname_to_name = {mkey(p): pname(p) for p in LATTICE}
    if len(set(names)) != len(LATTICE) or len(kname_to_name) != len(LATTICE):
        raise RuntimeError('lattice names collide')

    def universe_of(m, op):
        if op[0] == 'gen':
            return names
        return [kname_to_name[tuple(m['pools'][0])], op[1]]

    ex = Explorer(run, 'pair-lattice', params, ops_of, universe_of, 2).explore()
    tr = ex.traces()
    distinct = len({oracle_pool('R', mkey(p)) for p in LATTICE})
    run.block('pair-lattice', ex.transitions, ex.nontrivial, True, states=len(ex.states), depth=2, new_states_per_level=ex.levels,
              parameter_sets=len(LATTICE), distinct_pool_contents=distinct,
              ordered_pairs=len(LATTICE) * (len(LATTICE) - 1), histories_covered_per_length=tr)
    run.sample(dict(block='pair-lattice', example=['gen(%s,R)' % names[0], 'upd(%s)' % names[1]]))
    return ex, ex.transitions


# ---- replay -----------------------------------------------------------------------------------
def replay(path):
    r = json.load(open(path))
    print('replaying', r['key'])
    params = {k: tuple(v) for k, v in r['params'].items()}
    universe = r['universe']
    idx = vlib.worker_dir() / 'replay' / 'idx'
    shutil.rmtree(idx.parent, ignore_errors=True)
    idx.parent.mkdir(parents=True)
    m = None
    bad = False
    for op in r['history']:
        op = tuple(op)
        res = step(idx, m, op, params, universe)
        print(f'  {op_name(op):28s} expected={res["expected"]:18s} observed={res["outcome"]:18s} '
              f'model-after={model_str(res["model_post"])}')
        for p in res['problems']:
            bad = True
            print('      PROBLEM:', p)
        m = res['model_post']
    print('result:', 'VIOLATION reproduced' if bad else 'no problem observed')
    return 1 if bad else 0


def main():
    run = vlib.Run('C12', 'model_checking', __doc__)
    if run.args.replay:
        sys.exit(replay(run.args.replay))
    run.rule = ('breadth-first search from the absent directory: from every distinct directory snapshot '
                '(canonical form: metadata.json entries sorted by index, sha256 of every file with pickles '
                'digested through their sorted content, symlink targets, version triple) every enabled '
                'operation of the alphabet is executed with the real command on a copy; the dictionary model '
                '{parameters -> oracle pool, stored reference, version status} is stepped in lock-step and all '
                'invariants are evaluated after every transition.  Non-trivial: the transition ends in a state '
                'in which at least one load returned a non-empty oracle pool or an expected rejection was observed.')
    run.assume('lib/oracle.canonical_pool (independent digest) defines "the canonical pool computed for those parameters"; '
               'parameter sets are identified after the documented resolution of --cleavage-exception auto')
    run.assume('the canonical directory form (file contents incl. unpickled pickles, symlink targets) determines all '
               'future behaviour of generateIndex/updateIndex/load_references (no dependence on mtimes or pickle byte order)')
    run.assume('version mismatch is simulated by editing metadata.json (one field at a time); an index recorded with '
               'mopepgen == MINIMAL_VERSION and matching python/biopython is valid by the tool\'s documented rule')
    drive.parser()
    states = transitions = traces = 0
    if run.want('history-bfs'):
        ex, t = part_bfs(run)
        states += len(ex.states)
        transitions += ex.transitions
        traces += t
    if run.want('gtf-symlink'):
        ex, t = part_symlink(run)
        states += len(ex.states)
        transitions += ex.transitions
        traces += t
    if run.want('invalid-protein'):
        ex, t = part_invalid(run)
        states += len(ex.states)
        transitions += ex.transitions
        traces += t
    if run.want('pair-lattice'):
        ex, t = part_lattice(run)
        states += len(ex.states)
        transitions += ex.transitions
        traces += t
    run.extra['trace_count'] = ('traces_validated_against_impl = executed transitions: each one is the last step of a '
                                'distinct concrete history (shortest history of its source state + the operation) that was '
                                'run step by step on the real implementation from the absent directory while the model was '
                                'stepped alongside.  histories_covered_per_length (per block) = number of operation sequences '
                                'of that length all of whose transitions are among the executed ones (paths of the '
                                'deduplicated graph, by dynamic programming)')
    run.finish(states=states, transitions=transitions, traces=traces)


if __name__ == '__main__':
    main()
