"""C20 - decoyFasta: one faithful, reproducible decoy per target.

Bounded exhaustive enumeration of target FASTAs x options, driving the real `decoyFasta` CLI function
in-process (drive.run) and checking every output against a small model of the property text:

  * every target record is written unchanged, exactly once;
  * exactly one decoy per target, header = target header with the decoy string attached;
  * the decoy sequence is a rearrangement (same residue multiset) that keeps the requested fixed
    positions: peptide N-/C-terminus when requested, residues listed in --non-shuffle-pattern, and
    the residue AT each (internal) cleavage site of --enzyme (the residue the rule names: P1 = the
    residue before the cleaved bond for trypsin/lysc, P1' = the residue after it for lysn/asp-n;
    derived from lib/expasy_table.py, trypsin with its exception as everywhere else in the tool);
  * method reverse: the decoy is exactly the reversal of the non-fixed residues (the fixed set may
    additionally contain the other residue of a genuinely cleaved bond - the text does not exclude it);
  * same seed => identical bytes; as a set of records the output does not depend on input order;
  * the requested output order is respected;
  * (documented by --shuffle-max-attempts) a shuffled decoy does not coincide with a target or another
    decoy when at least half of the arrangements would not.

Violations are grouped by mechanism; for each group only the smallest failing case (shortest, then
lexicographically smallest target(s); then the first configuration in canonical order) is reported
as the key, the number of other failing cases of that group is given in the message.
"""
import itertools, json, math, os, sys
from functools import lru_cache
from pathlib import Path
import vlib, drive, expasy_table as ET

ALPHA = 'KRPACG'
ALPHA_ASPN = 'KDPACG'          # asp-n needs D; R is irrelevant to it
ALPHA_TRYP_EXTRA = 'KRPWMCDH'  # WKP / MRP rules and the CKD, DKD, CKH, CRK, RRH, RRR exceptions
METHODS = ['reverse', 'shuffle']
ENZYMES = [None, 'trypsin', 'lysc', 'lysn', 'asp-n']
TF = [False, True]
PATTERNS = ['', 'A', 'K,R']
SEEDS = [0, 1, 2]
ORDERS = ['juxtaposed', 'target_first', 'decoy_first']
DSTR = [('DECOY_', 'prefix'), ('_rev', 'suffix')]
MAX_ATTEMPTS = 30              # CLI default of --shuffle-max-attempts


# ---- configurations ------------------------------------------------------------------------
# cfg = (method, enzyme, nterm, cterm, pattern, seed, order, dstr_index)
def cfg_rank(cfg):
    m, e, nt, ct, p, s, o, ds = cfg
    return (METHODS.index(m), ENZYMES.index(e), int(nt), int(ct), PATTERNS.index(p),
            -1 if s is None else s, ORDERS.index(o), ds)


def cfg_dict(cfg):
    m, e, nt, ct, p, s, o, ds = cfg
    return dict(method=m, enzyme=e, keep_peptide_nterm=nt, keep_peptide_cterm=ct, non_shuffle_pattern=p,
                seed=s, order=o, decoy_string=DSTR[ds][0], decoy_string_position=DSTR[ds][1])


def cfg_from_dict(d):
    ds = [i for i, x in enumerate(DSTR) if x == (d['decoy_string'], d['decoy_string_position'])][0]
    return (d['method'], d['enzyme'], d['keep_peptide_nterm'], d['keep_peptide_cterm'],
            d['non_shuffle_pattern'], d['seed'], d['order'], ds)


def configs(enzymes=ENZYMES, patterns=PATTERNS, orders=ORDERS, dstrs=(0,), methods=METHODS, cycle_order=False):
    """Full product; with cycle_order the order option is not an axis but cycles with the seed
    (shuffle) / pattern index (reverse) so that every order is still used with every method."""
    out = []
    for m in methods:
        for e in enzymes:
            for nt in TF:
                for ct in TF:
                    for pi, p in enumerate(patterns):
                        for s in (SEEDS if m == 'shuffle' else [None]):
                            if cycle_order:
                                os_ = [ORDERS[(s if s is not None else pi) % 3]]
                            else:
                                os_ = orders
                            for o in os_:
                                for ds in dstrs:
                                    out.append((m, e, nt, ct, p, s, o, ds))
    return out


def argv_for(cfg, inp, out):
    m, e, nt, ct, p, s, o, ds = cfg
    a = ['decoyFasta', '-i', inp, '-o', out, '--method', m, '--keep-peptide-nterm', 'true' if nt else 'false',
         '--keep-peptide-cterm', 'true' if ct else 'false', '--order', o, '--quiet',
         '--decoy-string', DSTR[ds][0], '--decoy-string-position', DSTR[ds][1]]
    if e is not None:
        a += ['--enzyme', e]
    if p:
        a += ['--non-shuffle-pattern', p]
    if s is not None:
        a += ['--seed', s]
    return a


# ---- model -----------------------------------------------------------------------------------
def site_residue_offset(rule):
    """-1 when the rule names the residue before the cleaved bond (P1: trypsin, lysc), 0 when it names
    the residue after it (P1': lysn, asp-n).  Read off the position-class table."""
    before, _after = ET.T[rule][0]
    return -1 if before[-1][0] != 'any' else 0


@lru_cache(maxsize=400000)
def fixed_sets(seq, enzyme, nterm, cterm, pattern):
    """must: positions the property requires to stay; term: the residue at a C-terminal 'site'
    (rules without a P1' requirement) - allowed, not required; alts: what the known alternative readings
    (site index = residue after the bond; exception ignored) would fix - used only to NAME a failure;
    may: union of everything any reading could fix."""
    n = len(seq)
    base = set()
    if n and nterm:
        base.add(0)
    if n and cterm:
        base.add(n - 1)
    pats = [x for x in pattern.split(',') if x]
    patpos = {i for i, ch in enumerate(seq) if ch in pats}
    sites = set()
    term = set()
    alts = {}
    if enzyme is not None:
        off = site_residue_offset(enzyme)
        exc = 'trypsin_exception' if enzyme == 'trypsin' else None
        s_exc = ET.sites(enzyme, seq, exc)
        s_raw = ET.sites(enzyme, seq, None)
        sites = {x + off for x in s_exc if 0 < x < n}
        if off == -1 and n in s_exc:
            term = {n - 1}
        if off == -1:
            alts['site-after'] = {x for x in s_exc if x < n}
            if s_raw != s_exc:
                alts['no-exception'] = {x - 1 for x in s_raw if 0 < x < n}
                alts['site-after+no-exception'] = {x for x in s_raw if x < n}
    fixed0 = base | patpos
    must = fixed0 | sites
    # positions next to a genuine cleavage site: an implementation may keep both residues of the cleaved
    # bond in place without contradicting the property (it only says which positions MUST stay)
    flanks = set()
    if enzyme is not None:
        for x in s_exc:
            for i in (x - 1, x):
                if 0 <= i < n:
                    flanks.add(i)
    allowed = must | term | flanks
    may = set(allowed)
    for a in alts.values():
        may = may | a
    return dict(must=frozenset(must), term=frozenset(term), sites=frozenset(sites), patpos=frozenset(patpos),
                alts={k: frozenset(fixed0 | v) for k, v in alts.items()}, may=frozenset(may),
                allowed=frozenset(allowed))


@lru_cache(maxsize=400000)
def accepted_reversals(seq, enzyme, nterm, cterm, pattern):
    """Every reversal of the residues outside F for must <= F <= allowed."""
    F = fixed_sets(seq, enzyme, nterm, cterm, pattern)
    opt = sorted(F['allowed'] - F['must'])
    out = set()
    for k in range(len(opt) + 1):
        for extra in itertools.combinations(opt, k):
            out.add(reverse_with_fixed(seq, F['must'] | set(extra)))
    return frozenset(out)


def reverse_with_fixed(seq, fixed):
    free = [i for i in range(len(seq)) if i not in fixed]
    vals = [seq[i] for i in free][::-1]
    out = list(seq)
    for i, v in zip(free, vals):
        out[i] = v
    return ''.join(out)


def nontrivial_target(seq, F):
    free = {seq[i] for i in range(len(seq)) if i not in F['must']}
    return len(free) >= 2


def header_of(seq):
    h = f'TX{seq}|SNV-{len(seq)}-A-T|1'
    if len(seq) % 2 == 0:
        h += f' TY{seq}|INDEL-{len(seq) + 3}-A-AC|2'
    return h


def decoy_header(h, ds):
    s, pos = DSTR[ds]
    return s + h if pos == 'prefix' else h + s


# ---- verification of one output ----------------------------------------------------------------
def verify(targets, cfg, out, fails, agg=None):
    """targets: list of sequences in input order; out: list of (header, seq) as written.
    Appends (group, case_targets(tuple), detail) to fails.  Returns (n_nontrivial)."""
    m, e, nt, ct, p, s, o, ds = cfg
    en = e or 'none'
    n = len(targets)
    hdr = {t: header_of(t) for t in targets}
    dh = {t: decoy_header(hdr[t], ds) for t in targets}
    by_header = {}
    for h, q in out:
        by_header.setdefault(h, []).append(q)
    tset = tuple(sorted(targets, key=lambda x: (len(x), x)))
    if len(out) != 2 * n:
        fails.append((f'record-count/{m}', tset, ('count', len(out), n)))
    decoys = {}
    for t in targets:
        got_t = by_header.get(hdr[t], [])
        if got_t != [t]:
            fails.append((f'target-unchanged/{m}', (t,), ('target', hdr[t], t, got_t)))
        got_d = by_header.get(dh[t], [])
        if len(got_d) != 1:
            fails.append((f'decoy-count/{m}', (t,), ('ndecoy', len(got_d), dh[t])))
        else:
            decoys[t] = got_d[0]
    # requested order
    if len(out) == 2 * n and len(decoys) == n:
        th = {hdr[t]: t for t in targets}
        dhh = {dh[t]: t for t in targets}
        ok = True
        if o == 'juxtaposed':
            for k in range(n):
                a, b = out[2 * k][0], out[2 * k + 1][0]
                if a not in th or b not in dhh or th[a] != dhh[b]:
                    ok = False
        elif o == 'target_first':
            ok = all(h in th for h, _ in out[:n]) and all(h in dhh for h, _ in out[n:])
        else:
            ok = all(h in dhh for h, _ in out[:n]) and all(h in th for h, _ in out[n:])
        if not ok:
            fails.append((f'order/{o}', tset, ('order', o, [h for h, _ in out][:8])))
    nontriv = 0
    tpool = set(targets)
    for t in targets:
        F = fixed_sets(t, e, nt, ct, p)
        if nontrivial_target(t, F):
            nontriv += 1
        if t not in decoys:
            continue
        d = decoys[t]
        if sorted(d) != sorted(t):
            fails.append((f'multiset/{m}/{en}', (t,), ('multiset', t, d)))
            continue
        if nt and d[0] != t[0]:
            fails.append((f'fixed-nterm/{m}/{en}', (t,), ('nterm', t, d)))
        if ct and d[-1] != t[-1]:
            fails.append((f'fixed-cterm/{m}/{en}', (t,), ('cterm', t, d)))
        bad = [i for i in F['patpos'] if d[i] != t[i]]
        if bad:
            fails.append((f'fixed-pattern/{m}/{en}', (t,), ('pattern', p, t, d, bad)))
        bad = sorted(i for i in F['sites'] if d[i] != t[i])
        if bad:
            fails.append((f'fixed-site/{m}/{en}', (t,), ('site', en, t, d, sorted(F['sites']), bad)))
        if m == 'reverse':
            acc = accepted_reversals(t, e, nt, ct, p)
            if d not in acc:
                label = 'unexplained'
                for name in ('site-after', 'site-after+no-exception', 'no-exception'):
                    if name in F['alts'] and d == reverse_with_fixed(t, F['alts'][name]):
                        label = name
                        break
                fails.append((f'reverse-exact/{en}/{label}', (t,),
                              ('reverse', sorted(acc), sorted(F['must']), d, label,
                               sorted(F['alts'][label]) if label != 'unexplained' else None)))
        else:
            # avoidable collision (only where the free positions are certain)
            others = [decoys[u] for u in targets if u != t and u in decoys]
            if (d in tpool or d in others) and F['must'] == F['may']:
                free = [i for i in range(len(t)) if i not in F['must']]
                if len(free) <= 7:
                    pool = tpool | set(others)
                    tot = hit = 0
                    for perm in itertools.permutations([t[i] for i in free]):
                        tot += 1
                        x = list(t)
                        for i, v in zip(free, perm):
                            x[i] = v
                        if ''.join(x) in pool:
                            hit += 1
                    if tot and (hit / tot) ** MAX_ATTEMPTS < 1e-9:
                        # property C20 does not say that a decoy must differ from every target / other decoy (the retry is a
                        # mechanism, not part of the statement): counted as an observation, never reported as a violation
                        OBS['decoy-coincides-with-a-target-or-decoy-although-avoidable'] = \
                            OBS.get('decoy-coincides-with-a-target-or-decoy-although-avoidable', 0) + 1
            if agg is not None:
                # does shuffle ever move a free terminal residue?
                for name, pos in (('first', 0), ('last', len(t) - 1)):
                    if pos not in F['may'] and any(j not in F['may'] and t[j] != t[pos] for j in range(len(t))):
                        a = agg.setdefault((name,) + cfg, [0, 0])
                        a[0] += 1
                        if d[pos] != t[pos]:
                            a[1] += 1
    return nontriv


OBS = {}


def describe(x):
    k = x[0]
    if k == 'count':
        return f'{x[1]} records written for {x[2]} targets'
    if k == 'target':
        return f'target {x[1]!r} {x[2]!r} written as {x[3]}'
    if k == 'ndecoy':
        return f'{x[1]} records with header {x[2]!r} (expected exactly one)'
    if k == 'order':
        return f'--order {x[1]}: headers written {x[2]}'
    if k == 'multiset':
        return f'decoy {x[2]!r} is not a rearrangement of {x[1]!r}'
    if k == 'nterm':
        return f'N-terminus requested fixed: {x[1]!r} -> {x[2]!r}'
    if k == 'cterm':
        return f'C-terminus requested fixed: {x[1]!r} -> {x[2]!r}'
    if k == 'pattern':
        return f'residues {x[1]!r} requested fixed: {x[2]!r} -> {x[3]!r} (positions {x[4]})'
    if k == 'site':
        return (f'residue at {x[1]} cleavage site not kept in place: {x[2]!r} -> {x[3]!r}; site residues at '
                f'{x[4]}, moved at {x[5]}')
    if k == 'reverse':
        return (f'expected reversal of the non-fixed residues {x[1]} (required fixed {x[2]}), got {x[3]!r}' +
                (f' = reversal with fixed positions {x[5]} ({x[4]})' if x[5] is not None else ''))
    if k == 'collision':
        return (f'shuffled decoy {x[1]!r} of {x[2]!r} coincides with a target/decoy although only '
                f'{x[3]}/{x[4]} arrangements do ({MAX_ATTEMPTS} attempts)')
    if k == 'crash':
        return f'decoyFasta raised {x[1]}'
    if k == 'repro':
        return f'same seed {x[1]}, two runs, different bytes ({x[2]})'
    if k == 'input-order':
        return f'record set depends on the order of targets in the input: differing records {x[1]}'
    if k == 'never':
        return f'over {x[1]} single targets whose {x[2]} residue is not fixed by any reading, shuffle never moved it'
    return str(x)


def run_once(cfg, inp, outp):
    if os.path.exists(outp):
        os.unlink(outp)
    r = drive.run(argv_for(cfg, inp, outp))
    if not r['ok']:
        return None, None, r['exc']
    with open(outp, 'rb') as f:
        b = f.read()
    return b, drive.read_fasta(outp), None


def check_case(targets, cfg, d, fails, agg=None, both_orders=False, repro=True):
    """Run one (target list, configuration) case (+ the repeat run for reproducibility, + the
    permuted input order) and verify.  Returns (evaluations, nontrivial)."""
    m = cfg[0]
    inp, outp = d / 'in.fasta', d / 'out.fasta'
    drive.write_fasta(inp, [(header_of(t), t) for t in targets])
    tset = tuple(sorted(targets, key=lambda x: (len(x), x)))
    b1, out1, err = run_once(cfg, inp, outp)
    if err:
        fails.append((f'crash/{m}', tset, ('crash', err)))
        return len(targets), 0
    nontriv = verify(targets, cfg, out1, fails, agg)
    ev = len(targets)
    if m == 'shuffle' and repro:
        b2, _, err = run_once(cfg, inp, outp)
        if err or b2 != b1:
            fails.append((f'repro/{m}', tset, ('repro', cfg[5], err)))
    if both_orders and len(targets) > 1:
        rev = list(reversed(targets))
        drive.write_fasta(inp, [(header_of(t), t) for t in rev])
        _, out3, err = run_once(cfg, inp, outp)
        if err:
            fails.append((f'crash/{m}', tset, ('crash', err)))
        else:
            nontriv += verify(rev, cfg, out3, fails, None)
            ev += len(targets)
            if set(out3) != set(out1):
                diff = sorted(set(out1) ^ set(out3))[:4]
                fails.append((f'input-order/{m}/{cfg[1] or "none"}', tset, ('input-order', diff)))
    return ev, nontriv


# ---- jobs --------------------------------------------------------------------------------------
_CFG_SETS = {}


def work(job):
    block, sets, cfgname, both = job[:4]
    repro = job[4] if len(job) > 4 else True
    cfgs = _CFG_SETS[cfgname]
    d = vlib.worker_dir()
    best = {}      # group -> [sortkey, case_targets, cfg, detail, context_targets, count]
    agg = {} if block.startswith('single') else None
    ev = nt = 0
    for targets in sets:
        for cfg in cfgs:
            fails = []
            e, n = check_case(list(targets), cfg, d, fails, agg, both, repro)
            ev += e
            nt += n
            if fails:
                rk = cfg_rank(cfg)
                ctx = list(targets) if len(targets) <= 2000 else None
                for group, case, detail in fails:
                    key = (len(case), [(len(x), x) for x in case], rk)
                    b = best.get(group)
                    if b is None:
                        best[group] = [key, case, cfg, detail, ctx, 1]
                    else:
                        b[5] += 1
                        if key < b[0]:
                            b[0:5] = [key, case, cfg, detail, ctx]
    return block, ev, nt, best, agg


def all_strings(alpha, n):
    return [''.join(t) for t in itertools.product(alpha, repeat=n)]


def upto(alpha, n):
    return [s for k in range(1, n + 1) for s in all_strings(alpha, k)]


def chunks(lst, k):
    return [lst[i:i + k] for i in range(0, len(lst), k)]


def anagram_pairs(alpha, n):
    cls = {}
    for s in all_strings(alpha, n):
        cls.setdefault(''.join(sorted(s)), []).append(s)
    out = []
    for members in cls.values():
        out += list(itertools.combinations(members, 2))
    return out


def build_jobs(run):
    quick = run.tier == 'quick'
    jobs = []
    info = {}
    _CFG_SETS['full'] = configs(dstrs=(0, 1))
    _CFG_SETS['full1'] = configs()
    _CFG_SETS['content'] = configs(cycle_order=True)
    _CFG_SETS['pair-reduced'] = configs(enzymes=[None, 'trypsin', 'lysn'], patterns=['', 'K,R'], cycle_order=True)
    for e in ENZYMES:
        _CFG_SETS[f'packed/{e}'] = configs(enzymes=[e], cycle_order=True)
        _CFG_SETS[f'packed6/{e}'] = configs(enzymes=[e], patterns=['', 'K,R'], cycle_order=True)
    _CFG_SETS['tryp-extra'] = configs(enzymes=['trypsin'], patterns=['', 'K,R'], cycle_order=True)

    # S0: single-target files of length <= 2, complete product of ALL options (content x order x decoy string)
    short = upto(ALPHA, 2) + [s for s in upto(ALPHA_ASPN, 2) if 'D' in s]
    for ch in chunks([(s,) for s in short], 2):
        jobs.append(('single-all-options', ch, 'full', False))
    info['single-all-options'] = dict(max_len=2, targets=len(short), configs=len(_CFG_SETS['full']))
    # S1: single-target files, complete product of the options that influence the decoy sequence
    L1 = 3 if quick else 4
    singles = upto(ALPHA, L1)
    singles_d = [s for s in upto(ALPHA_ASPN, L1) if 'D' in s]
    cs = 'content' if quick else 'full1'
    for ch in chunks([(s,) for s in singles + singles_d if len(s) > 2], 12 if quick else 10):
        jobs.append(('single', ch, cs, False))
    info['single'] = dict(max_len=L1, targets=len(singles) + len(singles_d) - len(short), configs=len(_CFG_SETS[cs]))

    # H: homopolymers and palindromes beyond the length bound, singles and pairs
    homo = [c * k for c in 'KAP' for k in range(L1 + 1, 11)]
    pal = []
    for k in range(L1 + 1, 9):
        half = (k + 1) // 2
        for t in itertools.product('KAP', repeat=half):
            s = ''.join(t)
            pal.append(s + (s[::-1] if k % 2 == 0 else s[::-1][1:]))
    pal = sorted(set(pal) - set(homo), key=lambda x: (len(x), x))
    low = homo + pal
    for ch in chunks([(s,) for s in low], 8):
        jobs.append(('single-lowcomplexity', ch, 'content', False))
    # pairs of low-complexity sequences of equal length (lengths L1+1, L1+2)
    lowpairs = [(a, b) for a, b in itertools.combinations(sorted(low, key=lambda x: (len(x), x)), 2)
                if len(a) == len(b) <= L1 + 2]
    for ch in chunks(lowpairs, 6):
        jobs.append(('pair-lowcomplexity', ch, 'pair-reduced', True))
    info['lowcomplexity'] = dict(homopolymers=len(homo), palindromes=len(pal), pairs=len(lowpairs))

    # S2: two-target files, both input orders
    L2 = 2
    base = upto(ALPHA, L2)
    pairs = list(itertools.combinations(base, 2))
    for ch in chunks(pairs, 8 if quick else 3):
        jobs.append(('pair', ch, 'pair-reduced' if quick else 'full1', True))
    info['pair'] = dict(max_len=L2, pairs=len(pairs), configs=len(_CFG_SETS['pair-reduced' if quick else 'full1']))
    # anagram pairs (the decoy of one can be the other target)
    ap = anagram_pairs(ALPHA, 3)
    if not quick:
        ap += anagram_pairs(ALPHA, 4)
    else:
        # quick: seed-selected complete anagram classes by first letter of the sorted class
        firsts = sorted(set(''.join(sorted(a))[0] for a, _ in ap))
        sel = {firsts[i] for i in vlib.seeded_windows(run.seed, len(firsts), 3)}
        ap = [pr for pr in ap if ''.join(sorted(pr[0]))[0] in sel]
        info['pair-anagram-selected-classes'] = sorted(sel)
    for ch in chunks(ap, 8):
        jobs.append(('pair-anagram', ch, 'pair-reduced', True))
    info['pair-anagram'] = dict(pairs=len(ap), configs=len(_CFG_SETS['pair-reduced']))

    # P: packed files: every sequence of one length, distributed so that a file never holds two
    # anagrams of each other (file k = the k-th member of every anagram class): decoys can then never
    # coincide with another target, which keeps the collision-retry loop out of the packed blocks
    lens = [4, 5] if quick else [5, 6]
    npk = nfiles = 0
    for e in ENZYMES:
        alpha = ALPHA_ASPN if e == 'asp-n' else ALPHA
        for n in lens:
            cls = {}
            for s in all_strings(alpha, n):
                cls.setdefault(''.join(sorted(s)), []).append(s)
            files = {}
            for members in cls.values():
                for k, s in enumerate(members):
                    files.setdefault(k, []).append(s)
            ks = sorted(files)
            if quick and n == 5:
                ks = [ks[i] for i in vlib.seeded_windows(run.seed, len(ks), 24, always=(0, 1))]
            # length 6: two patterns and no repeat run (reproducibility is covered by every other block)
            cname = f'packed6/{e}' if n >= 6 else f'packed/{e}'
            # merge small files of one enzyme/length into jobs of comparable size
            cur, size = [], 0
            for k in ks:
                cur.append(tuple(files[k]))
                size += len(files[k])
                npk += len(files[k])
                nfiles += 1
                if size >= 600:
                    jobs.append(('packed', cur, cname, True, n < 6))
                    cur, size = [], 0
            if cur:
                jobs.append(('packed', cur, cname, True, n < 6))
    info['packed'] = dict(lengths=lens, files=nfiles, targets_x_enzymes=npk,
                          configs_per_enzyme=len(_CFG_SETS['packed/None']),
                          configs_per_enzyme_length6=len(_CFG_SETS['packed6/None']))
    # trypsin special rules / exceptions alphabet
    Lx = 3 if quick else 4
    ex = [s for s in upto(ALPHA_TRYP_EXTRA, Lx) if set(s) - set(ALPHA)]
    for ch in chunks(ex, 300):
        jobs.append(('packed-trypsin-special', [tuple(ch)], 'tryp-extra', True))
    info['packed-trypsin-special'] = dict(alphabet=ALPHA_TRYP_EXTRA, max_len=Lx, targets=len(ex))
    return jobs, info


# ---- replay --------------------------------------------------------------------------------------
def replay(path):
    r = json.load(open(path))
    cfg = cfg_from_dict(r['cfg'])
    targets = r['context_targets'] or r['case_targets']
    print('replaying', r['key'])
    print('configuration:', r['cfg'])
    print('targets in input order:', targets if len(targets) <= 12 else f'{len(targets)} targets')
    d = vlib.worker_dir()
    fails = []
    inp, outp = d / 'in.fasta', d / 'out.fasta'
    drive.write_fasta(inp, [(header_of(t), t) for t in targets])
    _, out, err = run_once(cfg, inp, outp)
    print('argv:', ' '.join(str(a) for a in argv_for(cfg, 'in.fasta', 'out.fasta')))
    for t in r['case_targets']:
        F = fixed_sets(t, cfg[1], cfg[2], cfg[3], cfg[4])
        print(f'target {t!r}: positions required fixed {sorted(F["must"])} (cleavage-site residues {sorted(F["sites"])})')
        if cfg[0] == 'reverse':
            print('  expected decoy:', sorted(accepted_reversals(t, cfg[1], cfg[2], cfg[3], cfg[4])),
                  '(reversal of the residues outside the required positions; residues flanking a genuine site may also stay)')
        if out:
            print('  got decoy     :', [q for h, q in out if h == decoy_header(header_of(t), cfg[7])])
    if err:
        print('decoyFasta raised:', err)
    else:
        check_case(list(targets), cfg, d, fails, None, len(targets) > 1)
        mine = [f for f in fails if f[0] == r['group']]
        print('violations reproduced:' if mine else 'violation NOT reproduced; all failures:')
        for g, case, det in (mine or fails)[:6]:
            print('  ', g, case, describe(det))


# ---- main ----------------------------------------------------------------------------------------
def main():
    run = vlib.Run('C20', 'exploration', __doc__)
    if run.args.replay:
        return replay(run.args.replay)
    run.rule = ('target FASTAs: every single sequence up to the stated length over KRPACG (+D for asp-n), every pair '
                'of distinct sequences of length <=2 and every anagram pair of length 3(-4) in both input orders, '
                'homopolymers/palindromes beyond the bound, and packed files holding every sequence of one length '
                'with a common prefix (both record orders); x method x enzyme x keep-N/C-terminus x '
                'non-shuffle pattern x seed{0,1,2} x order x decoy-string position.  One evaluation = one '
                '(target, input file, configuration) whose output records were verified.  Non-trivial: the '
                'target has >=2 distinct residues on positions that are not required fixed (a non-identity '
                'rearrangement exists).')
    run.assume('"residue at a cleavage site" = the residue the ExPASy rule names at the cleaved bond (P1 for '
               'trypsin/lysc, P1\' for lysn/asp-n); only internal sites are required fixed; trypsin is taken with '
               'its exception, as CleavageParams does for every other command')
    run.assume('reverse = reversal of the residues on non-fixed positions; for shuffle only the multiset and the '
               'fixed positions are judged, plus avoidable collisions (documented by --shuffle-max-attempts) where '
               'the set of free positions is certain')
    run.assume('the order of targets among themselves / decoys among themselves is not judged')
    jobs, info = build_jobs(run)
    if run.only:
        jobs = [j for j in jobs if j[0] in run.only]
    # longest jobs first for load balance
    order = sorted(range(len(jobs)), key=lambda i: -sum(len(s) for s in jobs[i][1]) * len(_CFG_SETS[jobs[i][2]]))
    res = vlib.pmap(work, [jobs[i] for i in order], jobs=run.jobs, chunk=1)
    errs = vlib.harness_errors(res)
    if errs:
        raise RuntimeError(errs[0])
    tot = {}
    best = {}
    agg = {}
    for block, ev, nt, b, a in res:
        t = tot.setdefault(block, [0, 0])
        t[0] += ev
        t[1] += nt
        for g, v in b.items():
            cur = best.get(g)
            if cur is None:
                best[g] = list(v)
            else:
                cnt = cur[5] + v[5]
                if v[0] < cur[0]:
                    best[g] = list(v)
                best[g][5] = cnt
        for k, v in (a or {}).items():
            c = agg.setdefault(k, [0, 0])
            c[0] += v[0]
            c[1] += v[1]
    # aggregate: a free terminal residue must move at least once over the whole single block
    for k in sorted(agg, key=lambda k: (k[0], cfg_rank(k[1:]))):
        elig, moved = agg[k]
        if elig >= 20 and moved == 0:
            cfg = k[1:]
            g = f'shuffle-never-moves/{k[0]}/{cfg[1] or "none"}'
            if g not in best:
                best[g] = [None, (), cfg, ('never', elig, k[0]), None, 1]
            else:
                best[g][5] += 1
    for g in sorted(best):
        _, case, cfg, detail, ctx, cnt = best[g]
        key = f'{g}/{"+".join(case) if case else "block"}'
        run.violation(key, f'{describe(detail)}; configuration {cfg_dict(cfg)}; {cnt} failing (case, configuration) pairs in '
                           f'this group, smallest shown', dict(group=g, case_targets=list(case), context_targets=ctx,
                                                               cfg=cfg_dict(cfg), failing_cases_in_group=cnt))
    names = ['single-all-options', 'single', 'single-lowcomplexity', 'pair', 'pair-anagram', 'pair-lowcomplexity', 'packed',
             'packed-trypsin-special']
    for b in names:
        if b in tot:
            run.block(b, tot[b][0], tot[b][1], True)
    run.extra['bounds'] = info
    run.extra['violation_groups'] = {g: best[g][5] for g in sorted(best)}
    t = 'AKC'
    c = ('reverse', 'trypsin', False, False, '', None, 'juxtaposed', 0)
    F = fixed_sets(t, 'trypsin', False, False, '')
    run.sample(dict(targets=[t], cfg=cfg_dict(c), required_fixed=sorted(F['must']),
                    expected_decoy=sorted(accepted_reversals(t, 'trypsin', False, False, ''))))
    run.sample(dict(targets=['AC', 'CA'], cfg=cfg_dict(('shuffle', None, False, False, '', 1, 'target_first', 0)),
                    note='anagram pair: each decoy must avoid both targets and the other decoy'))
    run.assume('whether a shuffled decoy may coincide with a target or with another decoy is not part of property C20 and is not judged')
    run.finish()


if __name__ == '__main__':
    main()
