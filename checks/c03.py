"""C03 — FASTA headers are truthful witnesses: every header entry names variants that occur in the
input for its backbone, applying exactly the named variants yields the peptide as a digestion
product, and every entry string occurs once in the FASTA (DESIGN §4 C03)."""
import sys
import vlib, enginea as E, cv_common as CC, panel, cvoracle as CV


def judge_headers(item):
    case, res = item
    out = dict(crash=not res['ok'], bad=[], n_entries=0)
    if not res['ok'] or not res['peptides']:
        return out
    ref = panel.get(case.ref)
    st = case.cfg.settings()
    seen = {}
    for pep, entries in res['peptides'].items():
        for e in entries:
            out['n_entries'] += 1
            if e in seen:
                out['bad'].append((pep, e, f'entry string also used for {seen[e]}'))
            seen[e] = pep
            ok, why = CV.witness(ref, case.small, case.as_recs, case.fusions, case.circs, st, e, pep)
            if not ok:
                out['bad'].append((pep, e, why))
    return out


def replay(path):
    import json
    r = json.load(open(path))
    case = CC.case_from_replay(r)
    res = E.execute(case)
    j = judge_headers((case, res))
    print('key :', r['key'])
    for pep, hs in sorted((res['peptides'] or {}).items()):
        print('  ', pep, hs)
    print('bad entries:', j['bad'])
    return j


def main():
    run = vlib.Run('C03', 'exploration', __doc__)
    if run.args.replay:
        j = replay(run.args.replay)
        sys.exit(1 if j['bad'] else 0)
    run.rule = ('every (peptide, header entry) pair of every output of the C01 blocks is re-derived: the named '
                'records (and only those) are applied to the named backbone and the peptide must be a digestion '
                'product; non-trivial = the output has at least one entry.')
    run.assume('witness uses the liberal product set (any permitted start, +/- N-terminal M, open tails)')
    total = {'entries': 0}

    def on_case(case, r, j, name):
        total['entries'] += j['n_entries']
        for pep, e, why in j['bad']:
            run.violation(f'{case.key()}|label:{pep}:{e}', f'peptide {pep} entry {e}: {why}', CC.case_to_replay(case))
        return j['n_entries'] > 0
    CC.run_blocks(run, 'C03', on_case, judge_fn=judge_headers)
    run.extra['header_entries_checked'] = total['entries']
    run.finish()


if __name__ == '__main__':
    main()
