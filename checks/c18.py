"""C18 — database bookkeeping conserves peptides (splitFasta, mergeFasta, encodeFasta, summarizeFasta).

Bounded exhaustive input enumeration; every case drives the real CLI command in-process (drive.run).
Blocks:
  split-isolated      every FASTA holding ONE peptide with 1-2 header entries (ordered) x 30 core option sets;
                      summarizeFasta on the same FASTA (+/- --ignore-missing-source) for the option sets it accepts
  split-batch-agree   the same peptides in one FASTA per option set: per-peptide database must equal the isolated run
  split-pairs         every ordered pair of peptides over 5 file layouts (same file / two of the three input FASTAs,
                      sharing or not sharing the sequence) x option sets
  split-options/*     representative peptide set (all single entries + every ordered pair of distinct source sets) x
                      the option space: all --order-source lists of <=k items (plain / combination / wildcard) x
                      --max-source-groups 1..3, all --additional-split lists of <=2, --group-source maps x orders over
                      the group names, GVF subsets, GVF orders; summarizeFasta under the same order/group options
  dup-id              the same variant id listed by two GVFs (source assignment ambiguity): split vs summarize
  merge               mergeFasta over all pairs (and triples) of small files, +/- --dedup-header
  encode              encodeFasta over all FASTAs of <=3(4) records incl. decoys x decoy string x position
Oracle-free: outputs partition the input, sequences unchanged, entries kept, merge = union, encode restores,
summarize totals = number of peptides = sizes of the split databases.  Oracle (lib/c18lib.choose, written from the
documentation) only for WHICH database / which summary row.
"""
import itertools, json, os, shutil, signal, sys
from collections import Counter
from pathlib import Path
import vlib, drive
import c18lib as L

G6 = list(L.GVF_SOURCES)
ALL9 = G6 + L.INTERNAL
TIMEOUT_S = 60


# ---- configs ------------------------------------------------------------------------------------
def mk(order=None, group=None, mx=1, add=None, gvfs=None):
    return dict(order=order, group=list(group) if group else None, max=mx, add=list(add) if add else None,
                gvfs=list(gvfs) if gvfs is not None else list(G6))


def cfg_key(c):
    p = []
    if c['gvfs'] != G6:
        p.append('gvf=' + ','.join(c['gvfs']))
    if c.get('order'):
        p.append('order=' + c['order'])
    if c.get('group'):
        p.append('group=' + '+'.join(c['group']))
    p.append(f"max={c['max']}")
    if c.get('add'):
        p.append('add=' + '+'.join(c['add']))
    return ';'.join(p)


def has_wild(c):
    return bool(c.get('order')) and any(t in L.WILD for it in c['order'].split(',') for t in it.split('-'))


# ---- the implementation's wildcard-expansion behaviour, modelled only to (a) give findings a
# mechanism-level key and (b) bound the exponential blow-up.  Never used as the expected value. ---------
def impl_source_pool(c):
    """(proper source names, number of single-character pseudo sources) the wildcard expansion draws from."""
    gm = L.group_of(c)
    proper, chars, listed = set(), set(), set()
    for it in (c['order'].split(',') if c.get('order') else []):
        if '-' in it:
            proper |= set(it.split('-')) - set(L.WILD)
        else:
            chars |= set(it)
            listed.add(it)
    for s in c['gvfs'] + L.INTERNAL:
        if s in listed:
            continue
        s = gm.get(s, s)
        if s not in listed:
            proper.add(s)
    return proper, chars - proper


def blowup(c):
    if not has_wild(c):
        return 0
    proper, chars = impl_source_pool(c)
    return len(proper) + len(chars)


def defect_rank(S, items, c, named=True, allset=True):
    """rank() under the hypothesised wildcard defects: `named` = sources listed by plain name in
    --order-source are not offered to wildcard expansion; `allset` = the expansion never adds ALL the
    other sources."""
    proper, chars = impl_source_pool(c)
    for lv, it in enumerate(items):
        if not (it & set(L.WILD)):
            if it == S:
                return (1, [lv]), it
            continue
        names = it - set(L.WILD)
        if not names <= S:
            continue
        extra = S - names
        pool = (proper - names) if named else (set(g for i2 in items for g in i2) - set(L.WILD) - names)
        n_ind = len(pool) + (len(chars) if named else 0)
        if not extra <= pool:
            continue
        if allset and len(extra) > n_ind - 1:
            continue
        if '+' in it and not extra:
            continue
        return (1, [lv]), it
    plain = {next(iter(it)): lv for lv, it in enumerate(items) if len(it) == 1}
    return (len(S), sorted(plain[s] for s in S)), None


def choose_with(entry_sources, c, rankfn):
    saved = L.rank
    L.rank = rankfn
    try:
        return L.choose(entry_sources, c)
    finally:
        L.rank = saved


def classify_choice(entry_sources, c, got):
    """Name the mechanism if the observed database is what a hypothesised defect would produce."""
    if not has_wild(c):
        return None
    for name, kw in (('wildcard-skips-sources-named-in-order', dict(named=True, allset=False)),
                     ('wildcard-never-adds-all-other-sources', dict(named=False, allset=True)),
                     ('wildcard-skips-named-and-all', dict(named=True, allset=True))):
        m = choose_with(entry_sources, c, lambda S, items, kw=kw: defect_rank(S, items, c, **kw))
        if got in m['may']:
            return name
    return None


# ---- world / running ------------------------------------------------------------------------------
_W = {}


def world(dup=False):
    if dup not in _W:
        _W[dup] = L.write_world(vlib.worker_dir() / ('world_dup' if dup else 'world'), dup)
    return _W[dup]


class _Timeout(Exception):
    pass


def _alarm(signum, frame):
    raise _Timeout()


def timed_run(argv, **override):
    signal.signal(signal.SIGALRM, _alarm)
    signal.alarm(TIMEOUT_S)
    try:
        return drive.run(argv, **override)
    except _Timeout:
        return dict(ok=False, exc=f'TIMEOUT>{TIMEOUT_S}s', tb='', log=None)
    finally:
        signal.alarm(0)


FILE_OPT = (('variant', '--variant-peptides'), ('novel', '--novel-orf-peptides'), ('alt', '--alt-translation-peptides'))


def common_argv(w, c, files, d):
    a = []
    for name, opt in FILE_OPT:
        if files.get(name):
            drive.write_fasta(d / f'{name}.fasta', files[name])
            a += [opt, d / f'{name}.fasta']
    a += ['-a', w / 'ref/annotation.gtf', '-p', w / 'ref/proteome.fasta', '--quiet']
    if c.get('order'):
        a += ['--order-source', c['order']]
    if c.get('group'):
        a += ['--group-source'] + c['group']
    return a


def run_split(c, files, dup=False):
    w = world(dup)
    d = vlib.worker_dir() / 'case'
    shutil.rmtree(d, ignore_errors=True)
    (d / 'out').mkdir(parents=True)
    argv = ['splitFasta', '-o', d / 'out/split', '--max-source-groups', c['max']] + common_argv(w, c, files, d)
    if c.get('add'):
        argv += ['--additional-split'] + c['add']
    over = {}
    if c['gvfs']:
        argv += ['--gvf'] + [w / f'{s}.gvf' for s in c['gvfs']]
    else:
        over['gvf'] = []
    r = timed_run(argv, **over)
    res = dict(ok=r['ok'], exc=r['exc'], dbs={})
    if r['ok']:
        for f in sorted((d / 'out').iterdir()):
            res['dbs'][f.name] = drive.read_fasta(f)
    return res


def run_summarize(c, files, dup=False, ignore_missing=False):
    w = world(dup)
    d = vlib.worker_dir() / 'case'
    d.mkdir(parents=True, exist_ok=True)
    argv = ['summarizeFasta', '-o', d / 'summary.txt'] + common_argv(w, c, files, d)
    over = {}
    if c['gvfs']:
        argv += ['--gvf'] + [w / f'{s}.gvf' for s in c['gvfs']]
    else:
        over['gvf'] = []
    if ignore_missing:
        argv.append('--ignore-missing-source')
    if (d / 'summary.txt').exists():
        (d / 'summary.txt').unlink()
    r = timed_run(argv, **over)
    res = dict(ok=r['ok'], exc=r['exc'], rows=None)
    if r['ok']:
        rows = {}
        lines = (d / 'summary.txt').read_text().splitlines()
        hdr = lines[0].split('\t')
        res['header_ok'] = hdr[:2] == ['sources', 'n_total']
        bad = []
        for ln in lines[1:]:
            f = ln.split('\t')
            key = frozenset(f[0].split('-'))
            if key in rows:
                bad.append(f'duplicate row {f[0]}')
            rows[key] = int(f[1])
            if sum(int(x) for x in f[2:]) != int(f[1]):
                bad.append(f'row {f[0]}: miscleavage columns do not add up to n_total')
        res['rows'] = rows
        res['bad'] = bad
    return res


# ---- evaluation -----------------------------------------------------------------------------------
def merged_input(files):
    """sequence -> list of entry texts in load order (variant, novel, alt)."""
    m = {}
    for name, _ in FILE_OPT:
        for h, s in files.get(name) or []:
            m.setdefault(s, []).extend(h.split(' '))
    return m


def entry_sources(texts, reassigned=None):
    return [L.ENTRY_BY_TEXT[t].sources_under(reassigned or {}) for t in texts]


def dup_assign(c, which):
    """dup world: the doubly listed id belongs to the first / the last of the two GVFs that list it."""
    two = [s for s in c['gvfs'] if s in ('gSNP', 'gINDEL')]
    return {L.DUP_ID: two[0] if which == 'first' else two[-1]}


def eval_split(c, files, res, dup=False):
    """-> (n_peptides, n_nontrivial, fails[(cls, pepkey, detail)], placed{seq: tokens})"""
    inp = merged_input(files)
    fails = []
    placed = {}
    if not res['ok']:
        return len(inp), 0, [('crash', '*', res['exc'])], placed
    where = {}
    for fname, recs in res['dbs'].items():
        try:
            tok = L.file_tokens(fname, 'split')
        except AssertionError:
            fails.append(('stray-file', '*', fname))
            continue
        for h, s in recs:
            where.setdefault(s, []).append((tok, h, fname))
    for s in where:
        if s not in inp:
            fails.append(('sequence-altered-or-invented', s, f'output sequence {s} is not an input sequence: {where[s]}'))
    nontriv = 0
    for s, texts in inp.items():
        pk = ' '.join(texts)
        locs = where.get(s, [])
        if not locs:
            fails.append(('peptide-lost', pk, f'{s} is in no output database'))
            continue
        if len(locs) > 1:
            fails.append(('peptide-duplicated', pk, f'{s} written {len(locs)} times: {[l[2] for l in locs]}'))
            continue
        tok, h, fname = locs[0]
        got_e = Counter(L.canon_entry(t) for t in h.split(' '))
        exp_e = Counter(L.canon_entry(t) for t in texts)
        if set(got_e) != set(exp_e):
            fails.append(('entries-changed', pk, f'header in {fname} is {h!r}; lost={sorted(set(exp_e) - set(got_e))} '
                          f'invented={sorted(set(got_e) - set(exp_e))}'))
        elif any(got_e[k] > exp_e[k] for k in got_e):
            fails.append(('entries-multiplied', pk, f'header in {fname} is {h!r}'))
        if dup:
            placed[s] = tok
            mays = [L.choose(entry_sources(texts, dup_assign(c, w)), c)['may'] for w in ('first', 'last')]
            if tok not in mays[0] | mays[1]:
                fails.append(('choice', pk, f'written to {fname}; expected {sorted(mays[0] | mays[1])} (either source of the doubly listed id)'))
            elif mays[0] != mays[1]:
                nontriv += 1
                placed[('used', s)] = 'first' if tok in mays[0] else 'last'
            continue
        es = entry_sources(texts)
        o = L.choose(es, c)
        if len(set(es)) > 1 or len(o['S']) > 1 or o['item'] is not None and len(o['item']) > 1:
            nontriv += 1
        placed[s] = tok
        if tok not in o['may']:
            mech = classify_choice(es, c, tok)
            fails.append(('choice' if mech is None else 'MECH:split/' + mech, pk,
                          f'written to {fname}; documented rule gives {sorted("-".join(t) for t in o["may"])} '
                          f'(winning source set {sorted(o["S"])}, matched order item {sorted(o["item"]) if o["item"] else None})'))
    return len(inp), nontriv, fails, placed


def eval_summarize(c, files, sres, split_res=None, reassigned=None):
    """-> fails[(cls, pepkey, detail)]"""
    inp = merged_input(files)
    if not sres['ok']:
        return [('summarize-crash', '*', sres['exc'])]
    fails = []
    rows = sres['rows']
    for b in sres['bad']:
        fails.append(('summarize-table', '*', b))
    exp = Counter()
    for s, texts in inp.items():
        exp[L.choose(entry_sources(texts, reassigned), c)['S']] += 1
    total = sum(rows.values())
    miss = {k: v for k, v in exp.items() if rows.get(k, 0) != v}
    extra = {k: v for k, v in rows.items() if v and exp.get(k, 0) != v}
    if total != len(inp) or miss or extra:
        fails.append(('summarize-totals', '*', f'peptides={len(inp)} sum(n_total)={total}; rows that differ from the oracle: '
                      f'expected { {"-".join(sorted(k)): v for k, v in miss.items()} } got '
                      f'{ {"-".join(sorted(k)): rows.get(k) for k in miss} } unexpected { {"-".join(sorted(k)): v for k, v in extra.items() if k not in miss} }'))
    if split_res is not None and split_res['ok']:
        # agreement with the databases splitFasta wrote under the same order/group options
        sizes = Counter()
        over = 0
        for fname, recs in split_res['dbs'].items():
            tok = L.file_tokens(fname, 'split')
            if tok == ('Remaining',) or 'additional' in tok:
                over += len(recs)
            else:
                sizes[frozenset(tok)] += len(recs)
        r_small = {k: v for k, v in rows.items() if v and len(k) <= c['max']}
        r_over = sum(v for k, v in rows.items() if len(k) > c['max'])
        if {k: v for k, v in sizes.items() if v} != r_small or over != r_over:
            fails.append(('summarize-vs-split', '*',
                          f'split sizes { {"-".join(sorted(k)): v for k, v in sizes.items()} } + over-max {over} vs summary '
                          f'{ {"-".join(sorted(k)): v for k, v in r_small.items()} } + over-max {r_over}'))
    return fails


# ---- peptide sets ---------------------------------------------------------------------------------
def peptides_all():
    """every header with 1 or 2 entries (ordered)."""
    E = [e.text for e in L.ENTRIES]
    return [[a] for a in E] + [[a, b] for a in E for b in E if a != b]


def reps():
    """one entry per distinct raw source set (first in alphabet order)."""
    seen = {}
    for e in L.ENTRIES:
        seen.setdefault(e.sources, e.text)
    return list(seen.values())


def peptides_rep():
    """all single entries + every ordered pair of representatives of distinct source sets."""
    R = reps()
    return [[e.text] for e in L.ENTRIES] + [[a, b] for a in R for b in R if a != b]


def available(pep, gvfs):
    ok = set(gvfs) | set(L.INTERNAL)
    return all(L.ENTRY_BY_TEXT[t].sources <= ok for t in pep)


# ---- work functions (run in forked workers) ------------------------------------------------------
def w_isolated(job):
    """job = (cfg, [peptide,...], summarize?) : one FASTA per peptide."""
    c, peps, do_sum = job
    n = nt = 0
    fails = []
    placed_all = {}
    for i, pep in enumerate(peps):
        files = {'variant': [(' '.join(pep), L.seq_of(0))]}
        res = run_split(c, files)
        a, b, f, placed = eval_split(c, files, res)
        n += a
        nt += b
        fails += f
        placed_all[' '.join(pep)] = placed.get(L.seq_of(0))
        if do_sum:
            for ign in (False, True):
                sres = run_summarize(c, files, ignore_missing=ign)
                f2 = eval_summarize(c, files, sres, res)
                fails += [(x[0], ' '.join(pep), x[2] + (' [--ignore-missing-source]' if ign else '')) for x in f2]
                n += 1
    return n, nt, fails, placed_all


def w_batch(job):
    """job = (cfg, [peptide,...], summarize?, dup?) : all peptides in one FASTA with distinct sequences."""
    c, peps, do_sum, dup = job[:4]
    want_placed = len(job) > 4 and job[4]
    files = {'variant': [(' '.join(p), L.seq_of(i)) for i, p in enumerate(peps)]}
    res = run_split(c, files, dup)
    n, nt, fails, placed = eval_split(c, files, res, dup)
    if dup and any(v == 'last' for k, v in placed.items() if isinstance(k, tuple)):
        fails.append(('dup-split-uses-last-gvf', '*', 'splitFasta attributed the doubly listed id to the later GVF'))
    if do_sum:
        sres = run_summarize(c, files, dup)
        if dup:
            fails += eval_dup(c, files, res, sres)
        else:
            fails += eval_summarize(c, files, sres, res)
        n += 1
    if len(peps) == 1:
        fails = [(a, ' '.join(peps[0]) if b == '*' else b, d) for a, b, d in fails]
    return n, nt, fails, ({' '.join(p): placed.get(L.seq_of(i)) for i, p in enumerate(peps)} if want_placed else None)


def eval_dup(c, files, res, sres):
    """Same variant id in two GVFs: whichever source the tool assigns, split and summarize must agree."""
    if not res['ok']:
        return []         # already reported by eval_split
    f1 = eval_summarize(c, files, sres, res, dup_assign(c, 'first'))
    if all(x[0].startswith('MECH:') for x in f1):
        return f1
    f2 = eval_summarize(c, files, sres, None, dup_assign(c, 'last'))
    if sres['ok'] and all(x[0].startswith('MECH:') for x in f2):
        # summarize is self-consistent under "last GVF wins" while split used "first GVF wins"
        return f2 + [('MECH:summarize/duplicate-variant-id-first-gvf-wins-in-split-last-in-summarize', '*',
                      '; '.join(x[2] for x in f1 if not x[0].startswith('MECH:'))[:900])]
    return f1


def w_pairs(job):
    """job = (cfg, layout, p, [q,...]) : the two peptides p, q in one case.
    layouts: same-file (distinct sequences) / variant+novel, variant+alt, novel+alt sharing the sequence /
    variant+novel distinct sequences."""
    c, layout, p, qs, do_sum = job
    n = nt = 0
    fails = []
    for q in qs:
        hp, hq = ' '.join(p), ' '.join(q)
        s0, s1 = L.seq_of(0), L.seq_of(1)
        if layout == 'same-file':
            if hp == hq:
                continue
            files = {'variant': [(hp, s0), (hq, s1)]}
        elif layout == 'two-files-distinct':
            files = {'variant': [(hp, s0)], 'novel': [(hq, s1)]}
        else:
            a, b = layout.split('+')
            files = {a: [(hp, s0)], b: [(hq, s0)]}
        res = run_split(c, files)
        a_, b_, f, _ = eval_split(c, files, res)
        n += a_
        nt += b_
        fails += [(x[0], f'[{layout}] {hp} || {hq}', x[2]) for x in f]
        if do_sum and layout == 'variant+novel':
            sres = run_summarize(c, files)
            f2 = eval_summarize(c, files, sres, res)
            fails += [(x[0], f'[{layout}] {hp} || {hq}', x[2]) for x in f2]
            n += 1
    return n, nt, fails, None


# ---- merge -----------------------------------------------------------------------------------------
def eval_merge(inputs, dedup, res_recs, ok, exc):
    if not ok:
        return [('merge-crash', exc)]
    fails = []
    exp = {}
    for recs in inputs:
        for h, s in recs:
            exp.setdefault(s, []).extend(h.split(' '))
    got = {}
    for h, s in res_recs:
        if s in got:
            fails.append(('merge-duplicate-sequence', s))
        got.setdefault(s, []).extend(h.split(' '))
    if set(got) != set(exp):
        fails.append(('merge-sequences', f'lost={sorted(set(exp) - set(got))} invented={sorted(set(got) - set(exp))}'))
    for s in set(got) & set(exp):
        ge, ee = Counter(got[s]), Counter(exp[s])
        if dedup:
            unv = lambda t: t.rsplit('|', 1)[0]
            if {unv(t) for t in ge} != {unv(t) for t in ee} or not set(ge) <= set(ee):
                fails.append(('merge-entries', f'{s}: got {got[s]} expected (deduplicated) {exp[s]}'))
            elif max(Counter(unv(t) for t in got[s]).values()) > 1:
                fails.append(('merge-dedup-left-duplicates', f'{s}: got {got[s]}'))
        else:
            if set(ge) != set(ee):
                fails.append(('merge-entries', f'{s}: got {got[s]} expected union {exp[s]} lost={sorted(set(ee) - set(ge))}'))
            elif any(ge[k] > ee[k] for k in ge):
                fails.append(('merge-entries-multiplied', f'{s}: got {got[s]} expected {exp[s]}'))
    return fails


def run_merge(inputs, dedup):
    d = vlib.worker_dir() / 'merge'
    shutil.rmtree(d, ignore_errors=True)
    d.mkdir(parents=True)
    paths = []
    for i, recs in enumerate(inputs):
        p = d / f'in{i}.fasta'
        drive.write_fasta(p, recs)
        paths.append(p)
    argv = ['mergeFasta', '-o', d / 'merged.fasta', '--quiet', '-i'] + paths
    if dedup:
        argv.append('--dedup-header')
    r = timed_run(argv)
    recs = drive.read_fasta(d / 'merged.fasta') if r['ok'] and (d / 'merged.fasta').exists() else []
    return r['ok'], r['exc'], recs


def merge_files(headers, nseq):
    """every file with 1..2 records: distinct sequences out of nseq, headers from `headers`."""
    seqs = [L.seq_of(i) for i in range(nseq)]
    one = [[(h, s)] for h in headers for s in seqs]
    two = [[(h1, s1), (h2, s2)] for s1, s2 in itertools.permutations(seqs, 2) if s1 < s2
           for h1 in headers for h2 in headers]
    return one + two


def w_merge(job):
    """job = (first file, [other files...], third or None)"""
    f1, others, f3 = job
    n = nt = 0
    fails = []
    for f2 in others:
        inputs = [f1, f2] + ([f3] if f3 else [])
        for dedup in (False, True):
            ok, exc, recs = run_merge(inputs, dedup)
            n += 1
            seqs = [s for f in inputs for _, s in f]
            if len(set(seqs)) < len(seqs):
                nt += 1
            for cls, detail in eval_merge(inputs, dedup, recs, ok, exc):
                fails.append((cls, f'dedup={dedup} ' + ' + '.join(';'.join(f'{s}:{h}' for h, s in f) for f in inputs), detail,
                              dict(kind='merge', inputs=inputs, dedup=dedup)))
    return n, nt, fails, None


# ---- encode ----------------------------------------------------------------------------------------
def run_encode(recs, decoy, pos):
    d = vlib.worker_dir() / 'encode'
    shutil.rmtree(d, ignore_errors=True)
    d.mkdir(parents=True)
    drive.write_fasta(d / 'in.fasta', recs)
    r = timed_run(['encodeFasta', '-i', d / 'in.fasta', '-o', d / 'out.fasta', '--decoy-string', decoy,
                   '--decoy-string-position', pos, '--quiet'])
    out, dic = [], []
    if r['ok']:
        out = drive.read_fasta(d / 'out.fasta')
        dic = [ln.split('\t', 1) for ln in (d / 'out.fasta.dict').read_text().splitlines()]
    return r['ok'], r['exc'], out, dic


def eval_encode(recs, decoy, pos, ok, exc, out, dic):
    if not ok:
        return [('encode-crash', exc)]
    fails = []
    if [s for _, s in out] != [s for _, s in recs]:
        return [('encode-sequences', f'in={recs} out={out}')]
    ids = [x[0] for x in dic]
    if any(len(x) != 2 for x in dic):
        return [('encode-dict-format', str(dic))]
    if len(set(ids)) != len(ids):
        fails.append(('encode-id-not-unique', str(dic)))
    if len({x[1] for x in dic}) != len(dic):
        fails.append(('encode-header-listed-twice', str(dic)))
    table = dict(dic)
    for (h_in, _), (h_out, _) in zip(recs, out):
        # restore: strip the decoy string if present, look the id up, put the decoy string back
        if pos == 'prefix' and h_out.startswith(decoy) and h_out[len(decoy):] in table:
            rest = decoy + table[h_out[len(decoy):]]
        elif pos == 'suffix' and h_out.endswith(decoy) and h_out[:-len(decoy)] in table:
            rest = table[h_out[:-len(decoy)]] + decoy
        elif h_out in table:
            rest = table[h_out]
        else:
            fails.append(('encode-id-not-in-dict', f'{h_out!r} for {h_in!r}'))
            continue
        if rest != h_in:
            fails.append(('encode-restore', f'{h_in!r} -> {h_out!r} -> {rest!r}'))
        if ' ' in h_out or '|' in h_out.replace(decoy, ''):
            fails.append(('encode-header-not-replaced', f'{h_in!r} -> {h_out!r}'))
    # same real header <=> same id
    real = lambda h: (h[len(decoy):] if pos == 'prefix' and h.startswith(decoy) else
                      h[:-len(decoy)] if pos == 'suffix' and h.endswith(decoy) else h)
    m = {}
    for (h_in, _), (h_out, _) in zip(recs, out):
        m.setdefault(real(h_in), set()).add(real(h_out))
    if any(len(v) > 1 for v in m.values()):
        fails.append(('encode-target-decoy-id-differs', str(m)))
    if len({next(iter(v)) for v in m.values() if len(v) == 1}) != len([v for v in m.values() if len(v) == 1]):
        fails.append(('encode-id-collision', str(m)))
    return fails


def w_encode(job):
    decoy, pos, first, headers, nrec = job
    n = nt = 0
    fails = []
    for rest in itertools.product(headers, repeat=nrec - 1):
        hs = (first,) + rest
        recs = [(h, L.seq_of(i)) for i, h in enumerate(hs)]
        ok, exc, out, dic = run_encode(recs, decoy, pos)
        n += 1
        if len(set(hs)) < len(hs) or any(decoy in h for h in hs):
            nt += 1
        for cls, detail in eval_encode(recs, decoy, pos, ok, exc, out, dic):
            fails.append((cls, f'decoy={decoy!r}/{pos} headers={list(hs)}', detail,
                          dict(kind='encode', recs=recs, decoy=decoy, pos=pos)))
    return n, nt, fails, None


# ---- blocks ----------------------------------------------------------------------------------------
GRP_TEST = ['DNA:gSNP,gINDEL', 'RNA:RNAEditing,Fusion,circRNA,AltSplice', 'ALT:SECT,CodonReassign']
GRP_WILD = ['Alt:SECT,CodonReassign', 'Variant:gSNP,gINDEL,RNAEditing,Fusion,AltSplice']


def core_configs():
    return [
        mk(), mk(mx=2), mk(mx=3),
        mk(gvfs=G6[::-1], mx=2),
        mk(gvfs=['Fusion', 'gINDEL', 'AltSplice', 'gSNP', 'circRNA', 'RNAEditing']),
        mk(order='RNAEditing,gSNP'),
        mk(order='NovelORF,CodonReassign,circRNA,AltSplice,Fusion,SECT,RNAEditing,gINDEL,gSNP', mx=2),
        mk(order='gSNP,gSNP-gINDEL,gINDEL', mx=2),
        mk(order='Fusion-gSNP,gSNP,Fusion'), mk(order='Fusion-gSNP,gSNP,Fusion', mx=2),
        mk(order='gINDEL,NovelORF-gSNP,gSNP-RNAEditing-circRNA,circRNA', mx=3),
        mk(group=['Coding:gSNP,gINDEL'], order='Coding,RNAEditing'),
        mk(group=GRP_TEST, order='ALT,DNA,RNA,NovelORF'), mk(group=GRP_TEST, order='ALT,DNA,RNA,NovelORF', mx=2),
        mk(group=GRP_TEST, mx=2),
        mk(group=['Any:' + ','.join(ALL9)]),
        mk(add=['gSNP-gINDEL', 'gSNP-RNAEditing']), mk(add=['NovelORF-gSNP']), mk(add=['gSNP']),
        mk(add=['Fusion', 'gSNP']), mk(add=['gSNP', 'Fusion']), mk(mx=2, add=['gSNP-Fusion', 'circRNA']),
        mk(group=GRP_TEST, add=['DNA', 'RNA-ALT']),
        mk(group=GRP_WILD, order='Variant,NovelORF,Variant-NovelORF,circRNA,circRNA-+,Alt-*', mx=4),
        mk(order='gSNP-*', mx=2), mk(order='gSNP-+', mx=3), mk(order='gSNP-+,gSNP', mx=1),
        mk(order='gSNP,gINDEL-*', mx=2), mk(order='Fusion-gSNP-*,circRNA-+', mx=3),
        mk(order='gSNP-*', mx=2, add=['gSNP', 'Fusion']),
    ]


def sum_configs():
    return [c for c in core_configs() if not has_wild(c) and not c['add'] and c['max'] <= 2]


def chunks(xs, n):
    return [xs[i:i + n] for i in range(0, len(xs), n)]


def collect(run, name, results, info, exhaustive=True):
    errs = vlib.harness_errors(results)
    if errs:
        raise RuntimeError(f'{name}: {errs[0]}')
    n = nt = 0
    fl = []
    for r in results:
        n += r[0]
        nt += r[1]
        fl += r[2]
    run.block(name, n, nt, exhaustive, **info)
    return fl


def order_space(items, kmax):
    out = []
    for k in range(1, kmax + 1):
        for t in itertools.permutations(items, k):
            out.append(','.join(t))
    return out


PLAIN = ['gSNP', 'gINDEL', 'Fusion', 'circRNA', 'NovelORF', 'CodonReassign']
COMBO = ['gSNP-gINDEL', 'Fusion-gSNP', 'NovelORF-gSNP']
WILDI = ['gSNP-*', 'gSNP-+', 'Fusion-*', 'circRNA-+', 'NovelORF-gSNP-*']
ADDS = ['gSNP', 'Fusion', 'gSNP-gINDEL', 'NovelORF-gSNP', 'circRNA-gSNP', 'CodonReassign']


def option_configs(run, wild_cap):
    """-> list of (sub-block, cfg).  The seed selects complete slices (orders sharing the first item)."""
    tier, seed = run.tier, run.seed
    items = PLAIN + COMBO + WILDI
    out = []
    kfull = 2 if tier == 'quick' else 3
    for o in order_space(items, kfull):
        for mx in (1, 2, 3):
            out.append(('orders', mk(order=o, mx=mx)))
    # next length: complete slices by first item
    k = kfull + 1
    firsts = vlib.seeded_windows(seed, len(items), 3 if tier == 'quick' else len(items), always=(0, 9))
    for fi in firsts:
        first = items[fi]
        rest = [x for x in items if x != first]
        for t in itertools.permutations(rest, k - 1):
            for mx in ((2,) if tier == 'quick' else (1, 2, 3)):
                out.append((f'orders-len{k}-first={first}', mk(order=','.join((first,) + t), mx=mx)))
    # additional-split lists
    lists = [[]] + [[a] for a in ADDS] + [[a, b] for a in ADDS for b in ADDS if a != b]
    for al in lists:
        for mx in (1, 2):
            for o in (None, 'Fusion,gSNP', 'gSNP-gINDEL,gINDEL', 'gSNP-*', 'CodonReassign,NovelORF,circRNA'):
                out.append(('additional-split', mk(order=o, mx=mx, add=al)))
    # group maps x orders over the group-level names
    gmaps = [['Coding:gSNP,gINDEL'], GRP_TEST, ['ALT:SECT,CodonReassign'], ['ALT:SECT,CodonReassign,NovelORF'],
             GRP_WILD, ['Any:' + ','.join(ALL9)], ['DNA:gSNP,gINDEL', 'Nov:NovelORF', 'Circ:circRNA'],
             ['Germline:gSNP,gINDEL', 'Somatic:sSNV,sINDEL'],
             ['X:gSNP,NovelORF', 'Y:Fusion,CodonReassign,AltSplice']]
    for gm in gmaps:
        g = L.group_of(dict(group=gm))
        names = []
        for s in ALL9:
            if g.get(s, s) not in names:
                names.append(g.get(s, s))
        gi = names[:4] + [f'{names[0]}-{names[1]}', f'{names[0]}-*', f'{names[1]}-+'] if len(names) > 1 else names
        for o in [None] + order_space(gi, 2 if tier == 'quick' else 3):
            for mx in (1, 2, 3):
                out.append(('groups', mk(order=o, group=gm, mx=mx)))
                if mx == 1 and o and '-' not in o:
                    out.append(('groups', mk(order=o, group=gm, mx=1, add=[names[0], f'{names[0]}-{names[-1]}'])))
    # GVF subsets and GVF orders (default order is inferred from the GVF order)
    subsets = [['gSNP'], ['gSNP', 'gINDEL'], ['gINDEL', 'gSNP'], ['Fusion', 'gSNP'], ['circRNA', 'gSNP', 'RNAEditing'],
               ['AltSplice', 'Fusion', 'circRNA'], []]
    for gv in subsets:
        for o in (None, 'gSNP-*', 'gSNP-+', 'NovelORF-*', 'NovelORF,gSNP', 'gSNP-NovelORF,NovelORF'):
            if o and 'gSNP' in o and 'gSNP' not in gv:
                continue
            for gm in (None, ['Alt:NovelORF,SECT,CodonReassign'], ['ALT:SECT,CodonReassign']):
                if gm and o and 'NovelORF' in o and 'NovelORF' in gm[0]:
                    continue
                for mx in (1, 2, 3):
                    out.append(('gvf-subsets', mk(order=o, group=gm, mx=mx, gvfs=gv)))
    perms = list(itertools.permutations(G6)) if tier == 'thorough' else \
        [p for p in itertools.permutations(G6) if p[0] in ('gSNP', 'circRNA') and p[1] in ('Fusion', 'gINDEL', 'gSNP')]
    for p in perms:
        out.append(('gvf-orders', mk(gvfs=list(p), mx=2)))
    # wildcard expansion blow-up cap (only while the implementation expands over pseudo sources)
    kept, capped = [], 0
    for sb, c in out:
        if wild_cap is not None and blowup(c) > wild_cap:
            capped += 1
            continue
        kept.append((sb, c))
    return kept, capped


def probe_wildcard_blowup():
    """Does the implementation expand wildcards over the characters of plainly named sources?"""
    c = mk(order='gSNP,gINDEL-*', mx=3)
    files = {'variant': [('ENST01|SNV-21-A-T|INDEL-25-A-AC|1', L.seq_of(0))]}
    res = run_split(c, files)
    return not (res['ok'] and 'split_gINDEL-ALL.fasta' in res['dbs'])


MECH = {}


def report(run, block, fails, case_of):
    """fails: [(cls, pepkey, detail, cfg)].  Mechanism classes get ONE key each (minimal case kept, reported
    once at the end of the run); everything else one key per case."""
    mech = MECH
    for cls, pk, detail, c in fails:
        if cls.startswith('MECH:'):
            k = cls[5:]
            cur = mech.get(k)
            size = (10 ** 6 if pk == '*' else len(pk.split(' ')), pk.count('|'), len(cfg_key(c)), pk)
            if cur is None or size < cur[0]:
                mech[k] = (size, pk, detail, c, (cur[4] if cur else 0) + 1, case_of(k, pk, c), block)
            else:
                mech[k] = cur[:4] + (cur[4] + 1,) + cur[5:]
        else:
            run.violation(f'{block}/{cls}/{cfg_key(c)}/{pk}', f'{cls}: {detail} | options: {cfg_key(c)} | peptide(s): {pk}',
                          case_of(cls, pk, c))


def report_mechanisms(run):
    for k, (size, pk, detail, c, cnt, case, block) in sorted(MECH.items()):
        run.violation(k, f'{cnt} failing case(s); smallest (block {block}): options {cfg_key(c)} | peptide(s): {pk} | {detail}',
                      case)


def split_case(cls, pk, c, layout='isolated', dup=False):
    return dict(kind='split', cfg=c, peptide=pk, layout=layout, dup=dup)


def main():
    run = vlib.Run('C18', 'exploration', __doc__)
    if run.args.replay:
        return replay(run.args.replay)
    tier = run.tier
    run.rule = ('header-entry alphabet: %d entries (%d kinds x 2 genes, %d distinct source sets) over 6 GVF sources + 3 '
                'internal sources; peptides = all headers with 1-2 entries (ordered); every case is one real CLI call. '
                'Non-trivial = the header entries disagree about the database or the winning set has >1 source '
                '(split); inputs share a sequence (merge); repeated header / decoy string present (encode).'
                % (len(L.ENTRIES), len(L.ENTRIES) // 2, len({e.sources for e in L.ENTRIES})))
    run.assume('input FASTAs are as callVariant/callNovelORF/callAltTranslation write them: sequences unique within a '
               'file, entries of the documented shapes, every variant id present in a GVF passed with --gvf')
    run.assume('an entry is identified by its backbone id plus the multiset of its other fields (splitFasta re-serialises '
               'FUSION/CIRC entries that carry an ORF id with the ORF field moved; field order is not part of C18)')
    run.assume('where the documentation is silent (how a wildcard level counts towards --max-source-groups; which set '
               '--additional-split is tested against for a wildcard level) the oracle accepts every reading; additional '
               'databases are named <set>-additional as in the unit tests (docs/split-fasta.md omits the suffix)')
    run.assume('fusion / circRNA entries never carry alternative-splicing ids (callVariant excludes them), which is what '
               'summarizeFasta relies on when it omits rows of "mutually exclusive" parsers')
    P_all = peptides_all()
    P_rep = peptides_rep()
    CORE = core_configs()
    vlib.scratch_root()          # created before any fork so that workers share (and the parent removes) it
    blow = probe_wildcard_blowup()
    wild_cap = 13 if blow else None
    run.extra['wildcard_expansion_over_pseudo_sources'] = blow

    all_fails = []

    # -- split-isolated ---------------------------------------------------------------------------
    if run.want('split-isolated'):
        sumk = {cfg_key(c) for c in sum_configs()}
        sumk_quick = {cfg_key(c) for c in sum_configs()[::3]}
        jobs = []
        batch_only = {cfg_key(c) for c in CORE if wild_cap is not None and blowup(c) > wild_cap}
        for c in CORE:
            if cfg_key(c) in batch_only:      # expansion too slow for 2500 separate calls: one batched call only
                continue
            for ch in chunks(P_all, 125):
                jobs.append((c, ch, False))
            if cfg_key(c) in sumk and (tier == 'thorough' or cfg_key(c) in sumk_quick):
                for ch in chunks(P_rep if tier == 'quick' else P_all, 60):
                    jobs.append((c, ch, True))
        res = vlib.pmap(w_isolated, jobs, jobs=run.jobs, chunk=1)
        fl = collect(run, 'split-isolated', res, dict(peptides=len(P_all), configs=len(CORE) - len(batch_only),
                                                      summarize_configs=len(sumk), batch_only_configs=sorted(batch_only)))
        fails = []
        iso = {}
        for (c, ch, ds), r in zip(jobs, res):
            fails += [(a, b, d, c) for a, b, d in r[2]]
            if not ds:
                for k, v in r[3].items():
                    iso[(cfg_key(c), k)] = v
        report(run, 'split-isolated', fails, split_case)
        # batched run must agree peptide by peptide
        jobs2 = [(c, P_all, cfg_key(c) in sumk, False, True) for c in CORE]
        res2 = vlib.pmap(w_batch, jobs2, jobs=run.jobs, chunk=1)
        collect(run, 'split-batch-agree', res2, dict(configs=len(CORE), peptides_per_fasta=len(P_all)))
        fails = []
        for (c, _, _, _, _), r in zip(jobs2, res2):
            for k, v in r[3].items():
                if cfg_key(c) not in batch_only and iso[(cfg_key(c), k)] != v:
                    fails.append(('batch-differs-from-isolated', k, f'alone -> {iso[(cfg_key(c), k)]}, in a {len(P_all)}-peptide FASTA -> {v}', c))
            fails += [(a, b, d, c) for a, b, d in r[2]]
        report(run, 'split-batch', fails, lambda cls, pk, c: split_case(cls, pk, c, layout='batch-all'))

    # -- split-pairs -------------------------------------------------------------------------------
    if run.want('split-pairs'):
        singles = [[e.text] for e in L.ENTRIES]
        R = reps()
        r8 = [R[i] for i in range(0, len(R), max(1, len(R) // 8))][:8]
        doubles = [[a, b] for a in r8 for b in r8 if a != b]
        pcfg = [mk(), mk(mx=2), CORE[12], CORE[25]]
        if tier == 'thorough':
            pcfg += [CORE[6], CORE[19], CORE[3], CORE[7], CORE[10], CORE[21], CORE[27]]
        layouts = ['same-file', 'two-files-distinct', 'variant+novel', 'variant+alt', 'novel+alt']
        jobs = []
        for c in pcfg:
            for lay in layouts:
                ds = not has_wild(c) and (tier == 'thorough' or c in pcfg[:2])
                for p in singles:
                    jobs.append((c, lay, p, singles, ds))
                if lay in ('variant+novel', 'same-file') and (tier == 'thorough' or c in pcfg[:2]):
                    for p in doubles:
                        jobs.append((c, lay, p, doubles, ds))
        res = vlib.pmap(w_pairs, jobs, jobs=run.jobs, chunk=4)
        collect(run, 'split-pairs', res, dict(configs=len(pcfg), layouts=len(layouts), singles=len(singles), doubles=len(doubles)))
        fails = []
        for (c, lay, p, qs, _), r in zip(jobs, res):
            fails += [(a, b, d, c) for a, b, d in r[2]]
        report(run, 'split-pairs', fails, lambda cls, pk, c: split_case(cls, pk, c, layout='pair'))

    # -- split-options -----------------------------------------------------------------------------
    if run.want('split-options'):
        cfgs, capped = option_configs(run, wild_cap)
        jobs = []
        for sb, c in cfgs:
            peps = [p for p in P_rep if available(p, c['gvfs'])]
            jobs.append((c, peps, not has_wild(c) and not c['add'] and bool(c['gvfs']), False))
        res = vlib.pmap(w_batch, jobs, jobs=run.jobs)
        errs = vlib.harness_errors(res)
        if errs:
            raise RuntimeError(errs[0])
        by = {}
        for (sb, c), r in zip(cfgs, res):
            sb0 = sb.split('-len')[0] if sb.startswith('orders') else sb
            b = by.setdefault(sb0, [0, 0, 0, set()])
            b[0] += r[0]
            b[1] += r[1]
            b[2] += 1
            if sb != sb0:
                b[3].add(sb)
        fails = []
        for (sb, c), r in zip(cfgs, res):
            fails += [(a, b, d, c) for a, b, d in r[2]]
        for sb0, (n, nt, nc, slices) in by.items():
            run.block(f'split-options/{sb0}', n, nt, True, configs=nc, peptides_per_fasta=len(P_rep),
                      **({'seed_selected_slices': sorted(slices)} if slices else {}))
        if wild_cap is not None:
            run.extra['wildcard_orders_not_executed_because_expansion_exceeds_2^%s_sets' % wild_cap] = capped
        report(run, 'split-options', fails, lambda cls, pk, c: split_case(cls, pk, c, layout='batch-rep'))

    # -- dup-id --------------------------------------------------------------------------------------
    if run.want('dup-id'):
        peps = [p for p in P_all if len(p) == 1 or (p[0] in reps() and p[1] in reps())]
        dcfg = [mk(mx=3), mk(gvfs=['gINDEL', 'gSNP', 'RNAEditing', 'Fusion', 'circRNA', 'AltSplice'], mx=3),
                mk(order='gINDEL,gSNP', mx=3), mk(group=['Coding:gSNP,gINDEL'], mx=3)]
        jobs = [(c, peps, True, True) for c in dcfg]
        jobs += [(c, [[e.text]], True, True) for c in dcfg for e in L.ENTRIES]
        res = vlib.pmap(w_batch, jobs, jobs=run.jobs, chunk=1)
        collect(run, 'dup-id', res, dict(configs=len(dcfg), note='SNV-21-A-T of gene 1 listed in the gSNP and the gINDEL GVF'))
        fails = []
        for (c, _, _, _), r in zip(jobs, res):
            fails += [(a, b, d, c) for a, b, d in r[2]]
        report(run, 'dup-id', fails, lambda cls, pk, c: split_case(cls, pk, c, layout='batch-rep', dup=True))

    # -- merge ---------------------------------------------------------------------------------------
    if run.want('merge'):
        H = ['ENST01|SNV-21-A-T|1', 'ENST01|SNV-21-A-T|2', 'ENST01|SNV-21-A-T|11', 'ENST03|RES-40-A-G|1 ENST01|SNV-21-A-T|1',
             'FUSION-ENST01:30-ENST03:40|1-SNV-21-A-T|2-SNV-30-C-G|1', 'ENST02|ENSG01|ORF1|1', 'ENST01|INDEL-25-A-AC|1']
        if tier == 'thorough':
            H += ['CIRC-ENST01-3:40|SNV-21-A-T|1 ENST01|W2F-3|1', 'ENST01|SNV-21-A-T|1 ENST01|SNV-21-A-T|2']
        F = merge_files(H, 2 if tier == 'quick' else 3)
        jobs = [(f1, F, None) for f1 in F]
        thirds = [[(H[0], L.seq_of(0))], [(H[3], L.seq_of(1)), (H[1], L.seq_of(0))], [(H[5], L.seq_of(2))]]
        F3 = merge_files(H[:4], 2)
        for t3 in thirds:
            jobs += [(f1, F3, t3) for f1 in F3]
        res = vlib.pmap(w_merge, jobs, jobs=run.jobs, chunk=1)
        fl = collect(run, 'merge', res, dict(files=len(F), headers=len(H), sequences=2, third_files=len(thirds)))
        for cls, pk, detail, case in fl:
            run.violation(f'merge/{cls}/{pk}', f'{cls}: {detail} | {pk}', case)

    # -- encode --------------------------------------------------------------------------------------
    if run.want('encode'):
        jobs = []
        for decoy in ('DECOY_', 'rev_', '|1'):
            for pos in ('prefix', 'suffix'):
                dz = lambda h: decoy + h if pos == 'prefix' else h + decoy
                base = ['ENST01|SNV-21-A-T|1', 'ENST03|RES-40-A-G|1 ENST01|SNV-21-A-T|1', 'ENST03|RES-40-A-G|1',
                        'ENST01|SNV-21-A-T|11']
                H = base + [dz(h) for h in base[:3]] + [decoy + 'ENST01|SNV-21-A-T|1' + decoy]
                # decoy string on the "wrong" side: an ordinary header under this position
                H.append((base[0] + decoy) if pos == 'prefix' else (decoy + base[0]))
                for nrec in ((1, 2, 3) if tier == 'quick' else (1, 2, 3, 4)):
                    for first in H:
                        jobs.append((decoy, pos, first, H if nrec < 4 else H[:7], nrec))
        res = vlib.pmap(w_encode, jobs, jobs=run.jobs, chunk=1)
        fl = collect(run, 'encode', res, dict(decoy_strings=3, positions=2, max_records=3 if tier == 'quick' else 4))
        for cls, pk, detail, case in fl:
            run.violation(f'encode/{cls}/{pk}', f'{cls}: {detail} | {pk}', case)

    report_mechanisms(run)
    run.sample(dict(kind='split', peptide='ENST03|RES-40-A-G|1 ENST01|SNV-21-A-T|INDEL-25-A-AC|1', options='max=1',
                    oracle=sorted('-'.join(t) for t in L.choose([frozenset({'RNAEditing'}), frozenset({'gSNP', 'gINDEL'})], mk())['may'])))
    run.sample(dict(kind='split', peptide='CIRC-ENST01-3:40|SNV-21-A-T|1', options='order=circRNA-+;max=2',
                    oracle=sorted('-'.join(t) for t in L.choose([frozenset({'circRNA', 'gSNP'})], mk(order='circRNA-+', mx=2))['may'])))
    run.finish()


# ---- replay ---------------------------------------------------------------------------------------
def replay(path):
    r = json.load(open(path))
    print('replaying', r['key'])
    print(r['what'])
    if r.get('kind') == 'split':
        c = r['cfg']
        texts = r['peptide']
        dup = r.get('dup', False)
        if texts.startswith('['):
            lay, rest = texts[1:].split('] ', 1)
            hp, hq = rest.split(' || ')
            s0, s1 = L.seq_of(0), L.seq_of(1)
            if lay == 'same-file':
                files = {'variant': [(hp, s0), (hq, s1)]}
            elif lay == 'two-files-distinct':
                files = {'variant': [(hp, s0)], 'novel': [(hq, s1)]}
            else:
                a, b = lay.split('+')
                files = {a: [(hp, s0)], b: [(hq, s0)]}
        elif texts == '*':
            peps = peptides_rep() if r['layout'] != 'batch-all' else peptides_all()
            peps = [p for p in peps if available(p, c['gvfs'])]
            files = {'variant': [(' '.join(p), L.seq_of(i)) for i, p in enumerate(peps)]}
        else:
            files = {'variant': [(texts, L.seq_of(0))]}
        print('options :', cfg_key(c), '(duplicate-id world)' if dup else '')
        if len(files['variant']) <= 3:
            print('input   :', files)
        res = run_split(c, files, dup)
        print('split ok:', res['ok'], res['exc'] or '')
        if len(files['variant']) <= 3:
            for k, v in res['dbs'].items():
                print('   ', k, v)
            if not dup:
                for s, t in merged_input(files).items():
                    o = L.choose(entry_sources(t), c)
                    print('expected:', s, '->', sorted('-'.join(x) for x in o['may']), 'winning set', sorted(o['S']))
        else:
            print('    databases:', {k: len(v) for k, v in res['dbs'].items()})
        n, nt, fails, _ = eval_split(c, files, res, dup)
        for f in fails[:20]:
            print('FAIL', f)
        if not has_wild(c) and c['gvfs']:
            sres = run_summarize(c, files, dup)
            print('summarize ok:', sres['ok'], sres['exc'] or '', {"-".join(sorted(k)): v for k, v in (sres['rows'] or {}).items() if v})
            ff = eval_dup(c, files, res, sres) if dup else eval_summarize(c, files, sres, res)
            for f in ff[:20]:
                print('FAIL', f)
    elif r.get('kind') == 'merge':
        inputs = [[tuple(x) for x in f] for f in r['inputs']]
        for i, f in enumerate(inputs):
            print(f'input {i}:', f)
        ok, exc, recs = run_merge(inputs, r['dedup'])
        print('mergeFasta', '--dedup-header' if r['dedup'] else '', 'ok:', ok, exc or '')
        print('got     :', recs)
        exp = {}
        for f in inputs:
            for h, s in f:
                exp.setdefault(s, []).extend(h.split(' '))
        print('expected: one record per sequence with the union of entries:', exp)
        for f in eval_merge(inputs, r['dedup'], recs, ok, exc):
            print('FAIL', f)
    elif r.get('kind') == 'encode':
        recs = [tuple(x) for x in r['recs']]
        ok, exc, out, dic = run_encode(recs, r['decoy'], r['pos'])
        print('input   :', recs, 'decoy string', repr(r['decoy']), r['pos'])
        print('encodeFasta ok:', ok, exc or '')
        print('output  :', out)
        print('dict    :', dic)
        print('expected: id (+decoy string) per record; dict lookup restores every input header exactly')
        for f in eval_encode(recs, r['decoy'], r['pos'], ok, exc, out, dic):
            print('FAIL', f)


if __name__ == '__main__':
    main()
