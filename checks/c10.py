"""C10 — canonical pool = exact in-silico digest; ExPASy rule semantics.

(a) RULES: for every rule (+ trypsin exception), exhaustive enumeration of amino-acid strings
    over rule-specific alphabets; the tool's site / range / stop-aware functions are compared
    with an independent position-class table (lib/expasy_table.py).
(b) POOL: exhaustive proteomes over a small alphabet; create_unique_peptide_pool compared with
    the oracle digest (lib/oracle.canonical_pool).
(c) E2E: the pool obtained on the fly / via generateIndex / via updateIndex for each CLI spelling
    of the exception, compared with the oracle pool for the *normalised* settings.
"""
import itertools, os, pickle, sys
from pathlib import Path
import vlib, drive, refgen, oracle as O, expasy_table as ET

AA20 = 'ACDEFGHIKLMNPQRSTVWY'


def class_representatives(rules):
    """One representative letter per equivalence class of residues w.r.t. every class the rules
    mention (two residues are equivalent if they belong to exactly the same classes)."""
    classes = []
    for r in rules:
        for b, a in ET.T[r]:
            for c in b + a:
                if c[0] != 'any':
                    classes.append(c)
    sig = {}
    for ch in AA20:
        key = tuple((c[0] == 'in') == (ch in c[1]) for c in classes)
        sig.setdefault(key, ch)
    return ''.join(sorted(sig.values()))


# ---- (a) rule semantics -------------------------------------------------------------------
def model_all(rule, exc, s):
    sites = ET.sites(rule, s, exc)
    # the stop-aware functions serve the graph: a "site" after the last residue of a fragment is no bond
    allst = set(x for x in sites if x < len(s))
    for i, ch in enumerate(s):
        if ch == '*':
            if i > 0:
                allst.add(i)
            if i < len(s) - 1:
                allst.add(i + 1)
    return sites, sorted(allst)


def check_string(job):
    """job = (rule, exc, s).  Returns None if everything agrees else a description."""
    from Bio.Seq import Seq
    from moPepGen.aa.AminoAcidSeqRecord import AminoAcidSeqRecord
    rule, exc, s = job
    rec = AminoAcidSeqRecord(Seq(s))
    exp_sites, exp_all = model_all(rule, exc, s)
    got = rec.find_all_enzymatic_cleave_sites(rule, exc)
    if got != exp_sites:
        return ('sites', exp_sites, got)
    try:
        wr = rec.find_all_enzymatic_cleave_sites_with_ranges(rule, exc)
    except Exception as e:
        return ('range-raises', exp_sites, repr(e)[:200])
    if [a for a, _ in wr] != exp_sites:
        return ('range-sites', exp_sites, wr)
    for x, (lo, hi) in wr:
        ok = False
        for b, a in ET.T[rule]:
            if x - lo == len(b) and hi - x == len(a) and ET.raw_sites(rule, s[lo:hi]) and \
                    (x - lo) in ET.raw_sites(rule, s[lo:hi]):
                ok = True
        if not ok:
            return ('range-not-a-match', x, (lo, hi))
    got_all = rec.find_all_cleave_and_stop_sites(rule, exc)
    if got_all != exp_all:
        return ('all-cleave-and-stop', exp_all, got_all)
    try:
        got_allr = rec.find_all_cleave_and_stop_sites_with_range(rule, exc)
    except Exception as e:
        return ('all-with-range-raises', exp_all, repr(e)[:200])
    if [a for a, _ in got_allr] != exp_all:
        return ('all-cleave-and-stop-with-range', exp_all, got_allr)
    first = rec.find_first_cleave_or_stop_site(rule, exc)
    exp_first = exp_all[0] if exp_all else -1
    if first != exp_first:
        return ('first-cleave-or-stop', exp_first, first)
    try:
        first_r = rec.find_first_cleave_or_stop_site_with_range(rule, exc)
    except Exception as e:
        return ('first-with-range-raises', exp_first, repr(e)[:200])
    if first_r[0] != exp_first:
        return ('first-cleave-or-stop-with-range', exp_first, first_r)
    f1 = rec.find_first_enzymatic_cleave_site(rule, exc)
    if f1 != (exp_sites[0] if exp_sites else -1):
        return ('first-enzymatic', exp_sites[:1], f1)
    return None


def rule_chunk(job):
    """job = (rule, exc, alphabet, length, prefix) -> (n, n_with_site, [failures])"""
    rule, exc, alpha, n, prefix = job
    cnt = nt = 0
    fails = []
    for tup in itertools.product(alpha, repeat=n - len(prefix)):
        s = prefix + ''.join(tup)
        cnt += 1
        r = check_string((rule, exc, s))
        if r is not None:
            fails.append((s, r))
        elif ET.raw_sites(rule, s):
            nt += 1
    return cnt, nt, fails


def rule_subst_chunk(job):
    """Single-letter sweep: every window string over the representative alphabet, each position
    replaced by each of the 20 residues."""
    rule, exc, alpha, L, prefix = job
    cnt = nt = 0
    fails = []
    seen = set()
    for tup in itertools.product(alpha, repeat=L - len(prefix)):
        w = prefix + ''.join(tup)
        for i in range(L):
            for ch in AA20:
                if ch in alpha:
                    continue
                s = w[:i] + ch + w[i + 1:]
                cnt += 1
                r = check_string((rule, exc, s))
                if r is not None:
                    fails.append((s, r))
                elif ET.raw_sites(rule, s):
                    nt += 1
    return cnt, nt, fails


def part_a(run):
    tier = run.tier
    jobs = []
    meta = {}
    combos = [(r, None) for r in ET.RULES] + [('trypsin', 'trypsin_exception')]
    for rule, exc in combos:
        rules = [rule] + ([exc] if exc else [])
        lb, la = ET.context(rule)
        if exc:
            eb, ea = ET.context(exc)
            lb, la = max(lb, eb), max(la, ea)
        L = lb + la
        reps = class_representatives(rules)
        if 'G' not in reps and len(reps) < 6:
            reps = ''.join(sorted(set(reps) | {'G'}))
        alpha_r = reps + '*'
        # block A: full alphabet (20 residues + stop), short strings
        nA = 3 if tier == 'quick' else 4
        # block B: representative alphabet, long strings (>= context + 2)
        budget = 20000 if tier == 'quick' else 400000
        nB = L + 2
        while len(alpha_r) ** (nB + 1) <= budget:
            nB += 1
        while len(alpha_r) ** nB > budget * 6 and nB > L + 1:
            nB -= 1
        meta[(rule, exc)] = dict(L=L, reps=alpha_r, nA=nA, nB=nB)
        for n in range(1, nA + 1):
            if n <= 2:
                jobs.append(('A', (rule, exc, AA20 + '*', n, '')))
            else:
                for p in AA20 + '*':
                    jobs.append(('A', (rule, exc, AA20 + '*', n, p)))
        for n in range(1, nB + 1):
            if len(alpha_r) ** n <= 3000:
                jobs.append(('B', (rule, exc, alpha_r, n, '')))
            else:
                for p in alpha_r:
                    jobs.append(('B', (rule, exc, alpha_r, n, p)))
        # block C: single-letter sweep on windows of the context length (+1 thorough)
        Lc = max(2, L) + (1 if tier == 'thorough' else 0)
        if len(reps) ** Lc * Lc * 20 <= (150000 if tier == 'quick' else 3000000):
            for p in reps:
                jobs.append(('C', (rule, exc, reps, Lc, p)))
            meta[(rule, exc)]['Lc'] = Lc

    def work(j):
        kind, job = j
        return (kind, job[0], job[1]) + ((rule_subst_chunk if kind == 'C' else rule_chunk)(job))
    res = vlib.pmap(work, jobs, jobs=run.jobs, chunk=1)
    errs = vlib.harness_errors(res)
    if errs:
        raise RuntimeError(errs[0])
    tot = {}
    for kind, rule, exc, cnt, nt, fails in res:
        t = tot.setdefault(kind, [0, 0])
        t[0] += cnt
        t[1] += nt
        for s, r in fails:
            run.violation(f'rule/{rule}/{exc}/{r[0]}/{s}',
                          f'rule={rule} exception={exc} string={s!r} check={r[0]} expected={r[1]} got={r[2]}',
                          dict(kind='rule', rule=rule, exception=exc, string=s))
    for kind, name in (('A', 'rules-full-alphabet-short'), ('B', 'rules-representative-alphabet-long'),
                       ('C', 'rules-single-letter-sweep')):
        if kind in tot:
            run.block(name, tot[kind][0], tot[kind][1], True, rules=len(combos))
    run.extra['rule_bounds'] = {f'{r}|{e}': m for (r, e), m in meta.items()}
    run.sample(dict(kind='rule', rule='trypsin', exception='trypsin_exception', string='ACKHR*K',
                    model_sites=ET.sites('trypsin', 'ACKHR*K', 'trypsin_exception')))


# ---- (b) pool ------------------------------------------------------------------------------
class _Tx:
    def __init__(self, nf):
        self.nf = nf

    def is_cds_start_nf(self):
        return self.nf


class _Anno:
    def __init__(self, nf_ids):
        self.transcripts = {k: _Tx(True) for k in nf_ids}


POOL_CFG = [
    # rule, exception, misc, min_len, max_len, min_mw
    ('trypsin', None, 0, 2, 4, 100.), ('trypsin', None, 2, 1, 7, 100.),
    ('trypsin', 'trypsin_exception', 1, 2, 5, 100.), ('trypsin', 'trypsin_exception', 2, 1, 7, 300.),
    ('lysc', None, 1, 2, 5, 100.), ('lysn', None, 1, 2, 5, 100.), ('asp-n', None, 2, 1, 6, 100.),
    ('chymotrypsin high specificity', None, 1, 2, 6, 100.), ('arg-c', None, 0, 3, 4, 250.),
    # tight maxima, so that strings of the enumerated lengths cross the upper limit by exactly one residue
    # (an N-terminal product of max_length + 1 whose M-removed form is still inside the limits)
    ('trypsin', None, 1, 1, 3, 100.), ('lysc', None, 2, 2, 3, 100.), ('trypsin', 'trypsin_exception', 2, 1, 2, 100.),
]


def pool_impl(proteins, nf_ids, cfg):
    from Bio.Seq import Seq
    from moPepGen.aa import AminoAcidSeqDict, AminoAcidSeqRecord
    rule, exc, misc, mn, mx, mw = cfg
    d = AminoAcidSeqDict()
    for tx, aa in proteins.items():
        d[tx] = AminoAcidSeqRecord(Seq(aa), _id=tx, transcript_id=tx, protein_id=tx, gene_id='G')
    try:
        return d.create_unique_peptide_pool(_Anno(nf_ids), rule, exc, misc, mw, mn, mx), None
    except Exception as e:
        return None, repr(e)[:300]


def pool_chunk(job):
    alpha, n, prefix, second = job
    cnt = nt = 0
    fails = []
    for tup in itertools.product(alpha, repeat=n - len(prefix)):
        aa = prefix + ''.join(tup)
        for nf in (False, True):
            proteins = {'T1': aa}
            if second:
                proteins['T2'] = second
            nf_ids = {'T1'} if nf else set()
            for cfg in POOL_CFG:
                cl = O.Cleavage(cfg[0], cfg[1], cfg[2], cfg[3], cfg[4], cfg[5])
                exp = O.canonical_pool(proteins, cl, frozenset(nf_ids))
                got, err = pool_impl(proteins, nf_ids, cfg)
                cnt += 1
                if err is not None or got != exp:
                    # mass exactly at the limit is left undecided (strict vs non-strict)
                    fails.append((aa, second, nf, cfg, err,
                                  sorted(exp - got)[:5] if got is not None else None,
                                  sorted(got - exp)[:5] if got is not None else None))
                elif exp:
                    nt += 1
    return cnt, nt, fails


def part_b(run):
    alpha = 'MKRPIACDH'
    n = 4 if run.tier == 'quick' else 5
    jobs = []
    for k in range(1, n + 1):
        if k <= 2:
            jobs.append((alpha + 'X*', k, '', None))
        else:
            for p in alpha + 'X*':
                for q in alpha + 'X*':
                    jobs.append((alpha + 'X*', k, p + q, None))
    # two-protein proteomes (iteration state of the pool builder): second protein fixed shapes
    for second in ('MKIR', 'XXKAR', 'M*K', 'AXK'):
        for k in range(1, 4):
            jobs.append(('MKRX*I', k, '', second))
    res = vlib.pmap(pool_chunk, jobs, jobs=run.jobs, chunk=1)
    errs = vlib.harness_errors(res)
    if errs:
        raise RuntimeError(errs[0])
    cnt = nt = 0
    for c, t, fails in res:
        cnt += c
        nt += t
        for aa, second, nf, cfg, err, miss, extra in fails:
            run.violation(f'pool/{aa}/{second}/{nf}/{"/".join(map(str, cfg))}',
                          f'proteome T1={aa!r} T2={second!r} cds_start_NF={nf} settings={cfg}: '
                          f'error={err} missing={miss} spurious={extra}',
                          dict(kind='pool', T1=aa, T2=second, nf=nf, cfg=cfg))
    run.block('pool-all-proteins', cnt, nt, True, alphabet=alpha + 'X*', max_len=n, settings=len(POOL_CFG))
    run.sample(dict(kind='pool', proteome={'T1': 'MKIR'}, settings=POOL_CFG[1],
                    oracle_pool=sorted(O.canonical_pool({'T1': 'MKIR'}, O.Cleavage(*POOL_CFG[1])))))


# ---- (c) end to end -----------------------------------------------------------------------
E2E_PROTEINS = ['MACKHAAAAKAAARRHAAAK', 'MAAACKDAAAKAAACRKAAAR', 'MIAAKIAAIRRRAAAAK', 'MAAAKPAAARAAWKPAAAMRPAAK']


def e2e_case(job):
    i, aas, spelling, misc = job
    d = vlib.worker_dir() / f'e2e{i}'
    d.mkdir(exist_ok=True)
    cds = O.back_translate(aas)
    tx = 'GGCACC' + cds + 'TAA' + 'GGCTTAGCC'
    pad = 'ACGTACGTAC'
    genome = pad + tx + pad
    R = refgen.Ref(genome, [dict(gene_id='ENSG01', strand=1, transcripts=[
        dict(tx_id='ENST01', exons=[(10, 10 + len(tx))], cds=(16, 16 + len(cds)))])])
    R.write(d / 'ref')
    exp = O.canonical_pool(R.proteins(), O.Cleavage('trypsin', 'auto' if spelling == 'default' else spelling, misc, 4, 25, 300.))
    cargv = ['--cleavage-rule', 'trypsin', '--miscleavage', misc, '--min-length', 4, '--max-length', 25,
             '--min-mw', 300.]
    if spelling != 'default':
        cargv += ['--cleavage-exception', spelling]
    out = []
    from moPepGen.cli import common
    from moPepGen import params
    # on the fly
    try:
        args = drive.parse(['callVariant', '-i', d / 'x.gvf', '-o', d / 'o.fasta'] + drive.ref_argv(d / 'ref') + cargv)
        cp = params.CleavageParams(enzyme=args.cleavage_rule, exception=args.cleavage_exception,
                                   miscleavage=int(args.miscleavage), min_mw=float(args.min_mw),
                                   min_length=args.min_length, max_length=args.max_length)
        _, _, _, pool = common.load_references(args, cleavage_params=cp)
        out.append(('on-the-fly', set(pool)))
    except Exception as e:
        out.append(('on-the-fly', repr(e)[:200]))
    # generateIndex then load
    idx = d / 'idx'
    import shutil
    shutil.rmtree(idx, ignore_errors=True)
    r = drive.run(['generateIndex', '-o', idx, '--quiet'] + drive.ref_argv(d / 'ref') + cargv)
    if not r['ok']:
        out.append(('generateIndex', r['exc']))
    else:
        try:
            args = drive.parse(['callVariant', '-i', d / 'x.gvf', '-o', d / 'o.fasta', '--index-dir', idx] + cargv)
            cp = params.CleavageParams(enzyme=args.cleavage_rule, exception=args.cleavage_exception,
                                       miscleavage=int(args.miscleavage), min_mw=float(args.min_mw),
                                       min_length=args.min_length, max_length=args.max_length)
            _, _, _, pool = common.load_references(args, cleavage_params=cp)
            out.append(('generateIndex', set(pool)))
        except Exception as e:
            out.append(('generateIndex', repr(e)[:200]))
    # generateIndex with other settings, updateIndex with these, load
    idx2 = d / 'idx2'
    shutil.rmtree(idx2, ignore_errors=True)
    r = drive.run(['generateIndex', '-o', idx2, '--quiet', '--cleavage-rule', 'lysc'] + drive.ref_argv(d / 'ref'))
    r2 = drive.run(['updateIndex', '--index-dir', idx2, '--quiet'] + cargv) if r['ok'] else r
    if not r2['ok']:
        out.append(('updateIndex', r2['exc']))
    else:
        try:
            args = drive.parse(['callVariant', '-i', d / 'x.gvf', '-o', d / 'o.fasta', '--index-dir', idx2] + cargv)
            cp = params.CleavageParams(enzyme=args.cleavage_rule, exception=args.cleavage_exception,
                                       miscleavage=int(args.miscleavage), min_mw=float(args.min_mw),
                                       min_length=args.min_length, max_length=args.max_length)
            _, _, _, pool = common.load_references(args, cleavage_params=cp)
            out.append(('updateIndex', set(pool)))
        except Exception as e:
            out.append(('updateIndex', repr(e)[:200]))
    fails = []
    for path, got in out:
        if not isinstance(got, set) or got != exp:
            fails.append((path, got if not isinstance(got, set) else dict(missing=sorted(exp - got)[:6], spurious=sorted(got - exp)[:6])))
    shutil.rmtree(d, ignore_errors=True)
    return (aas, spelling, misc, len(exp), fails)


def part_c(run):
    jobs = []
    i = 0
    for aas in E2E_PROTEINS:
        for sp in ('default', 'auto', 'trypsin_exception', 'None'):
            for misc in ((0, 2) if run.tier == 'quick' else (0, 1, 2)):
                jobs.append((i, aas, sp, misc))
                i += 1
    res = vlib.pmap(e2e_case, jobs, jobs=run.jobs, chunk=1)
    errs = vlib.harness_errors(res)
    if errs:
        raise RuntimeError(errs[0])
    nt = 0
    for aas, sp, misc, nexp, fails in res:
        nt += 1 if nexp else 0
        for path, what in fails:
            run.violation(f'e2e/{path}/{sp}/{misc}/{aas}',
                          f'pool via {path} with --cleavage-exception {sp} misc={misc} proteome={aas}: {what}',
                          dict(kind='e2e', path=path, spelling=sp, misc=misc, protein=aas))
    run.block('pool-end-to-end', len(jobs) * 3, nt, True, paths='on-the-fly,generateIndex,updateIndex',
              spellings='default,auto,trypsin_exception,None')
    run.sample(dict(kind='e2e', protein=E2E_PROTEINS[0], spelling='auto', misc=2))


def replay(path):
    import json
    r = json.load(open(path))
    print('replaying', r['key'])
    if r['kind'] == 'rule':
        print('result:', check_string((r['rule'], r['exception'], r['string'])))
    elif r['kind'] == 'pool':
        cfg = tuple(r['cfg'])
        proteins = {'T1': r['T1']}
        if r['T2']:
            proteins['T2'] = r['T2']
        nf = {'T1'} if r['nf'] else set()
        print('oracle:', sorted(O.canonical_pool(proteins, O.Cleavage(*cfg), frozenset(nf))))
        print('impl  :', pool_impl(proteins, nf, cfg))
    else:
        print(e2e_case((0, r['protein'], r['spelling'], r['misc'])))


def main():
    run = vlib.Run('C10', 'exploration', __doc__)
    if run.args.replay:
        return replay(run.args.replay)
    run.rule = ('(a) every string up to the stated length over (i) all 20 residues + stop, (ii) one '
                'representative per residue class of the rule + stop, (iii) single-residue sweeps of every '
                'context window; (b) every protein up to the stated length over MKRPIACDH+X+* as a one- or '
                'two-protein proteome x 9 settings x cds_start_NF; (c) 4 designed proteomes x 4 spellings of '
                'the exception x 3 ways to obtain the pool.  Non-trivial: the string has >=1 cleavage site / '
                'the oracle pool is non-empty.')
    run.assume('lib/expasy_table.py is a correct transcription of the PeptideCutter rules (cross-checked '
               'against two separately written regex tables in the repository)')
    run.assume('a peptide whose mass equals min_mw exactly is not decided (the tool uses > in the pool builder)')
    if run.want('a'):
        part_a(run)
    if run.want('b'):
        part_b(run)
    if run.want('c'):
        part_c(run)
    run.finish()


if __name__ == '__main__':
    main()
