"""C11 — reference model: coordinates and sequences are mutually consistent; on-disk == parsed;
cache-access histories; GTF round trip.

Blocks (each enumerated completely, nothing sampled):
  grammar      every annotation of the grammar Gk (strand x 1-3 exons x lengths x introns x every CDS
               span incl. none / cds_start_NF frame 1,2 / mRNA_end_NF x Sec codons) in gene contexts
               (alone, two isoforms, neighbour genes) -> for the fully parsed model (per-record path of
               dump_gtf), GenomicAnnotationOnDisk.generate_index and the saved-.idx load_index:
               models == dictionary model for every key; every genomic / gene / transcript position
               through every coordinate map; gene / transcript / CDS sequences; orf; Sec; then
               GtfIO.write -> parse back (both paths) == original models.
  styles       a reduced grammar written the way GENCODE / ENSEMBL really ship GTFs (start/stop codon
               records, UTR incl. stop codon, five/three_prime_utr, descending line order)
  intervals    per structure: every slice / concatenation of the transcript record (coordinates kept by
               DNASeqRecordWithCoordinates), every gene interval through feature_coordinate_*
  histories    explicit-state BFS over access sequences to the pointer dictionaries with cache size 2
               (and 1) + exhaustive trace enumeration to depth d; dict model in lock-step
  gtfio        GtfIO.parse / GenomicAnnotation.dump_gtf on the unchanged tree
"""
import io, itertools, json, os, shutil, sys, types
from collections import deque
from pathlib import Path
import vlib, refgen, oracle as O
import c11lib as L

LABELS = ('mem', 'disk', 'idx')
FULL_IDX = False     # main() sets it for the thorough tier: every position through the .idx-loaded annotation too
_PARSE_OK = None


# ---- implementation side ------------------------------------------------------------------------
def parse_works():
    """Does GtfIO.parse run at all in this environment? (B3)"""
    global _PARSE_OK
    if _PARSE_OK is None:
        from moPepGen.gtf import GtfIO
        try:
            list(GtfIO.parse(io.StringIO('')))
            _PARSE_OK = (True, '')
        except Exception as e:     # noqa
            _PARSE_OK = (False, f'{type(e).__name__}: {e}')
    return _PARSE_OK


def load_mem(path):
    """The fully parsed annotation, through exactly the per-record code dump_gtf runs
    (GtfIterator.iterate -> line_to_seq_feature; infer source; add_gene_record / add_transcript_record;
    sort_records)."""
    from moPepGen.gtf import GenomicAnnotation, GtfIO
    from moPepGen.gtf.GTFSourceInferrer import GTFSourceInferrer
    anno = GenomicAnnotation()
    inf = GTFSourceInferrer()
    with open(path, 'rt') as fh:
        for record in GtfIO.GtfIterator.iterate(fh):
            record.source = inf.infer(record)
            if record.type.lower() == 'gene':
                anno.add_gene_record(record)
            else:
                anno.add_transcript_record(record)
    for m in anno.transcripts.values():
        m.sort_records()
    return anno


def load_dump(path):
    from moPepGen.gtf import GenomicAnnotation
    anno = GenomicAnnotation()
    anno.dump_gtf(str(path))
    return anno


def load_disk(path):
    from moPepGen.gtf import GenomicAnnotationOnDisk
    anno = GenomicAnnotationOnDisk()
    anno.generate_index(Path(path))
    return anno


def load_idx(path, idx_dir, proteome):
    """generateIndex's way: IndexDir.save_annotation (writes *_gene.idx / *_tx.idx), then a fresh
    IndexDir.load_annotation."""
    from moPepGen.index import IndexDir
    idx_dir = Path(idx_dir)
    shutil.rmtree(idx_dir, ignore_errors=True)
    idx_dir.mkdir(parents=True)
    d = IndexDir(idx_dir)
    anno = d.save_annotation(Path(path), source=None, proteome=proteome, invalid_protein_as_noncoding=True,
                             symlink=False)
    d.metadata.source = anno.source
    d.save_metadata()
    del anno
    d2 = IndexDir(idx_dir)
    return d2.load_annotation()


_chrom_cache = {}


def chrom_record(chrom):
    if chrom not in _chrom_cache:
        from Bio.Seq import Seq
        from moPepGen import dna
        _chrom_cache[chrom] = dna.DNASeqRecord(Seq(L.GENOME), id=chrom, name=chrom, description=chrom)
    return _chrom_cache[chrom]


def call(fn, *a):
    try:
        return ('ok', fn(*a))
    except ValueError as e:
        return ('ValueError', None)
    except Exception as e:      # any other exception type is a crash, not a rejection
        return (type(e).__name__, str(e)[:120])


# ---- per-annotation checks --------------------------------------------------------------------
class Fails:
    def __init__(self):
        self.items = []      # (check, qual|None, label, detail)
        self.n = 0           # comparisons made

    def eq(self, check, label, exp, got, ctx='', qual=None):
        self.n += 1
        if exp != got:
            self.items.append((check, qual, label, f'{ctx} expected={exp!r} got={got!r}'))
            return False
        return True

    def add(self, check, label, detail, qual=None):
        self.items.append((check, qual, label, detail))


def check_models(F, label, anno, exp_g, exp_t, style, gene_order, tx_order):
    """every key: model == dictionary model"""
    F.eq('keys/genes', label, gene_order, list(anno.genes.keys()))
    F.eq('keys/transcripts', label, tx_order, list(anno.transcripts.keys()))
    F.eq('keys/iter-genes', label, gene_order, list(iter(anno.genes)))
    F.eq('keys/len', label, (len(gene_order), len(tx_order)), (len(anno.genes), len(anno.transcripts)))
    F.eq('keys/contains', label, (True, True, False, False),
         (gene_order[0] in anno.genes, tx_order[-1] in anno.transcripts, tx_order[0] in anno.genes, 'nope' in anno.transcripts))
    got = {}
    for gid in gene_order:
        st, g = call(lambda: anno.genes[gid])
        if st != 'ok':
            F.add('model/gene-load', label, f'{gid}: {st} {g}')
            continue
        cg = L.canon_gene(g)
        got[gid] = cg
        e = exp_g[gid]
        F.n += 1
        for k in ('feature', 'transcripts', 'n_exons'):
            if e[k] != cg[k]:
                F.add('model/gene', label, L.diff(e[k], cg[k], f'{gid}.{k}'))
        if cg['dup'] or cg['cls'] != 'GeneAnnotationModel':
            F.add('model/gene', label, f'{gid}: class={cg["cls"]} duplicate transcripts={cg["dup"]}')
    for tid in tx_order:
        st, t = call(lambda: anno.transcripts[tid])
        if st != 'ok':
            F.add('model/tx-load', label, f'{tid}: {st} {t}')
            continue
        ct = L.canon_tx(t)
        got[tid] = ct
        e = exp_t[tid]
        F.n += 1
        for k in L.TX_LISTS + ('transcript',):
            a, b = e[k], ct[k]
            if style['ensembl']:          # attributes not predicted for this style
                b = [x[:7] + (None,) + x[8:] for x in b] if isinstance(b, list) else b[:7] + (None,) + b[8:]
            if a != b:
                F.add('model/tx', label, L.diff(a, b, f'{tid}.{k}'))
        if not style['ensembl']:
            F.eq('model/tx-ids', label, e['ids'], ct['ids'], tid)
        F.eq('model/tx-source', label, e['source'], ct['source'], tid)
        F.eq('model/tx-classes', label, ('GTFSeqFeature',), ct['cls'], tid)
        F.eq('model/tx-nf', label, ('cds_start_NF' in dict(e['transcript'][7] or ()).get('tag', ()) if not style['ensembl'] else None,
                                    'mRNA_end_NF' in dict(e['transcript'][7] or ()).get('tag', ()) if not style['ensembl'] else None),
             (t.is_cds_start_nf() if not style['ensembl'] else None, t.is_mrna_end_nf() if not style['ensembl'] else None), tid)
    return got


def coord_tables(ref, gid, txs):
    """Expected values of every map at every position, from the oracle (computed once per annotation)."""
    gs, ge = ref.gene_span(gid)
    tab = dict(gs=gs, ge=ge, g2i={x: ref.genomic_to_gene(gid, x) for x in range(gs, ge)},
               i2g=[ref.gene_to_genomic(gid, i) for i in range(ge - gs)], tx={})
    for t in txs:
        tid = t.tx_id
        i2k = {i: ref.gene_to_tx(tid, i) for i in range(ge - gs)}
        k2x = [ref.gene_to_genomic(gid, ref.tx_to_gene(tid, k)) for k in range(t.L)]
        if k2x != [t.g(k) for k in range(t.L)]:
            raise RuntimeError(f'harness: the two oracles disagree on {tid}: {k2x}')
        exonic = {x for s, e in t.exons for x in range(s, e)}
        x2k = {x: i2k[tab['g2i'][x]] for x in exonic}
        if sorted(x2k.values()) != list(range(t.L)) or any(k2x[k] != x for x, k in x2k.items()):
            raise RuntimeError(f'harness: oracle maps of {tid} are not mutually inverse')
        tab['tx'][tid] = dict(i2k=i2k, k2x=k2x, exonic=exonic, x2k=x2k, lo=t.exons[0][0], hi=t.exons[-1][1])
    return tab


def check_coords(F, label, anno, tab, gid, txs):
    """every genomic / gene / transcript position through every map"""
    gs, ge = tab['gs'], tab['ge']
    Lg = ge - gs
    glen = len(L.GENOME)
    nrej = 0
    g2i, i2g = tab['g2i'], tab['i2g']
    gen2gene, gene2gen = anno.coordinate_genomic_to_gene, anno.coordinate_gene_to_genomic
    for x in range(-1, glen + 1):
        r = call(gen2gene, x, gid)
        if gs <= x < ge:
            i = g2i[x]
            if F.eq('coord/genomic_to_gene', label, ('ok', i), r, f'{gid} x={x}'):
                F.eq('coord/gene_to_genomic(genomic_to_gene)', label, ('ok', x), call(gene2gen, i, gid), f'{gid} x={x}')
        else:
            F.eq('coord/genomic_to_gene-outside', label, 'ValueError', r[0], f'{gid} x={x}')
    for i in range(-2, Lg + 2):
        r = call(gene2gen, i, gid)
        if 0 <= i < Lg:
            x = i2g[i]
            if F.eq('coord/gene_to_genomic', label, ('ok', x), r, f'{gid} i={i}'):
                F.eq('coord/genomic_to_gene(gene_to_genomic)', label, ('ok', i), call(gen2gene, x, gid), f'{gid} i={i}')
        else:
            F.n += 1
            if not (r[0] == 'ValueError' or (r[0] == 'ok' and not gs <= r[1] < ge)):
                F.add('coord/gene_to_genomic-outside', label, f'{gid} i={i} mapped into the gene: {r}')
    for t in txs:
        tid = t.tx_id
        tt = tab['tx'][tid]
        tm = anno.transcripts[tid]
        exonic, x2k, i2k, k2x = tt['exonic'], tt['x2k'], tt['i2k'], tt['k2x']
        tx2gen = anno.coordinate_transcript_to_genomic
        for x in range(-1, glen + 1):
            ex = x in exonic
            r = call(tm.get_transcript_index, x)
            F.eq('coord/is_exonic', label, ex, tm.is_exonic(x), f'{tid} x={x}')
            if ex:
                k = x2k[x]
                if F.eq('coord/genomic_to_transcript', label, ('ok', k), r, f'{tid} x={x}'):
                    F.eq('coord/transcript_to_genomic(genomic_to_transcript)', label, ('ok', x), call(tx2gen, k, tid), f'{tid} x={x}')
            else:
                intronic = tt['lo'] <= x < tt['hi']
                nrej += intronic
                F.eq('coord/genomic_to_transcript-rejects', label, 'ValueError', r[0],
                     f'{tid} x={x} ({"intronic" if intronic else "outside"}) -> {r}')
        for i in range(-2, Lg + 2):
            k = i2k.get(i)
            r = call(anno.coordinate_gene_to_transcript, i, gid, tid)
            if k is not None:
                F.eq('coord/gene_to_transcript', label, ('ok', k), r, f'{tid} i={i}')
            else:
                F.eq('coord/gene_to_transcript-rejects', label, 'ValueError', r[0], f'{tid} i={i} -> {r}')
        for k in range(-2, t.L + 2):
            r = call(tx2gen, k, tid)
            if 0 <= k < t.L:
                x = k2x[k]
                if F.eq('coord/transcript_to_genomic', label, ('ok', x), r, f'{tid} k={k}'):
                    F.eq('coord/genomic_to_transcript(transcript_to_genomic)', label, ('ok', k), call(tm.get_transcript_index, x), f'{tid} k={k}')
                    F.eq('coord/transcript->genomic->gene->transcript', label, ('ok', k),
                         call(lambda: anno.coordinate_gene_to_transcript(gen2gene(x, gid), gid, tid)), f'{tid} k={k}')
            else:
                F.n += 1
                if not (r[0] == 'ValueError' or (r[0] == 'ok' and r[1] not in exonic)):
                    F.add('coord/transcript_to_genomic-outside', label, f'{tid} k={k} mapped onto an exon: {r}')
        F.eq('coord/transcript_len', label, t.L, tm.transcript_len(), tid)
        F.eq('coord/tx_start_genomic', label, t.exons[0][0] if t.strand == 1 else t.exons[-1][1],
             tm.get_transcript_start_genomic_coordinate(), tid)
    return nrej


def check_seqs(F, label, anno, ref, gid, txs, style, case_phase_qual=True):
    chrom = chrom_record(ref.chrom)
    st, gseq = call(lambda: anno.genes[gid].get_gene_sequence(chrom))
    if st != 'ok':
        F.add('seq/gene', label, f'{gid}: {st} {gseq}')
    else:
        F.eq('seq/gene', label, ref.gene_seq(gid), str(gseq.seq), gid)
        loc = gseq.locations[0]
        F.eq('seq/gene-location', label, (gid, 0, len(gseq.seq), 0, len(gseq.seq)),
             (loc.ref.seqname, int(loc.ref.start), int(loc.ref.end), int(loc.query.start), int(loc.query.end)), gid)
    for t in txs:
        tid = t.tx_id
        eseq, eorf, esec, edesc = L.expected_tx_seq(ref, t, style)
        st, s = call(lambda: anno.transcripts[tid].get_transcript_sequence(chrom))
        if st != 'ok':
            F.add('seq/transcript', label, f'{tid}: {st} {s}')
            continue
        F.eq('seq/transcript', label, eseq, str(s.seq), tid)
        gorf = None if s.orf is None else (int(s.orf.start), int(s.orf.end))
        if label.startswith('rt-') and style['ensembl'] and eorf is not None and gorf != eorf and \
                gorf == (eorf[0], t.L - (t.L - eorf[0]) % 3):
            # signature of the dropped three_prime_utr records (GtfIO.write): ORF now runs to the transcript end
            F.n += 1
            F.add('roundtrip/ensembl-utr-records-dropped', label, f'{tid} orf expected={eorf} got={gorf}', qual='')
        else:
            F.eq('seq/orf', label, eorf, gorf, tid)
        F.eq('seq/selenocysteine', label, esec, [(int(x.start), int(x.end)) for x in s.selenocysteine], tid)
        F.eq('seq/transcript-id', label, (tid, tid, edesc), (s.id, s.name, s.description), tid)
        F.eq('seq/transcript-location', label, [(tid, 0, t.L, 0, t.L)],
             [(x.ref.seqname, int(x.ref.start), int(x.ref.end), int(x.query.start), int(x.query.end)) for x in s.locations], tid)
        if t.a is not None:
            q = f'frame={t.phase}'
            st, c = call(lambda: anno.transcripts[tid].get_cdna_sequence(chrom))
            if st == 'TypeError' and style['ensembl'] and 'NoneType' in str(c):
                # signature: description built from transcript.protein_id, absent on ENSEMBL transcript lines
                F.n += 1
                F.add('seq/cdna-needs-protein_id-on-transcript-line', label, f'{tid}: {st} {c}', qual='')
            elif st != 'ok':
                F.add('seq/cdna', label, f'{tid}: {st} {c}', qual=q)
            else:
                F.eq('seq/cdna', label, eseq[t.a:t.b], str(c.seq), tid, qual=q)
                loc = c.locations[0]
                got = (loc.ref.seqname, int(loc.ref.start), int(loc.ref.end))
                if t.phase and got == (tid, t.a + t.phase, t.b + t.phase):
                    F.n += 1
                    F.add('seq/cdna-location-shifted-by-frame', label,
                          f'{tid}: sequence is transcript[{t.a}:{t.b}] but its location says [{got[1]}:{got[2]}] (CDS frame {t.phase})', qual='')
                else:
                    F.eq('seq/cdna-location', label, (tid, t.a, t.b), got, f'{tid} (sequence is transcript[{t.a}:{t.b}])', qual=q)
        else:
            F.eq('seq/cdna-noncoding', label, 'ValueError', call(lambda: anno.transcripts[tid].get_cdna_sequence(chrom))[0], tid)


def write_case(case, d):
    ref, genes = L.build(case)
    style = L.STYLES[case.style]
    specs = L.line_specs(ref, genes, style)
    path = Path(d) / 'annotation.gtf'
    path.write_text(L.gtf_text(ref.chrom, specs, utf8=bool(style.get('utf8'))), encoding='utf-8')
    return ref, genes, style, specs, path


def guard(F, name, label, fn):
    """An exception escaping a checked section is a finding about the model under test (a malformed
    model makes the harness trip), never a silent pass and never a harness abort."""
    try:
        return fn()
    except RuntimeError:
        raise                      # harness self-checks
    except Exception as e:
        import traceback
        tb = traceback.extract_tb(e.__traceback__)
        where = next((f'{Path(fr.filename).name}:{fr.lineno}' for fr in reversed(tb) if 'moPepGen' in fr.filename),
                     f'harness line {tb[-1].lineno}')
        F.add(f'crash/{name}', label, f'{type(e).__name__}: {e} at {where}'[:300])
        return None


def compare_sources(F, annos, gene_order, tx_order):
    # record.source (which decides .biotype): set on every record by the parsed path
    src = {}
    for label, anno in annos.items():
        s = set()
        for gid in gene_order:
            s.add(('gene', str(anno.genes[gid].source)))
        for tid in tx_order:
            for x in L.sub_sources(anno.transcripts[tid]):
                s.add(('sub', x))
        src[label] = s
    for label in src:
        F.n += 1
        if src[label] != src['mem']:
            only_unset = {v for _, v in src[label]} == {'None'}
            F.add('ondisk/record-source-unset' if only_unset else 'ondisk/record-source', label,
                  f'record.source of gene models and exon/CDS/UTR records: parsed={sorted(src["mem"])} '
                  f'{label}={sorted(src[label])} (gene_model.biotype raises ValueError on the on-disk model)',
                  qual='')


def compare_roundtrip(F, label, anno, canon_mem, exp_g, gene_order, tx_order, coding, style):
    F.eq('roundtrip/keys', label, (gene_order, tx_order), (list(anno.genes.keys()), list(anno.transcripts.keys())))
    for key in gene_order + tx_order:
        F.n += 1
        isg = key in exp_g
        st, m = call(lambda: (anno.genes if isg else anno.transcripts)[key])
        if st != 'ok':
            F.add('roundtrip/load', label, f'{key}: {st} {m}')
            continue
        c = L.canon_gene(m) if isg else L.canon_tx(m)
        o = canon_mem.get(key)
        if isg or o is None:
            if o != c:
                F.add('roundtrip/gene', label, L.diff(o, c, key))
            continue
        for k in sorted(o):
            x, y = o[k], c[k]
            if style['ensembl'] and k in L.TX_LISTS + ('transcript',):
                # attribute propagation between records of an ENSEMBL transcript depends on line order
                strip = lambda v: [f[:7] + f[8:] for f in v] if isinstance(v, list) else v[:7] + v[8:]
                x, y = strip(x), strip(y)
            if x == y:
                continue
            if k in ('start_codon', 'stop_codon') and y == []:
                F.add('roundtrip/codon-records-dropped', label, f'{key}.{k}: {len(x)} record(s) before, none after', qual='')
            elif k in ('five_utr', 'three_utr') and y == [] and style['ensembl']:
                F.add('roundtrip/ensembl-utr-records-dropped', label, f'{key}.{k}: {len(x)} record(s) before, none after', qual='')
            else:
                F.add(f'roundtrip/tx.{k}', label, L.diff(x, y, f'{key}.{k}'))
        F.eq('roundtrip/is_protein_coding', label, key in coding, m.is_protein_coding, key)


def eval_case(case, with_roundtrip=True):
    d = vlib.worker_dir('c11')
    ref, genes, style, specs, path = write_case(case, d)
    exp_g, exp_t = L.expected_models(ref, genes, specs, style, ref.chrom)
    gene_order = [g for g, _, _ in genes]
    tx_order = [t.tx_id for _, _, tl in genes for t in tl]
    coding = {t.tx_id for _, _, tl in genes for t in tl if t.a is not None}
    proteome = {tid: types.SimpleNamespace(seq='MK') for tid in coding}
    F = Fails()
    annos = {}
    loaders = [('mem', lambda: load_mem(path)), ('disk', lambda: load_disk(path)),
               ('idx', lambda: load_idx(path, d / 'index', proteome))]
    if parse_works()[0]:
        loaders.append(('dump', lambda: load_dump(path)))
    for label, fn in loaders:
        a = guard(F, 'load', label, fn)
        if a is not None:
            annos[label] = a
    canon = {}
    nrej = [0]
    main_txs = next(tl for g, _, tl in genes if g == L.GENE)
    tab = coord_tables(ref, L.GENE, main_txs)
    for label, anno in annos.items():
        if label != 'idx':
            guard(F, 'check_protein_coding', label, lambda: anno.check_protein_coding(proteome, True))
        if label == 'disk':
            F.eq('model/anno-source', label, 'ENSEMBL' if style['ensembl'] else 'GENCODE', anno.source)
        canon[label] = guard(F, 'models', label,
                             lambda: check_models(F, label, anno, exp_g, exp_t, style, gene_order, tx_order)) or {}

        def coding_flags():
            for tid in tx_order:
                st, t = call(lambda: anno.transcripts[tid])
                if st == 'ok':
                    F.eq('model/is_protein_coding', label, tid in coding, t.is_protein_coding, tid)
        guard(F, 'models', label, coding_flags)
        if label != 'idx' or FULL_IDX:
            r = guard(F, 'coordinates', label, lambda: check_coords(F, label, anno, tab, L.GENE, main_txs))
            nrej[0] = r if r is not None else nrej[0]

        def seqs():
            for gid, _, tl in genes:
                check_seqs(F, label, anno, ref, gid, tl, style)
        guard(F, 'sequences', label, seqs)
    # on-disk vs parsed, field by field incl. attributes (every key)
    if 'mem' in canon:
        for label in annos:
            if label == 'mem':
                continue
            for key in gene_order + tx_order:
                F.n += 1
                if canon['mem'].get(key) != canon[label].get(key):
                    F.add('ondisk-vs-parsed', label, L.diff(canon['mem'].get(key), canon[label].get(key), key))
        guard(F, 'sources', 'all', lambda: compare_sources(F, annos, gene_order, tx_order))
    # GTF round trip
    if with_roundtrip and 'mem' in annos:
        from moPepGen.gtf import GtfIO
        rt = d / 'roundtrip.gtf'

        def wr():
            with open(rt, 'wt') as fh:
                GtfIO.write(fh, annos['mem'])
            return True
        if guard(F, 'roundtrip-write', 'rt', wr):
            rloaders = [('rt-mem', lambda: load_mem(rt)), ('rt-disk', lambda: load_disk(rt))]
            if parse_works()[0]:
                rloaders.append(('rt-dump', lambda: load_dump(rt)))
            for label, fn in rloaders:
                anno = guard(F, 'roundtrip-load', label, fn)
                if anno is None:
                    continue
                if label == 'rt-disk':
                    guard(F, 'check_protein_coding', label, lambda: anno.check_protein_coding(proteome, True))
                guard(F, 'roundtrip-models', label, lambda: compare_roundtrip(F, label, anno, canon['mem'], exp_g, gene_order,
                                                                              tx_order, coding, style))
                guard(F, 'roundtrip-sequences', label, lambda: check_seqs(F, label, anno, ref, L.GENE, main_txs, style))
    del annos
    has_cds = case.a is not None
    return dict(ident=case.ident(), qual=case.qual(), spec=case.spec(), n=F.n, nontrivial=bool(nrej[0] or has_cds),
                rejects=nrej[0], fails=F.items)


# ---- case enumeration -------------------------------------------------------------------------
def grammar_cases(tier, seed):
    """Complete sub-blocks = (context, Sec mode) x all structures x all CDS spans.
    thorough: every context x Sec in {none, each single codon, all codons}.
    quick: context 'outer' (two isoforms + neighbour genes) x Sec in {none, all codons}; contexts 'alone' and
    one further context chosen by the seed x Sec none."""
    if tier == 'thorough':
        plan = {c: 'each' for c in L.CONTEXTS}
    else:
        rest = [c for c in L.CONTEXTS if c not in ('alone', 'outer')]
        plan = {'outer': 'ends', 'alone': 'none', rest[seed % len(rest)]: 'none'}
    for strand in (1, -1):
        for ex, it in L.structures():
            Lt = sum(ex)
            for cds in L.cds_variants(Lt):
                secs = L.sec_variants(cds[1], cds[2], cds[3])
                for ctx, mode in plan.items():
                    for sec in (secs if mode == 'each' else secs[:1] if mode == 'none' else
                                ([secs[0], secs[-1]] if len(secs) > 1 else secs)):
                        yield L.Case(strand, ex, it, cds, sec, ctx, 'S0')


def style_cases(tier):
    lens = (1, 3) if tier == 'quick' else (1, 2, 3, 5)
    for style in ('S1', 'S2', 'S3', 'S4'):
        for strand in (1, -1):
            for ex, it in L.structures(lens=lens):
                Lt = sum(ex)
                for cds in L.cds_variants(Lt):
                    secs = L.sec_variants(cds[1], cds[2], cds[3])
                    for sec in (secs[0], secs[-1]) if len(secs) > 1 else secs:
                        yield L.Case(strand, ex, it, cds, sec, 'outer-first', style)


def case_job(specs):
    out = []
    for sp in specs:
        r = eval_case(L.Case.from_spec(sp))
        r.pop('spec') if not r['fails'] else None
        out.append(r)
    return out


GROUPS = {}


def report(run, results, block):
    """Failures are grouped by (check, labels, qualifier); one violation per group is emitted at the end
    (flush_groups): the first failing case in enumeration order is the replayable witness."""
    n = nt = comps = rej = 0
    for chunk in results:
        for r in chunk:
            n += 1
            nt += r['nontrivial']
            comps += r['n']
            rej += r['rejects']
            per = {}
            for check, qual, label, detail in r['fails']:
                per.setdefault((check, qual), []).append((label, detail))
            for (check, qual), lst in per.items():
                ls = {l for l, _ in lst}
                if ls - {'dump', 'rt-dump'}:      # keys do not depend on whether GtfIO.parse works (B3)
                    ls -= {'dump', 'rt-dump'}
                labels = 'all' if set(LABELS) <= ls else '+'.join(sorted(ls, key=lambda x: (x not in LABELS, x)))
                q = r['qual'] if qual is None else qual
                key = f'{check}@{labels}' + (f'/{q}' if q else '')
                g = GROUPS.setdefault(key, dict(count=0, first=None, blocks=[]))
                g['count'] += 1
                if block not in g['blocks']:
                    g['blocks'].append(block)
                if g['first'] is None:
                    g['first'] = (r, lst, block)
    return n, nt, comps, rej


def flush_groups(run):
    for key in sorted(GROUPS):
        g = GROUPS[key]
        r, lst, block = g['first']
        run.violation(key, f'{g["count"]} annotation(s) in block(s) {",".join(g["blocks"])}; first: {r["ident"]}: '
                      + ' | '.join(f'[{l}] {d}' for l, d in lst[:3]),
                      dict(kind='case', spec=r['spec'], block=block, failing=[list(x) for x in lst[:10]]))
    GROUPS.clear()


def run_cases(run, name, cases, **info):
    specs = [c.spec() for c in cases]
    chunk = 24
    jobs = [specs[i:i + chunk] for i in range(0, len(specs), chunk)]
    res = vlib.pmap(case_job, jobs, jobs=run.jobs, chunk=1)
    errs = vlib.harness_errors(res)
    if errs:
        raise RuntimeError(f'harness error in block {name}: {errs[0]}')
    n, nt, comps, rej = report(run, res, name)
    run.block(name, n, nt, True, comparisons=comps, positions_that_must_be_rejected=rej, **info)
    return n


# ---- intervals / record slices ------------------------------------------------------------------
def interval_case(sp):
    from moPepGen.SeqFeature import FeatureLocation, SeqFeature
    case = L.Case.from_spec(sp)
    d = vlib.worker_dir('c11')
    ref, genes, style, specs, path = write_case(case, d)
    F = Fails()
    for label, loader in (('mem', load_mem), ('disk', load_disk)):
        guard(F, 'intervals', label, lambda: _interval_checks(F, label, loader(path), case, ref, genes, style))
    return dict(ident=case.ident(), qual=case.qual(), spec=case.spec(), n=F.n, nontrivial=len(case.ex) > 1 or case.a is not None,
                rejects=0, fails=F.items)


def _interval_checks(F, label, anno, case, ref, genes, style):
    from moPepGen.SeqFeature import FeatureLocation, SeqFeature
    if True:
        chrom = chrom_record(ref.chrom)
        gid = L.GENE
        gs, ge = ref.gene_span(gid)
        Lg = ge - gs
        st = case.strand
        # every gene interval <-> genomic interval
        for i in range(Lg):
            for j in range(i + 1, Lg + 1):
                x, y = ref.gene_to_genomic(gid, i), ref.gene_to_genomic(gid, j - 1)
                lo, hi = min(x, y), max(x, y) + 1
                f = SeqFeature(chrom=gid, attributes={}, location=FeatureLocation(seqname=gid, start=i, end=j))
                r = call(anno.feature_coordinate_gene_to_genomic, f, gid)
                got = (r[0], (int(r[1].location.start), int(r[1].location.end), r[1].location.strand)) if r[0] == 'ok' else r
                F.eq('interval/gene_to_genomic', label, ('ok', (lo, hi, st)), got, f'[{i},{j})')
                f2 = SeqFeature(chrom=ref.chrom, attributes={}, location=FeatureLocation(seqname=ref.chrom, start=lo, end=hi, strand=st))
                r = call(anno.feature_coordinate_genomic_to_gene, f2, gid)
                got = (r[0], (int(r[1].location.start), int(r[1].location.end))) if r[0] == 'ok' else r
                F.eq('interval/genomic_to_gene', label, ('ok', (i, j)), got, f'[{lo},{hi})')
        # every transcript interval of 1-3 nt as a variant: transcript -> gene coordinates
        from moPepGen import seqvar
        for t in next(tl for g, _, tl in genes if g == gid):
            tid = t.tx_id
            eseq = ref.tx_seq(tid)
            for a in range(t.L):
                for b in range(a + 1, min(t.L, a + 3) + 1):
                    v = seqvar.VariantRecord(location=FeatureLocation(seqname=tid, start=a, end=b), ref=eseq[a:b],
                                             alt='T' * (b - a), _type='SNV' if b - a == 1 else 'MNV', _id=f'V-{a}-{b}')
                    r = call(anno.variant_coordinates_to_gene, v, gid)
                    i, j = ref.tx_to_gene(tid, a), ref.tx_to_gene(tid, b - 1) + 1
                    if j - i == b - a:
                        got = (r[0], (r[1].location.seqname, int(r[1].location.start), int(r[1].location.end), str(r[1].ref),
                                      r[1].attrs.get('TRANSCRIPT_ID'))) if r[0] == 'ok' else r
                        F.eq('interval/variant_to_gene', label, ('ok', (gid, i, j, eseq[a:b], tid)), got, f'{tid}[{a}:{b}]')
                        if r[0] == 'ok' and ref.gene_seq(gid)[i:j] != eseq[a:b]:
                            raise RuntimeError('harness: gene and transcript sequence disagree')
                    else:
                        F.eq('interval/variant_to_gene-spanning-intron', label, 'ValueError', r[0], f'{tid}[{a}:{b}] -> {r}')
        # transcript record slices
        for t in next(tl for g, _, tl in genes if g == gid):
            tid = t.tx_id
            eseq, eorf, esec, _ = L.expected_tx_seq(ref, t, style)
            s = anno.transcripts[tid].get_transcript_sequence(chrom)
            n = t.L
            sl = {}
            for i in range(n + 1):
                for j in range(i, n + 1):
                    r = call(lambda: s[i:j])
                    if r[0] != 'ok':
                        F.add('slice/raises', label, f'{tid}[{i}:{j}] {r}')
                        continue
                    x = r[1]
                    sl[(i, j)] = x
                    locs = [(l.ref.seqname, int(l.ref.start), int(l.ref.end), int(l.query.start), int(l.query.end)) for l in x.locations]
                    F.eq('slice/seq+location', label, (eseq[i:j], [(tid, i, j, 0, j - i)] if j > i else []), (str(x.seq), locs), f'{tid}[{i}:{j}]')
                    F.eq('slice/orf+sec', label, (eorf, esec),
                         (None if x.orf is None else (int(x.orf.start), int(x.orf.end)), [(int(a.start), int(a.end)) for a in x.selenocysteine]), f'{tid}[{i}:{j}]')
                    F.eq('slice/get_query_index', label, [k - i if i <= k < j else -1 for k in range(-1, n + 1)],
                         [x.get_query_index(k) for k in range(-1, n + 1)], f'{tid}[{i}:{j}]')
            for i in range(n + 1):
                for j in range(i + 1, n + 1):
                    for k in range(j + 1, n + 1):
                        r = call(lambda: sl[(i, j)] + sl[(j, k)])
                        if r[0] != 'ok':
                            F.add('concat/raises', label, f'{tid}[{i}:{j}]+[{j}:{k}] {r}')
                            continue
                        x = r[1]
                        locs = [(l.ref.seqname, int(l.ref.start), int(l.ref.end), int(l.query.start), int(l.query.end)) for l in x.locations]
                        F.eq('concat/seq+location', label, (eseq[i:k], [(tid, i, k, 0, k - i)], True),
                             (str(x.seq), locs, x == sl[(i, k)]), f'{tid}[{i}:{j}]+[{j}:{k}]')
            # non-adjacent pieces keep two locations
            if n >= 3:
                x = sl[(0, 1)] + sl[(2, n)]
                locs = [(int(l.ref.start), int(l.ref.end), int(l.query.start), int(l.query.end)) for l in x.locations]
                F.eq('concat/gap', label, (eseq[0:1] + eseq[2:n], [(0, 1, 0, 1), (2, n, 1, n - 1)]), (str(x.seq), locs), tid)


def interval_cases(tier):
    for strand in (1, -1):
        for ex, it in L.structures():
            Lt = sum(ex)
            if tier == 'quick' and Lt > 9:
                continue
            cds = ('complete', 0, 3, 0) if Lt >= 6 else ('none', None, None, 0)
            sec = (0,) if Lt >= 6 else ()
            yield L.Case(strand, ex, it, cds, sec, 'outer' if len(ex) % 2 else 'alone', 'S0')


def interval_job(specs):
    out = []
    for sp in specs:
        r = interval_case(sp)
        out.append(r)
    return out


# ---- access histories ---------------------------------------------------------------------------
MISSING = ('ENSG-unknown', 'ENST-unknown')
SIGNATURES = ('missing-key-poisons-cache',)      # reported under one key, whatever the configuration
HIST_CASE = dict(strand=-1, ex=[2, 3, 2], it=[1, 3], cds=['complete', 1, 4, 0], sec=[1], ctx='nested', style='S0')
# nested context: genes ENSG0A(1 tx) ENSG0001(2 tx) ENSG0B(1 tx); histories use a 2 genes x 2 transcripts file


def hist_reference(d):
    """2 genes x 2 transcripts each, both strands, written in GENCODE style."""
    c1 = L.Case(1, (2, 3, 2), (1, 3), ('complete', 1, 4, 0), (1,), 'nested', 'S2')
    ref, genes = L.build(c1)
    # merge gene B's transcript and a second isoform into a 2x2 layout: [GENE: T2,T1] [ENSG0B: B1,B2]
    gB = next(g for g in genes if g[0] == 'ENSG0B')
    b1 = gB[2][0]
    b2 = L.TxSpec('ENST0B02', 'ENSG0B', b1.strand, [(b1.exons[0][0] + 1, b1.exons[0][1]), (b1.exons[1][0], b1.exons[1][1] - 2)],
                  biotype='lncRNA')
    genes = [next(g for g in genes if g[0] == L.GENE), ('ENSG0B', -1, [b1, b2])]
    for t in (b1, b2):
        t.strand = -1
    rgenes = [dict(gene_id=g, strand=st, biotype='protein_coding', transcripts=[t.refgen_tx() for t in tl]) for g, st, tl in genes]
    ref = refgen.Ref(L.GENOME, rgenes, chrom='chr1')
    style = L.STYLES['S2']
    specs = L.line_specs(ref, genes, style)
    path = Path(d) / 'annotation.gtf'
    path.write_text(L.gtf_text('chr1', specs))
    eg, et = L.expected_models(ref, genes, specs, style, 'chr1')
    return ref, genes, style, path, eg, et


class HistSystem:
    """The real GenomicAnnotationOnDisk + the dictionary model, stepped in lock-step."""
    OPS = None

    def __init__(self, path, mode, eg, et, ref, genes, style, sizes):
        from moPepGen.gtf import GTFPointer
        from moPepGen.index import IndexDir
        GTFPointer.GENE_DICT_CACHE_SIZE, GTFPointer.TX_DICT_CACHE_SIZE = sizes
        self.sizes = sizes
        self.eg, self.et, self.ref, self.genes, self.style = eg, et, ref, genes, style
        self.gene_ids = [g for g, _, _ in genes]
        self.tx_ids = [t.tx_id for _, _, tl in genes for t in tl]
        self.tspec = {t.tx_id: t for _, _, tl in genes for t in tl}
        self.gene_of = {t.tx_id: g for g, _, tl in genes for t in tl}
        self.coding = {t.tx_id for _, _, tl in genes for t in tl if t.a is not None}
        proteome = {tid: types.SimpleNamespace(seq='MK') for tid in self.coding}
        if mode == 'disk':
            self.anno = load_disk(path)
            self.anno.check_protein_coding(proteome, True)
        elif 'idx-written' not in _hist_ref:
            self.anno = load_idx(path, Path(path).parent / 'hidx', proteome)   # writes the .idx files
            _hist_ref['idx-written'] = True
        else:
            self.anno = IndexDir(Path(path).parent / 'hidx').load_annotation()  # fresh load of the saved index
        self.chrom = chrom_record('chr1')

    def ops(self):
        o = [('gene', g) for g in self.gene_ids] + [('tx', t) for t in self.tx_ids]
        o += [('gene', MISSING[0]), ('tx', MISSING[1])]        # lookups of ids the annotation does not have
        o += [('contains', None), ('iter', None), ('coord', self.tx_ids[0]), ('coord', self.tx_ids[3]), ('seq', self.tx_ids[1])]
        return o

    def state(self):
        a = self.anno
        return (tuple(a.genes._cached_keys), tuple(sorted(a.genes._cache)), tuple(a.transcripts._cached_keys),
                tuple(sorted((k, v._seq is not None) for k, v in a.transcripts._cache.items())), a.handle.tell())

    def invariants(self):
        a = self.anno
        out = []
        for name, dct, size in (('genes', a.genes, self.sizes[0]), ('transcripts', a.transcripts, self.sizes[1])):
            keys = list(dct._cached_keys)
            if len(keys) > size or len(dct._cache) > size:
                out.append(f'cache-invariant: {name}: cache holds {len(dct._cache)} models / {len(keys)} keys > limit {size}')
            if sorted(keys) != sorted(dct._cache) or len(set(keys)) != len(keys):
                if getattr(self, 'missing_seen', False) and set(dct._cache) <= set(keys):
                    # signature: ids are queued before the load succeeds (GTFPointer.py:224 / :256)
                    out.append(f'missing-key-poisons-cache: {name}: the key queue {keys} keeps ids that were never loaded '
                               f'(cached: {sorted(dct._cache)})')
                else:
                    out.append(f'cache-invariant: {name}: key queue {keys} inconsistent with cached models {sorted(dct._cache)}')
            for k, v in dct._cache.items():
                vid = v.gene_id if name == 'genes' else v.transcript_id
                if vid != k:
                    out.append(f'cache-invariant: {name}: cache slot {k} holds model of {vid}')
        return out

    def step(self, op):
        """-> list of discrepancies between the implementation's answer and the dictionary model"""
        kind, arg = op
        a = self.anno
        bad = []
        if arg in MISSING:
            self.missing_seen = True
            r = call(lambda: (a.genes if kind == 'gene' else a.transcripts)[arg])
            if r[0] != 'KeyError':
                bad.append(f'missing-key-lookup: {kind} {arg} -> {r}')
            return bad + self.invariants()
        try:
            if kind == 'gene':
                c = L.canon_gene(a.genes[arg])
                e = self.eg[arg]
                for k in ('feature', 'transcripts', 'n_exons'):
                    dd = L.diff(e[k], c[k], f'{arg}.{k}')
                    if dd:
                        bad.append('gene-model: ' + dd)
            elif kind == 'tx':
                m = a.transcripts[arg]
                c = L.canon_tx(m)
                e = self.et[arg]
                for k in L.TX_LISTS + ('transcript', 'ids', 'source'):
                    dd = L.diff(e[k], c[k], f'{arg}.{k}')
                    if dd:
                        bad.append('transcript-model: ' + dd)
                if m.is_protein_coding != (arg in self.coding):
                    bad.append(f'transcript-model: {arg}.is_protein_coding={m.is_protein_coding}')
            elif kind == 'contains':
                got = [g in a.genes for g in self.gene_ids + self.tx_ids[:1]] + [t in a.transcripts for t in self.tx_ids + self.gene_ids[:1]]
                exp = [True] * len(self.gene_ids) + [False] + [True] * len(self.tx_ids) + [False]
                if got != exp:
                    bad.append(f'membership: {got}')
            elif kind == 'iter':
                got = (list(a.genes), list(a.genes.keys()), list(a.transcripts), len(a.genes), len(a.transcripts))
                exp = (self.gene_ids, self.gene_ids, self.tx_ids, len(self.gene_ids), len(self.tx_ids))
                if got != exp:
                    bad.append(f'iteration: {got}')
            elif kind == 'coord':
                gid = self.gene_of[arg]
                t = self.tspec[arg]
                for k in (0, t.L - 1):
                    x = a.coordinate_transcript_to_genomic(k, arg)
                    i = a.coordinate_genomic_to_gene(x, gid)
                    k2 = a.coordinate_gene_to_transcript(i, gid, arg)
                    if (x, i, k2) != (t.g(k), self.ref.genomic_to_gene(gid, t.g(k)), k):
                        bad.append(f'coordinates: {arg} k={k}: {(x, i, k2)}')
            elif kind == 'seq':
                t = self.tspec[arg]
                eseq, eorf, esec, edesc = L.expected_tx_seq(self.ref, t, self.style)
                s = a.transcripts[arg].get_transcript_sequence(self.chrom, cache=True)
                got = (str(s.seq), None if s.orf is None else (int(s.orf.start), int(s.orf.end)), [(int(x.start), int(x.end)) for x in s.selenocysteine])
                if got != (eseq, eorf, esec):
                    bad.append(f'sequence: {arg}: {got}')
        except Exception as e:     # any exception on a read access is a discrepancy
            if isinstance(e, KeyError) and getattr(self, 'missing_seen', False):
                bad.append(f'missing-key-poisons-cache: valid access {kind} {arg} raised KeyError({e}) after an earlier lookup of '
                           f'an unknown id')
            else:
                bad.append(f'raised {type(e).__name__}: {kind} {arg}: {e}'[:200])
        bad += self.invariants()
        return bad


def hist_trace(args):
    """Run one trace from a fresh annotation object; return (final canonical state, discrepancies per step)."""
    mode, sizes, trace = args
    sysm = _hist_system(mode, sizes)
    bad = []
    ops = sysm.ops()
    for n, i in enumerate(trace):
        b = sysm.step(ops[i])
        if b:
            bad.append((n, b))
    return sysm.state(), bad


_hist_ref = {}


def _hist_files():
    if 'files' not in _hist_ref:
        d = vlib.worker_dir('c11h')
        _hist_ref['files'] = hist_reference(d)
    return _hist_ref['files']


def _hist_system(mode, sizes):
    ref, genes, style, path, eg, et = _hist_files()
    return HistSystem(path, mode, eg, et, ref, genes, style, sizes)


def _hist_expand(args):
    mode, sizes, tr, nops = args
    return [hist_trace((mode, sizes, tr + (i,))) for i in range(nops)]


def hist_bfs(run, mode, sizes, max_depth):
    """Explicit-state BFS, level by level: a state is reached by replaying its shortest trace on a fresh
    object (no snapshot/restore of internals); canonical state = (gene key queue, cached gene ids, transcript
    key queue, cached transcript ids + whether a sequence is cached on the model, file offset).  Stops at the
    fixpoint or at max_depth."""
    sysm = _hist_system(mode, sizes)
    ops = sysm.ops()
    nops = len(ops)
    init = sysm.state()
    seen = {init: ()}
    frontier = [()]
    transitions = 0
    depth = 0
    fails = {}
    fixpoint = False
    while frontier and depth < max_depth:
        depth += 1
        res = vlib.pmap(_hist_expand, [(mode, sizes, tr, nops) for tr in frontier], jobs=run.jobs)
        errs = vlib.harness_errors(res)
        if errs:
            raise RuntimeError(errs[0])
        nxt = []
        for tr, outs in zip(frontier, res):
            for i, (st, bad) in enumerate(outs):
                t2 = tr + (i,)
                transitions += 1
                for n, b in bad:
                    if n == len(t2) - 1:       # report at the step where it first shows
                        for msg in b:
                            cat = msg.split(':')[0]
                            w = (t2, [m for m in b if m.split(':')[0] == cat])
                            if cat not in fails or ('valid access' in ' '.join(w[1]) and 'valid access' not in ' '.join(fails[cat][1])):
                                fails[cat] = w       # prefer the witness in which a valid lookup fails
                if ops[i][0] in ('contains', 'iter') and st != _state_after(seen, tr, mode, sizes):
                    fails.setdefault('read-only-op-changed-state', (t2, [f'-> {st}']))
                if st not in seen:
                    seen[st] = t2
                    nxt.append(t2)
        frontier = nxt
    fixpoint = not frontier
    return len(seen), transitions, depth, fixpoint, fails, ops


_state_cache = {}


def _state_after(seen, tr, mode, sizes):
    k = (mode, sizes, tr)
    if k not in _state_cache:
        _state_cache[k] = next((s for s, t in seen.items() if t == tr), None) or hist_trace((mode, sizes, tr))[0]
    return _state_cache[k]


def hist_exhaustive_job(args):
    """All traces of exactly `depth` operations that start with `prefix`, each replayed on a fresh object
    (every prefix of a trace is itself checked step by step)."""
    mode, sizes, prefix, depth, alphabet = args
    n = 0
    fails = []
    for rest in itertools.product(alphabet, repeat=depth - len(prefix)):
        tr = tuple(prefix) + rest
        _, bad = hist_trace((mode, sizes, tr))
        n += 1
        if bad and len(fails) < 5:
            fails.append((tr, bad[0]))
    return n, fails


def part_histories(run):
    from moPepGen.gtf import GTFPointer
    import inspect
    # the size constants must be read at call time, otherwise the interposition is void
    src = inspect.getsource(GTFPointer.GenePointerDict.__getitem__) + inspect.getsource(GTFPointer.TranscriptPointerDict.__getitem__)
    if 'GENE_DICT_CACHE_SIZE' not in src or 'TX_DICT_CACHE_SIZE' not in src:
        raise RuntimeError('harness: cache size constants are not read in __getitem__; interposition point moved')
    depth = 5 if run.tier == 'quick' else 6
    configs = [('disk', (2, 2)), ('idx', (2, 2)), ('disk', (1, 3)), ('idx', (1, 1))]
    tot_states = tot_trans = 0
    ops_desc = None
    hist_viol = {}
    for mode, sizes in configs:
        states, trans, dmax, fixpoint, fails, ops = hist_bfs(run, mode, sizes, max_depth=depth)
        ops_desc = ops
        tot_states += states
        tot_trans += trans
        for k, (tr, b) in sorted(fails.items()):
            key = f'history/{k}' if k in SIGNATURES else f'history/bfs/{mode}/sizes={sizes[0]},{sizes[1]}/{k}'
            w = (f'access sequence {[ops[i] for i in tr]}: {b[:3]}', dict(kind='history', mode=mode, sizes=list(sizes), trace=list(tr)))
            if key not in hist_viol or ('valid access' in w[0] and 'valid access' not in hist_viol[key][0]):
                hist_viol[key] = w
        # eviction must actually have happened, otherwise the block is vacuous
        if states < 5:
            raise RuntimeError(f'harness: only {states} cache states reached for {mode} {sizes}')
        run.block(f'histories-bfs-{mode}-cache{sizes[0]}x{sizes[1]}', trans, states, True, states=states,
                  depth=dmax, fixpoint_reached=fixpoint, operations=len(ops))
    # exhaustive traces (no state merging, every trace replayed on a fresh object) for the designed sizes;
    # the two pure-read operations (shown state-preserving by the BFS) are left out of this alphabet
    alphabet = [i for i, o in enumerate(ops_desc) if o[0] not in ('contains', 'iter')][:-2] + [len(ops_desc) - 1]
    traces = 0
    for mode, sizes in configs[:2]:
        dd = (5 if run.tier == 'quick' else 6) if mode == 'disk' else (4 if run.tier == 'quick' else 5)
        jobs = [(mode, sizes, p, dd, alphabet) for p in itertools.product(alphabet, repeat=2)]
        res = vlib.pmap(hist_exhaustive_job, jobs, jobs=run.jobs, chunk=1)
        errs = vlib.harness_errors(res)
        if errs:
            raise RuntimeError(errs[0])
        n = 0
        first = {}
        for cnt, fails in res:
            n += cnt
            for tr, (step, b) in fails:
                for msg in b:
                    first.setdefault(f'history/trace/{mode}/{msg.split(":")[0]}', (tr, step, [m for m in b if m.split(':')[0] == msg.split(':')[0]]))
        for key, (tr, step, b) in sorted(first.items()):
            cat = key.rsplit('/', 1)[1]
            hist_viol.setdefault(f'history/{cat}' if cat in SIGNATURES else key,
                                 (f'access sequence {[ops_desc[i] for i in tr]} step {step}: {b[:3]}',
                                  dict(kind='history', mode=mode, sizes=list(sizes), trace=list(tr))))
        traces += n
        run.block(f'histories-all-traces-{mode}-depth{dd}', n, n, True, operations=len(alphabet), depth=dd)
    for key, (what, rp) in sorted(hist_viol.items()):
        run.violation(key, what, rp)
    run.sample(dict(kind='history', operations=[list(map(str, o)) for o in ops_desc], cache_sizes='2x2, 1x3, 1x1', depth=depth))
    return tot_states, tot_trans, traces


# ---- GtfIO.parse / dump_gtf ---------------------------------------------------------------------
def part_gtfio(run):
    d = vlib.worker_dir('c11')
    case = L.Case(1, (3, 5), (1,), ('complete', 1, 4, 0), (), 'alone', 'S0')
    ref, genes, style, specs, path = write_case(case, d)
    ok, why = parse_works()
    n = 1
    if not ok:
        run.violation('gtfio/parse-abstract',
                      f'GtfIO.parse(handle) raises {why}; GenomicAnnotation.dump_gtf (the in-memory parser) therefore '
                      f'cannot load any GTF (moPepGen/gtf/GtfIO.py:12 GtfIterator subclasses the abstract '
                      f'Bio.SeqIO.Interfaces.SequenceIterator without __next__/modes)',
                      dict(kind='gtfio', spec=case.spec()))
    else:
        from moPepGen.gtf import GtfIO
        with open(path) as fh:
            recs = list(GtfIO.parse(fh))
        n += 1
        if len(recs) != len(specs):
            run.violation('gtfio/parse-count', f'GtfIO.parse yields {len(recs)} records for {len(specs)} lines',
                          dict(kind='gtfio', spec=case.spec()))
        recs2 = list(GtfIO.parse(str(path)))
        if [L.canon_feature(x) for x in recs] != [L.canon_feature(x) for x in recs2]:
            run.violation('gtfio/parse-path-vs-handle', 'GtfIO.parse(path) differs from GtfIO.parse(handle)',
                          dict(kind='gtfio', spec=case.spec()))
    run.block('gtfio-parse', n, 1, True, parse_works=ok)


# ---- replay -------------------------------------------------------------------------------------
def replay(path):
    r = json.load(open(path))
    print('replaying', r['key'])
    print('what:', r['what'])
    if r['kind'] == 'case':
        case = L.Case.from_spec(r['spec'])
        d = vlib.worker_dir('c11')
        ref, genes, style, specs, p = write_case(case, d)
        print('--- annotation.gtf (genome = c11lib.GENOME) ---')
        print(p.read_text())
        res = interval_case(r['spec']) if r.get('block') == 'intervals' else eval_case(case)
        print(f'--- {len(res["fails"])} failing comparison(s) of {res["n"]} ---')
        for check, qual, label, detail in res['fails'][:40]:
            print(f'[{label}] {check}: {detail}')
        sys.exit(1 if res['fails'] else 0)
    if r['kind'] == 'history':
        st, bad = hist_trace((r['mode'], tuple(r['sizes']), tuple(r['trace'])))
        sysm = _hist_system(r['mode'], tuple(r['sizes']))
        print('operations:', [sysm.ops()[i] for i in r['trace']])
        print('final state:', st)
        print('discrepancies (expected: none):', bad)
        sys.exit(1 if bad else 0)
    if r['kind'] == 'gtfio':
        print('GtfIO.parse works:', parse_works())
        sys.exit(0 if parse_works()[0] else 1)


def main():
    run = vlib.Run('C11', 'model_checking', __doc__)
    if run.args.replay:
        return replay(run.args.replay)
    run.rule = ('grammar: strand x 1-3 exons (lengths 1,2,3,5) x introns (1,3) x every CDS span (none, complete with '
                'stop, cds_start_NF frame 1/2, mRNA_end_NF, both) x Sec codons (none, each single, all) x gene contexts; '
                'per annotation every genomic position of the genome string, every gene index and every transcript '
                'index (+-2 out of range) through every coordinate map, for the parsed, the indexed and the .idx-loaded '
                'annotation; histories: all access sequences over 11 operations to depth d on 2 genes x 2 transcripts '
                'with cache sizes 2x2 (also 1x3, 1x1 in the BFS).  Non-trivial annotation: has a CDS or at least one '
                'intronic position that must be rejected; non-trivial history state: distinct cache state.')
    run.assume('gene_model.transcripts is compared as a multiset: the on-disk path fills it from a set (GTFPointer.py:52), '
               'so its order is hash-seed dependent by construction')
    run.assume('out-of-range gene/transcript indices may either raise or be extrapolated outside the gene / outside every '
               'exon (the property only demands rejection of intronic positions); mapping onto a valid position is a violation')
    run.assume('is_protein_coding of on-disk models is owned by the pointer (set by check_protein_coding from the proteome); '
               'it is compared after the same check_protein_coding call on every path, as every CLI flow does')
    run.assume('orf.end = transcript index just after the last CDS base (the transcript end when the CDS runs to it), trimmed '
               'to the frame of orf.start - in both 3\'UTR conventions (record beginning at the stop codon, or after it)')
    global FULL_IDX
    FULL_IDX = run.tier == 'thorough'
    states = trans = traces = 0
    if run.want('gtfio'):
        part_gtfio(run)
    if run.want('grammar'):
        cases = list(grammar_cases(run.tier, run.seed))
        run_cases(run, 'grammar', cases, contexts=sorted({c.ctx for c in cases}))
        run.sample(dict(kind='case', example=cases[len(cases) // 2].spec()))
    if run.want('styles'):
        run_cases(run, 'styles', list(style_cases(run.tier)), styles='S1,S2,S3,S4')
    if run.want('intervals'):
        specs = [c.spec() for c in interval_cases(run.tier)]
        res = vlib.pmap(interval_job, [specs[i:i + 4] for i in range(0, len(specs), 4)], jobs=run.jobs, chunk=1)
        errs = vlib.harness_errors(res)
        if errs:
            raise RuntimeError(errs[0])
        n, nt, comps, _ = report(run, res, 'intervals')
        run.block('intervals', n, nt, True, comparisons=comps)
    if run.want('histories'):
        states, trans, traces = part_histories(run)
    flush_groups(run)
    if states:
        run.finish(states=states, transitions=trans, traces=traces)
    run.finish()


if __name__ == '__main__':
    main()
