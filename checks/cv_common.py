"""Blocks and judging shared by C01–C05 (Engine A)."""
from __future__ import annotations
import json
import vlib, enginea as E, panel, oracle as O, cvoracle as CV, refgen

CFG_NONE = E.Cfg(exception=None)
CFG_EXC = E.Cfg(exception='trypsin_exception')
MAIN_TX = {'R1': 'ENST01', 'R2': 'ENST02', 'R3': 'ENST03', 'R4': 'ENST04', 'R5': 'ENST05', 'R6': 'ENST06', 'R9': 'ENST10',
           'R8': 'ENST08'}
WIN = 24


def windows(refname, tx):
    L = panel.get(refname).tx_len(tx)
    return [(a, min(a + WIN, L)) for a in range(0, L, WIN)]


def blocks(tier, seed, prop='C01'):
    """Ordered list of (block name, [cases], info).  Every block is a complete enumeration."""
    out = []
    # D1: all single variants, every position, two exception settings
    for r in ('R1', 'R2', 'R3', 'R4', 'R5', 'R6', 'R9'):
        tx = MAIN_TX[r]
        out.append((f'D1/{r}/none', E.d1_cases(r, tx, CFG_NONE), dict(deviations=1)))
    # exception-on: references without exception contexts in the unmodified protein (variants create
    # them); R1 is rich in such contexts and is covered by one complete window whose failing cases are
    # individually listed known findings (DESIGN: exception look-behind lost across graph nodes)
    for r in ('R3', 'R9'):
        out.append((f'D1/{r}/exc', E.d1_cases(r, MAIN_TX[r], CFG_EXC), dict(deviations=1)))
    out.append(('D1/R1/exc/ctx', E.d1_cases('R1', 'ENST01', CFG_EXC, 90, 96), dict(deviations=1, window=[90, 96])))
    # D1 under other miscleavage / length settings
    for r in ('R1', 'R3'):
        tx = MAIN_TX[r]
        for cfg, cn in ((E.Cfg(exception=None, misc=0), 'm0'), (E.Cfg(exception=None, misc=1, min_length=5, max_length=12), 'm1-5-12')):
            out.append((f'D1/{r}/{cn}', E.d1_cases(r, tx, cfg), dict(deviations=1)))
    # CFG-alt: alternative-translation forms (Sec termination, W>F) on the selenoprotein reference and on R1
    for r, fl, cn in (('R6', ('--selenocysteine-termination',), 'sect'), ('R6', ('--w2f-reassignment',), 'w2f'),
                      ('R6', ('--selenocysteine-termination', '--w2f-reassignment'), 'sect+w2f'),
                      ('R1', ('--w2f-reassignment',), 'w2f')):
        out.append((f'D1/{r}/{cn}', E.d1_cases(r, MAIN_TX[r], E.Cfg(exception=None, flags=fl)), dict(deviations=1, flags=list(fl))))
    # Sec termination with a tight maximum: the Sec-containing cleavage product QRPISUVK (8) is longer than max_length 7,
    # its Sec-terminated prefix is inside the limits
    out.append(('D1/R6/sect/max7', E.d1_cases('R6', 'ENST06', E.Cfg(exception=None, misc=1, min_length=4, max_length=7,
                                                                  flags=('--selenocysteine-termination',)), 0, 70),
                dict(deviations=1, flags=['--selenocysteine-termination'], max_length=7, window=[0, 70])))
    # D2: all pairs within 9 nt; quick = seed-selected complete windows, thorough = all windows
    for r in ('R1', 'R3', 'R2'):
        tx = MAIN_TX[r]
        wins = windows(r, tx)
        if tier == 'quick':
            if r == 'R2':
                continue
            # always: window 1 and, on the coding reference, the window that contains the stop codon (stop-loss
            # and read-through bookkeeping); the seed adds one more
            stopw = (panel.get(r).cds_tx(tx)[1] // WIN) if panel.get(r).cds_tx(tx) else None
            always = (1,) if stopw is None else (1, stopw)
            chosen = vlib.seeded_windows(seed, len(wins), len(always) + 1, always=always)
        else:
            chosen = list(range(len(wins)))
        for wi in chosen:
            lo, hi = wins[wi]
            red = tier == 'quick'
            out.append((f'D2/{r}/none/w{wi}' + ('r' if red else ''), E.d2_cases(r, tx, CFG_NONE, lo, hi, 9, reduced=red),
                        dict(deviations=2, window=[lo, hi], reduced_alphabet=red)))
            if tier == 'thorough' and r == 'R1':
                out.append((f'D2/R9/exc/w{wi}', E.d2_cases('R9', 'ENST10', CFG_EXC, lo, hi, 9),
                            dict(deviations=2, window=[lo, hi])))
    # LONG: indels of 4..8 nt (deletions) / 4..5 nt (insertions), alone and with a second variant 0..3 nt after the
    # first retained base (where a frame-shifted branch rejoins the reference and the next bubble begins)
    for r in ('R1', 'R3', 'R2'):
        tx = MAIN_TX[r]
        wins = windows(r, tx)
        if tier == 'quick':
            if r != 'R1':
                continue
            chosen = vlib.seeded_windows(seed, len(wins), 2, always=(1,))
        else:
            chosen = list(range(len(wins)))
        for wi in chosen:
            lo, hi = wins[wi]
            out.append((f'LONG/{r}/none/w{wi}', E.longindel_cases(r, tx, CFG_NONE, lo, hi), dict(deviations=2, window=[lo, hi])))
    # MNV + one more record: two adjacent SNVs (merged to an MNV) and every third variant within 9 nt
    for r in ('R1', 'R3'):
        tx = MAIN_TX[r]
        L = panel.get(r).tx_len(tx)
        starts = list(range(6, L - 12, 12))
        if tier == 'quick':
            chosen = [starts[i] for i in vlib.seeded_windows(seed, len(starts), 2, always=(3,))] if r == 'R1' else \
                [starts[i] for i in vlib.seeded_windows(seed, len(starts), 1, always=())]
        else:
            chosen = starts
        for st in chosen:
            out.append((f'MNV3/{r}/p{st}', E.mnv3_cases(r, tx, CFG_NONE, st, st + 3), dict(deviations=3, window=[st, st + 3])))
    # CFG-enz: D1 under rules covering every context shape (no look-ahead, look-behind only, both, long)
    enz = ['lysc', 'lysn', 'arg-c', 'asp-n', 'chymotrypsin high specificity', 'glutamyl endopeptidase',
           'proline endopeptidase', 'thermolysin', 'pepsin ph1.3', 'cnbr']
    if tier == 'thorough':
        enz += ['chymotrypsin low specificity', 'staphylococcal peptidase i', 'formic acid', 'ntcb', 'hydroxylamine',
                'proteinase k', 'thrombin', 'enterokinase', 'caspase 3', 'factor xa']
    for rule in enz:
        for r in (('R1', 'R3') if tier == 'thorough' else ('R1',)):
            for m in ((0, 2) if tier == 'thorough' else (2,)):      # quick must be a subset of thorough
                cfg = E.Cfg(rule=rule, exception=None, misc=m, min_length=5)
                out.append((f'ENZ/{r}/{rule}/m{m}', E.d1_cases(r, MAIN_TX[r], cfg), dict(deviations=1, rule=rule, misc=m)))
    out += novel_blocks(tier, seed)
    if prop == 'C01':
        # two alt-splicing records of one transcript in one run (among them records that share their anchor and donor
        # start and differ in the donor end only): each record's own peptides are required; combinations of the two are not
        # modelled, so this block is judged for completeness only
        recs = as_records('R8', 'ENST08')
        out.append(('AS/R8/pairs', [E.Case('R8', as_recs=(a, b), cfg=CFG_NONE) for i, a in enumerate(recs) for b in recs[i + 1:]],
                    dict(deviations=2)))
    if tier == 'thorough':
        for r in ('R1', 'R3'):
            tx = MAIN_TX[r]
            wins = windows(r, tx)
            for wi in range(1, len(wins), 2):       # thorough is seed-independent: every second window (fixed)
                lo, hi = wins[wi]
                out.append((f'D3/{r}/none/w{wi}', E.d3_cases(r, tx, CFG_NONE, lo, hi, 5), dict(deviations=3, window=[lo, hi])))
    return out


def fusion_cases(refname, donor, acc, stride, cfg, intronic=False, small=()):
    ref = panel.get(refname)
    out = []
    Ld, La = ref.tx_len(donor), ref.tx_len(acc)
    if not intronic:
        for p in range(1, Ld, stride):
            dpos = ref.tx_to_gene(donor, p - 1) + 1
            for q in range(0, La - 1, stride):
                out.append(E.Case(refname, fusions=(CV.Fusion(donor, dpos, acc, ref.tx_to_gene(acc, q)),),
                                  small=tuple(small), cfg=cfg))
    else:
        dex, aex = ref.exons_gene(donor), ref.exons_gene(acc)
        dint = [g for (a, b), (c, d) in zip(dex, dex[1:]) for g in range(b + 1, c + 1, stride)]
        aint = [g for (a, b), (c, d) in zip(aex, aex[1:]) for g in range(b, c, stride)]
        for dpos in dint:
            for q in range(0, La - 1, stride * 7):
                out.append(E.Case(refname, fusions=(CV.Fusion(donor, dpos, acc, ref.tx_to_gene(acc, q)),), cfg=cfg))
        for p in range(10, Ld, stride * 7):
            dpos = ref.tx_to_gene(donor, p - 1) + 1
            for apos in aint:
                out.append(E.Case(refname, fusions=(CV.Fusion(donor, dpos, acc, apos),), cfg=cfg))
        for dpos in dint[::2]:
            for apos in aint[::2]:
                out.append(E.Case(refname, fusions=(CV.Fusion(donor, dpos, acc, apos),), cfg=cfg))
    return out


def circ_cases(refname, tx, cfg, with_snv=False, reduced=True):
    ref = panel.get(refname)
    ex = ref.exons_gene(tx)
    g = ref.gene_of[tx]['gene_id']
    gs = ref.gene_seq(g)
    out = []
    for i in range(len(ex)):
        for j in range(i, len(ex)):
            frags = tuple(ex[i:j + 1])
            c = CV.Circ(tx, frags)
            if not with_snv:
                out.append(E.Case(refname, circs=(c,), cfg=cfg))
                continue
            for (a, b) in frags:
                for gp in range(a, b):
                    for alt in 'ACGT':
                        if alt != gs[gp]:
                            out.append(E.Case(refname, circs=(c,), small=(CV.Var(g, tx, gp, gp + 1, gs[gp], alt),), cfg=cfg))
    return out


def as_records(refname, tx):
    """Designed alt-splicing records on a three-exon transcript: whole-exon skip, partial exon deletions
    (A5SS/A3SS like), full / partial intron retention, exon replaced by intronic segments."""
    ref = panel.get(refname)
    g = ref.gene_of[tx]['gene_id']
    ex = ref.exons_gene(tx)
    e0, e1, e2 = ex[0], ex[1], ex[2]
    recs = []
    for (s, e) in [(e1[0], e1[1]), (e1[0], e1[0] + 20), (e1[0] + 30, e1[1]), (e1[0] + 10, e1[0] + 41)]:
        recs.append(CV.AS('Deletion', g, tx, s, e, vid=f'SE-{s}-{e}'))
    for (pos, ds, de) in [(e0[1] - 1, e0[1], e1[0]), (e0[1] - 1, e0[1], e0[1] + 7), (e1[1] - 1, e1[1], e2[0]),
                          (e1[1] - 1, e1[1] + 3, e1[1] + 11)]:
        recs.append(CV.AS('Insertion', g, tx, pos, pos + 1, ds, de, vid=f'RI-{pos}-{ds}-{de}'))
    for (s, e, ds, de) in [(e1[0], e1[1], e1[1] + 2, e1[1] + 14), (e1[0], e1[1], e0[1] + 1, e0[1] + 16)]:
        recs.append(CV.AS('Substitution', g, tx, s, e, ds, de, vid=f'MXE-{s}-{e}-{ds}-{de}'))
    return recs


def novel_blocks(tier, seed):
    out = []
    q = tier == 'quick'
    st = 4 if q else 2          # quick strides are multiples of the thorough strides (quick is a subset of thorough)
    out.append(('FUS/R7/A1>B1', fusion_cases('R7', 'ENST0A1', 'ENST0B1', st, CFG_NONE), dict(deviations=1)))
    out.append(('FUS/R7/B1>A1', fusion_cases('R7', 'ENST0B1', 'ENST0A1', st if not q else 6, CFG_NONE), dict(deviations=1)))
    out.append(('FUS/R7/A3>B1', fusion_cases('R7', 'ENST0A3', 'ENST0B1', st if not q else 6, CFG_NONE), dict(deviations=1)))
    out.append(('FUS/R7/intronic', fusion_cases('R7', 'ENST0A1', 'ENST0B1', 3 if q else 1, CFG_NONE, intronic=True), dict(deviations=1)))
    out.append(('FUS/R7/intronic-rev', fusion_cases('R7', 'ENST0B1', 'ENST0A1', 3 if q else 1, CFG_NONE, intronic=True), dict(deviations=1)))
    # fusion + one small variant on the donor or the accepter transcript (main call and fusion call of the same
    # transcript share labels: entry uniqueness, attribution, junction-spanning variant peptides)
    ref7 = panel.get('R7')
    fz = fusion_cases('R7', 'ENST0A1', 'ENST0B1', 14 if q else 7, CFG_NONE)
    sm = [E.small_alphabet(ref7, 'ENST0A1', p, reduced=True)[0] for p in range(8, ref7.tx_len('ENST0A1') - 3, 10 if q else 5)]
    sm += [E.small_alphabet(ref7, 'ENST0B1', p, reduced=True)[0] for p in range(8, ref7.tx_len('ENST0B1') - 3, 14 if q else 7)]
    out.append(('FUS/R7/A1>B1/+snv', [E.Case('R7', fusions=f.fusions, small=(v,), cfg=CFG_NONE) for f in fz for v in sm],
                dict(deviations=2)))
    # several units of one transcript in one run: SNV + fusion + circRNA, SNV + two fusions with different breakpoints
    # (later units read the transcript's variant series: state shared between units)
    allf = fusion_cases('R7', 'ENST0A1', 'ENST0B1', 1, CFG_NONE)
    bps = sorted({f.fusions[0].donor_pos for f in allf})
    fpick = []
    for k in (1, 2, 3, 4):
        bp = bps[len(bps) * k // 5]
        fzb = [f.fusions[0] for f in allf if f.fusions[0].donor_pos == bp]
        fpick.append(fzb[len(fzb) // 3])
    csel = [c.circs[0] for c in circ_cases('R7', 'ENST0A1', CFG_NONE)]
    usnv = [E.small_alphabet(ref7, 'ENST0A1', p, reduced=True)[0] for p in range(12, ref7.tx_len('ENST0A1') - 6, 14 if q else 7)]
    ucases = []
    for v in usnv:
        for f1 in fpick:
            for c in csel[::2] if q else csel:
                ucases.append(E.Case('R7', small=(v,), fusions=(f1,), circs=(c,), cfg=CFG_NONE))
            for f2 in fpick:
                if f1.donor_pos < f2.donor_pos:
                    ucases.append(E.Case('R7', small=(v,), fusions=(f1, f2), cfg=CFG_NONE))
    out.append(('UNITS/R7', ucases, dict(deviations=3)))
    # two fusion records with the same donor breakpoint whose accepters are two isoforms of one gene at the same gene
    # position: junction peptides carry two header entries (table / FASTA bookkeeping of multi-entry peptides)
    f2cases = []
    a1, a3 = ref7.exons_gene('ENST0A1'), ref7.exons_gene('ENST0A3')
    shared = [g for (s, e) in a3 for g in range(s, e) if any(s1 <= g < e1 for s1, e1 in a1)]
    for p in range(10, ref7.tx_len('ENST0B1') - 10, 18 if q else 9):
        dpos = ref7.tx_to_gene('ENST0B1', p - 1) + 1
        for g in shared[5::14 if q else 7]:
            f2cases.append(E.Case('R7', fusions=(CV.Fusion('ENST0B1', dpos, 'ENST0A1', g), CV.Fusion('ENST0B1', dpos, 'ENST0A3', g)), cfg=CFG_NONE))
    out.append(('FUS2/R7/B1>A1+A3', f2cases, dict(deviations=2)))
    # intragenic fusion (donor and accepter transcripts of the same gene) + one small variant on either side
    igc = []
    for p in range(12, ref7.tx_len('ENST0A1') - 20, 22 if q else 11):
        dpos = ref7.tx_to_gene('ENST0A1', p - 1) + 1
        for qa in range(20, ref7.tx_len('ENST0A3') - 6, 26 if q else 13):
            f = CV.Fusion('ENST0A1', dpos, 'ENST0A3', ref7.tx_to_gene('ENST0A3', qa))
            igc.append(E.Case('R7', fusions=(f,), cfg=CFG_NONE))
            for v in usnv[::2]:
                igc.append(E.Case('R7', fusions=(f,), small=(v,), cfg=CFG_NONE))
    out.append(('FUS/R7/A1>A3/intragenic', igc, dict(deviations=2)))
    for r, tx in (('R8', 'ENST08'), ('R7', 'ENST0A1'), ('R7', 'ENST0B1')):
        out.append((f'CIRC/{r}/{tx}', circ_cases(r, tx, CFG_NONE), dict(deviations=1)))
    out.append(('CIRC/R8/ENST08/snv', circ_cases('R8', 'ENST08', CFG_NONE, with_snv=True), dict(deviations=2)))
    # circle without ATG / stop (no T): ORFs exist only through start-gain SNVs and stay open across loops of a length
    # that is not a multiple of 3 (cross-loop consistency of the ORF's own variant)
    r11 = [c for c in circ_cases('R11', 'ENST11C', E.Cfg(exception=None, min_length=5), with_snv=True)
           if len(c.circs[0].frags) == 1 and c.circs[0].frags[0][1] - c.circs[0].frags[0][0] == 100]
    out.append(('CIRC/R11/exon2/snv', r11, dict(deviations=2, circle_length=100)))
    # a 32-nt circle with an ORF that runs round it: on later passes the ORF reads the positions just 5' of its own start
    r12 = [c for c in circ_cases('R12', 'ENST12C', CFG_NONE, with_snv=True)
           if len(c.circs[0].frags) == 1 and c.circs[0].frags[0][1] - c.circs[0].frags[0][0] == 32]
    out.append(('CIRC/R12/exon2/snv', r12, dict(deviations=2, circle_length=32)))
    if not q:
        out.append(('CIRC/R7/ENST0B1/snv', circ_cases('R7', 'ENST0B1', CFG_NONE, with_snv=True), dict(deviations=2)))
    recs = as_records('R8', 'ENST08')
    out.append(('AS/R8/alone', [E.Case('R8', as_recs=(a,), cfg=CFG_NONE) for a in recs], dict(deviations=1)))
    ref = panel.get('R8')
    cs = []
    L = ref.tx_len('ENST08')
    for a in recs:
        for p in range(0, L, 1 if not q else 2):
            for v in E.small_alphabet(ref, 'ENST08', p, reduced=True):
                cs.append(E.Case('R8', as_recs=(a,), small=(v,), cfg=CFG_NONE))
    out.append(('AS/R8/+D1', cs, dict(deviations=2)))
    # small variants NESTED in the donor segment of an insertion / substitution (gene positions that are intronic for the
    # transcript), up to and across the segment's last base
    ns = []
    for a in recs:
        if a.kind in ('Insertion', 'Substitution'):
            for gp in range(a.dstart, a.dend):
                for v in E.small_alphabet_gene(ref, 'ENST08', gp):
                    ns.append(E.Case('R8', as_recs=(a,), small=(v,), cfg=CFG_NONE))
    out.append(('AS/R8/+nested', ns, dict(deviations=2)))
    return out


_canon = {}


def canonical(refname, cfg: E.Cfg):
    k = (refname, cfg.cleavage().key())
    if k not in _canon:
        ref = panel.get(refname)
        nf = frozenset(t for t in ref.tx if ref.has_tag(t, 'cds_start_NF'))
        _canon[k] = O.canonical_pool(ref.proteins(), cfg.cleavage(), nf)
    return _canon[k]


def expected(case: E.Case):
    ref = panel.get(case.ref)
    st = case.cfg.settings()
    must, may = set(), set()
    txs = sorted({v.tx for v in case.small} | {a.tx for a in case.as_recs})
    for tx in txs:
        sm = [v for v in case.small if v.tx == tx]
        asr = [a for a in case.as_recs if a.tx == tx]
        m, y, _ = CV.expected_main(ref, tx, sm, asr, st)
        must |= m
        may |= y
    for f in case.fusions:
        m, y = CV.expected_fusion(ref, f, list(case.small), st)
        must |= m
        if y is None:
            may = None
        elif may is not None:
            may |= y
    for c in case.circs:
        m, y = CV.expected_circ(ref, c, list(case.small), st)
        must |= m
        if may is not None:
            may |= y
    can = canonical(case.ref, case.cfg)
    must = {p for p in must if p not in can}
    return must, may, can


def judge(item):
    """(case, result) -> dict(crash, missing, spurious, n_must, n_out)"""
    case, res = item
    if not res['ok']:
        return dict(crash=res['exc'], tb=res.get('tb'), missing=[], spurious=[], n_must=0, n_out=0)
    must, may, can = expected(case)
    out = set(res['peptides'] or {})
    return dict(crash=None, missing=sorted(must - out), spurious=sorted(out - may) if may is not None else [],
                n_must=len(must), n_out=len(out), judged_may=may is not None)


def replay_case(path, which):
    r = json.load(open(path))
    print('key      :', r['key'])
    print('what     :', r['what'])
    case = case_from_replay(r)
    res = E.execute(case, keep_table=True)
    j = judge((case, res))
    print('crash    :', j['crash'])
    print('output   :', sorted(res['peptides'] or {}))
    must, may, can = expected(case) if res['ok'] else (set(), set(), set())
    print('MUST     :', sorted(must))
    print('missing  :', j['missing'])
    print('spurious :', j['spurious'])
    return j


def case_to_replay(case: E.Case):
    from dataclasses import asdict
    return dict(case=dict(ref=case.ref, small=[asdict(v) for v in case.small],
                          as_recs=[asdict(a) for a in case.as_recs], fusions=[asdict(f) for f in case.fusions],
                          circs=[dict(tx=c.tx, frags=[list(x) for x in c.frags], vid=c.vid, introns=c.introns) for c in case.circs],
                          cfg=asdict(case.cfg)), files=case.describe())


def case_from_replay(r):
    c = r['case']
    cfgd = dict(c['cfg'])
    for k in ('flags', 'mvpn', 'avpm'):
        cfgd[k] = tuple(cfgd[k])
    cfgd.setdefault('order_salt', 0)
    if cfgd.get('collapse'):
        cfgd['collapse'] = tuple(cfgd['collapse'])
    return E.Case(c['ref'], small=tuple(CV.Var(**v) for v in c['small']),
                  as_recs=tuple(CV.AS(**a) for a in c['as_recs']),
                  fusions=tuple(CV.Fusion(**f) for f in c['fusions']),
                  circs=tuple(CV.Circ(x['tx'], tuple(tuple(y) for y in x['frags']), x['vid'], x['introns']) for x in c['circs']),
                  cfg=E.Cfg(**cfgd))


# =============================================================================================
# shared driver for C01 / C02 (and the output-level parts of C03 / C04)
# =============================================================================================
def run_blocks(run, prop, on_case, extra_blocks=(), judge_fn=None):
    """Execute all blocks for `prop`; on_case(case, result, verdict, blockname) reports violations
    and returns True if the case is non-trivial."""
    executed = reused = 0
    allb = list(blocks(run.tier, run.seed, prop)) + list(extra_blocks)
    for name, cases, info in allb:
        if run.only and not any(name.startswith(o) for o in run.only):
            continue
        res, ex, ru = E.run_block(name, cases, jobs=run.jobs)
        executed += ex
        reused += ru
        verdicts = vlib.pmap(judge_fn or judge, list(zip(cases, res)), jobs=run.jobs)
        errs = vlib.harness_errors(verdicts)
        if errs:
            raise RuntimeError(errs[0])
        nt = 0
        for case, r, j in zip(cases, res, verdicts):
            if on_case(case, r, j, name):
                nt += 1
        run.block(name, len(cases), nt, True, **info)
        if cases:
            run.sample(dict(block=name, case=cases[len(cases) // 2].describe()), limit=6)
    run.extra.update(executed=executed, reused_from_cache=reused)


def collapse_cases(tier, seed):
    """CFG-collapse: a complete D2 window under 9 settings of the collapse knobs; each output must
    be identical to the default-settings output of the same case."""
    wins = windows('R1', 'ENST01')
    wi = vlib.seeded_windows(seed, len(wins), 1, always=(2,))[0]
    lo, hi = wins[wi]
    base = E.d2_cases('R1', 'ENST01', CFG_NONE, lo, hi if tier == 'thorough' else lo + 8, 9, reduced=True)
    out = []
    for mn in (1, 2, 30):
        for na in (1, 2, 5):
            cfg = E.Cfg(exception=None, collapse=(mn, na))
            out.append((f'COLLAPSE/R1/w{wi}/{mn}-{na}', [E.Case(c.ref, small=c.small, cfg=cfg) for c in base],
                        dict(deviations=2, window=[lo, hi], min_nodes_to_collapse=mn, naa_to_collapse=na)))
    return out, base
