#!/usr/bin/env python3
"""Print the markdown table of seeded changes (seeded/*/meta.json) for DESIGN.md section 9.4."""
import json, sys
from pathlib import Path
rows = []
for d in sorted(Path(__file__).resolve().parent.parent.glob('seeded/*')):
    m = json.load(open(d / 'meta.json'))
    v = m.get('verified_by_main_session', {})
    rows.append((d.name, m.get('property', ''), (m.get('breaks') or m.get('summary') or '').replace('|', '/').replace('\n', ' ')[:230],
                 (m.get('needs') or '').replace('|', '/').replace('\n', ' ')[:200], m.get('verdict', ''), str(v.get('check_violations', ''))))
print('| id | property | change | needs | verdict | violations reported (quick) |')
print('|---|---|---|---|---|---|')
for r in rows:
    print('| ' + ' | '.join(r) + ' |')
