#!/bin/bash
# Offline setup: nothing to build (pure Python explorer).  Verifies the interpreter pieces exist.
set -e
cd "$(dirname "$0")/.."
/venv/bin/python -c "import Bio, regex, pathos; print('venv ok, biopython', Bio.__version__)"
python3-vt -c "import jsonschema; print('jsonschema ok')"
mkdir -p evidence replays
chmod +x check tools/*.py tools/*.sh
echo setup done
