#!/bin/bash
# tools/reseed.sh <tag> <PID> [check args]: fresh worktree of /repo HEAD, apply seeded/<tag>/patch.diff, run the demo and the
# property's quick check against it (known findings in place), remove the worktree.  Exit status of the check is printed.
tag=$1; pid=$2; shift 2
wt=/tmp/rs_$tag
git -C /repo worktree add -q --detach $wt HEAD || exit 2
if ! git -C $wt apply /verif/seeded/$tag/patch.diff 2>/dev/null; then echo "$tag: patch does not apply to the current HEAD"; git -C /repo worktree remove --force $wt; exit 3; fi
(cd /verif/seeded/$tag && PYTHONPATH=$wt timeout 900 /venv/bin/python demo.py > /dev/null 2>&1; echo "$tag demo exit with patch=$?")
mkdir -p /tmp/rs_out/$tag
cd /verif && VERIF_REPO=$wt VERIF_EVIDENCE_DIR=/tmp/rs_out/$tag VERIF_REPLAY_DIR=/tmp/rs_out/$tag/replays VERIF_NOCACHE=1 ./check $pid --tier quick "$@" > /tmp/rs_out/$tag/check.log 2>&1
echo "$tag check exit=$? $(grep -c '^VIOLATION' /tmp/rs_out/$tag/check.log) printed violations; $(grep 'tier=' /tmp/rs_out/$tag/check.log | cut -c1-130)"
git -C /repo worktree remove --force $wt
