import json, sys
pid, wt, tag = sys.argv[1], sys.argv[2], sys.argv[3]
hint = sys.argv[4] if len(sys.argv) > 4 else ''
P = {json.loads(l)['id']: json.loads(l) for l in open('/verif/properties.jsonl')}
p = P[pid]
anch = p['anchors']
txt = f"""You are helping to evaluate how well a verification harness (which you cannot see) detects realistic regressions in moPepGen, a Python proteogenomics tool (uclahs-cds/package-moPepGen). You work ONLY in your own scratch git worktree of the repository at {wt} (already created; HEAD = the current tree). Do NOT read or touch /repo, /verif or any other directory outside {wt}, /tmp/mut_out/{tag} and /tmp/mut_tools. The sandbox is offline. Python is /venv/bin/python (3.12, Biopython 1.88); run things with `cd {wt} && PYTHONPATH={wt} /venv/bin/python ...` so that YOUR worktree's moPepGen is imported (verify once with `python -c "import moPepGen; print(moPepGen.__file__)"`).

THE PROPERTY (id {pid}: {p['title']}):
{p['statement']}

Quantified over: {p['quantifier']['text']}
Code it is anchored in: {', '.join(anch['files'])}
Mechanisms: {json.dumps(anch.get('mechanism', []))}

YOUR TASK: make ONE realistic change to the source under {wt}/moPepGen (a plausible bug a developer could introduce: an off-by-one, a wrong comparison, a cursor/offset advanced too early, a stale/shared mutable default, a wrong dict key, a swapped strand branch, a lost update of bookkeeping state, two sites that each look fine alone, ...) that BREAKS this property, while
  (a) the package still imports and the repository's existing pinned test-suite still passes: run `/venv/bin/python /tmp/mut_tools/baseline.py {wt}` (about 1-2 minutes; it must print "278/278 stable tests pass" and exit 0) -- run it BEFORE your change too, to see the baseline;
  (b) the breakage needs something SPECIFIC to manifest -- a particular input geometry, an unusual option combination, a multi-step sequence of operations, a particular file layout / order, a fault at a particular point -- i.e. ordinary use and the obvious smoke test would NOT expose it at once. Do not break the feature wholesale; the subtler and more localized (yet real, user-visible) the better. Do not touch test files, and do not change more than ~10 lines.
{hint}
DELIVERABLES, all under /tmp/mut_out/{tag}/ (create the directory):
  1. patch.diff  -- `git -C {wt} diff` of your change (source only).
  2. demo.py     -- a small self-contained program, run as `PYTHONPATH=<tree> /venv/bin/python demo.py`, that builds whatever tiny inputs it needs in a temporary directory (it may use files from <tree>/test/files, locate <tree> via `import moPepGen, pathlib; pathlib.Path(moPepGen.__file__).parent.parent`), exercises the real code, and exits 1 with a clear message if the property is violated, 0 if it holds. It MUST exit 0 on the unchanged tree and exit 1 with your change applied -- verify both by reverting and re-applying your patch with `git -C {wt} apply -R /tmp/mut_out/{tag}/patch.diff` and `git -C {wt} apply /tmp/mut_out/{tag}/patch.diff` (do NOT use `git stash`: the stash is shared between worktrees and other people work in sibling worktrees).
  3. meta.json   -- {{"property": "{pid}", "summary": "<one sentence: what was changed>", "needs": "<what specific input/sequence/option is needed for it to manifest>", "files": ["..."], "ran": ["<commands you ran and their outcome>"]}}
Finish by printing a 5-line report (what you changed, why the tests miss it, what manifests it). Leave the worktree WITH your change applied. If after a serious effort you cannot find a change that keeps the 278 tests passing, say so in meta.json ("failed": true) instead of delivering a broken one.
"""
print(txt)
