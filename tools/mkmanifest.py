#!/usr/bin/env python3
"""Generate /verif/MANIFEST.json from the table below + which checks exist; validates it."""
import json, os, subprocess, sys
from pathlib import Path
V = Path(__file__).resolve().parent.parent

CHECKS = {
 'C01': dict(cat='exploration', tech='bounded exhaustive input enumeration (all <=k-variant sets on designed references) of the real callVariant against a haplotype-enumeration oracle',
             text='every variant set with <=1 (complete) and <=2..3 (windowed, complete within window) elementary variants on the reference panel is executed and MUST (oracle) is required to be a subset of the output',
             note='oracle = lib/oracle.py + lib/expasy_table.py; complexity limits disabled; see DESIGN 3.4', ref='4/C01'),
 'C02': dict(cat='exploration', tech='bounded exhaustive input enumeration + exhaustive placement of injected timeouts, output required to lie inside the liberal oracle set',
             text='same executions as C01: every output sequence must be in MAY (liberal haplotypes); binding limits and injected timeouts may only remove peptides',
             note='as C01', ref='4/C02'),
 'C03': dict(cat='exploration', tech='bounded exhaustive input enumeration; every (peptide, header entry) re-derived by applying exactly the named variants',
             text='every header entry of every output in the enumerated blocks is re-derived independently', note='as C01', ref='4/C03'),
 'C04': dict(cat='exploration', tech='bounded exhaustive input enumeration with predicate oracle over FASTA and peptide table',
             text='hygiene predicates on every output of the enumerated callVariant / callNovelORF / callAltTranslation runs', note='oracle canonical pool from lib/oracle.py', ref='4/C04'),
 'C05': dict(cat='exploration', tech='bounded exhaustive enumeration of ordered configuration/input pairs (paired runs of the real command)',
             text='for every base case and every edge of the permissiveness order the two real runs are compared', note='relation is the oracle', ref='4/C05'),
 'C06': dict(cat='model_checking', tech='explicit enumeration of all dispatch-loop configurations (transcripts x skip patterns x thread counts), file partitions/orders, index forms and hash seeds against the threads=1 single-file run',
             text='all configurations up to the bound; each compared with the reference schedule', note='ParallelPool replaced by ordered in-process map except in the conformance block', ref='4/C06'),
 'C07': dict(cat='fault_enumeration', tech='exhaustive fault-set enumeration over processing units with interposed failures',
             text='every subset of failing units up to the bound, with and without --skip-failed', note='faults injected by interposition on the per-unit callers', ref='4/C07'),
 'C08': dict(cat='exploration', tech='bounded exhaustive enumeration of codon-token transcripts against the definitional ORF digest',
             text='all token strings up to length k as the non-coding transcript; FASTA equality', note='oracle lib', ref='4/C08'),
 'C09': dict(cat='exploration', tech='bounded exhaustive enumeration of coding sequences against the definitional alt-translation digest',
             text='all CDS strings up to length n over a residue alphabet incl. Sec and W', note='oracle lib', ref='4/C09'),
 'C10': dict(cat='exploration', tech='bounded exhaustive enumeration of amino-acid strings / proteomes against an independent position-class rule table and string digest',
             text='all strings up to the stated lengths for all 36 rule tables; all small proteomes; pool via three code paths x exception spellings',
             note='lib/expasy_table.py is the trusted transcription of the ExPASy rules', ref='4/C10'),
 'C11': dict(cat='model_checking', tech='exhaustive annotation-grammar enumeration + breadth-first search over cache access histories against a dictionary model',
             text='every position of every generated annotation; every access sequence up to the bound', note='oracle from raw intervals', ref='4/C11'),
 'C12': dict(cat='model_checking', tech='explicit-state breadth-first search over index-directory operation histories calling the real commands, lock-step dictionary model',
             text='all operation sequences up to the depth bound over 3 parameter sets', note='state = directory snapshot', ref='4/C12'),
 'C13': dict(cat='model_checking', tech='exhaustive record/attribute enumeration for round trip; exhaustive arrangements for index equivalence; BFS over edit-after-index histories',
             text='all record kinds x attribute subsets; all arrangements of <=5 records; all histories up to depth 3', note='', ref='4/C13'),
 'C14': dict(cat='exploration', tech='bounded exhaustive enumeration of genomic events at every gene position, sequence-level oracle',
             text='every position x event kind on both strands; threshold lattice', note='', ref='4/C14'),
 'C15': dict(cat='exploration', tech='bounded exhaustive enumeration of breakpoint pairs x tool formats, fused-sequence oracle',
             text='all breakpoint pairs on the grid', note='', ref='4/C15'),
 'C16': dict(cat='exploration', tech='bounded exhaustive enumeration of gene structures x rMATS events, isoform-sequence oracle',
             text='all isoform sets x events from the skeleton', note='', ref='4/C16'),
 'C17': dict(cat='exploration', tech='bounded exhaustive enumeration of exon subsets / introns x offsets x formats',
             text='all exon subsets and tolerance offsets', note='', ref='4/C17'),
 'C18': dict(cat='exploration', tech='bounded exhaustive enumeration of header-entry combinations x options, conservation oracle',
             text='all 1-2 entry peptides and pairs x option lattice', note='', ref='4/C18'),
 'C19': dict(cat='exploration', tech='bounded exhaustive enumeration of FASTAs x expression lattice x flags, predicate oracle + metamorphic relations',
             text='all flag combinations x cutoff lattice', note='', ref='4/C19'),
 'C20': dict(cat='exploration', tech='bounded exhaustive enumeration of target sets x options, invariant oracle',
             text='all target sets up to length bound x option lattice', note='', ref='4/C20'),
}

THOROUGH_ONLY_QUICK = set()

def main():
    global READY
    READY = set((V / 'tools' / 'ready.txt').read_text().split())
    checks = []
    na = []
    for pid, c in CHECKS.items():
        script = V / 'checks' / f'{pid.lower()}.py'
        if script.exists() and pid in READY:
            checks.append(dict(
                property_id=pid,
                quick_cmd=f'./check {pid} --tier quick',
                thorough_cmd=f'./check {pid} --tier thorough',
                evidence_file=f'/verif/evidence/{pid}.json',
                replay_cmd_template='./check replay {path}',
                engine='explorer',
                level_claimed=dict(category=c['cat'], text=c['text'], design_ref=f"DESIGN.md section {c['ref']}"),
                level_note=c['note'] or 'reference model in /verif/lib; CPython; Biopython molecular_weight',
                technique=c['tech'],
            ))
        else:
            na.append(dict(property_id=pid, reason='check not built yet in this session (planned: DESIGN.md section %s); no claim made' % c['ref']))
    hooks_file = V / 'tools' / 'hook_commits.txt'
    hook_commits = hooks_file.read_text().split() if hooks_file.exists() else []
    m = dict(
        version=1,
        setup_cmd='./tools/setup.sh',
        hooks=dict(guard='MOPEPGEN_VERIF',
                   enable='checks import /repo from its working tree with MOPEPGEN_VERIF=1 exported by ./check (no build step; pure Python)',
                   baseline_off_cmd='python3 /verif/tools/baseline.py',
                   source_commits=hook_commits, add_only=True),
        engines=[dict(name='explorer', path='/verif/lib', serves_properties=[c['property_id'] for c in checks],
                      kind_free_text='hand-written bounded exhaustive explorer (E-INPUT / E-STATE / E-FAULT) driving the real Python implementation in-process, reference models in lib/oracle.py, lib/expasy_table.py, lib/refgen.py')],
        checks=checks,
        notes='See DESIGN.md. Known findings / fixed defects: known_findings.txt. Seeded changes: seeded/.',
        not_applicable=na,
    )
    (V / 'MANIFEST.json').write_text(json.dumps(m, indent=1) + '\n')
    code = ("import json,sys,jsonschema;"
            "jsonschema.validate(json.load(open(sys.argv[1])),json.load(open(sys.argv[2])))")
    p = subprocess.run(['python3-vt', '-c', code, str(V / 'MANIFEST.json'), '/root/.vp/MANIFEST.schema.json'],
                       capture_output=True, text=True)
    print('MANIFEST valid' if p.returncode == 0 else p.stderr[-1500:], '| checks:', [c['property_id'] for c in checks])
    sys.exit(p.returncode)

main()
