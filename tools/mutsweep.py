#!/venv/bin/python
"""Systematic single-token mutation sweep of one source file against one check.

usage: tools/mutsweep.py <PID> <path relative to the repo> [--lines a-b] [--jobs N] [--tier quick]
                         [--out file.jsonl] [--only REGEX]

Every mutant is one token-level change of one line (comparison boundary, +-1, and/or, negation,
True/False, min/max, start/end, first/last index).  Each is written into a scratch worktree under
/tmp (never /repo), the check is run against it with VERIF_REPO, and the verdict is recorded:
caught (exit 1 + VIOLATION line), error (other non-zero exit), survived (exit 0).  Survivors are the
work list: each is either an equivalent change or a hole in the check.
"""
import argparse, json, os, re, subprocess, sys, py_compile, tempfile, shutil
from concurrent.futures import ThreadPoolExecutor
import queue

RULES = [
    (r' < ', ' <= '), (r' <= ', ' < '), (r' > ', ' >= '), (r' >= ', ' > '),
    (r' == ', ' != '), (r' != ', ' == '),
    (r' \+ 1\b', ''), (r' - 1\b', ''), (r' \+ 1\b', ' - 1'), (r' - 1\b', ' + 1'),
    (r' \+= 1\b', ' += 0'), (r' -= 1\b', ' -= 0'),
    (r' and ', ' or '), (r' or ', ' and '),
    (r'\bif not ', 'if '), (r'\bif (?!not )', 'if not '),
    (r'\bTrue\b', 'False'), (r'\bFalse\b', 'True'),
    (r'\bmin\(', 'max('), (r'\bmax\(', 'min('),
    (r'\.start\b', '.end'), (r'\.end\b', '.start'),
    (r'\[0\]', '[-1]'), (r'\[-1\]', '[0]'),
    (r'\b1\b', '0'), (r'\b0\b', '1'),
    (r" is None", " is not None"), (r" is not None", " is None"),
    (r"\bcontinue\b", "pass"), (r"\bbreak\b", "pass"),
    (r"== 1\b", "== -1"), (r"== -1\b", "== 1"),
    (r"\bstrand\b", "strand_"),
]

def gen_mutants(src_lines, lo, hi, only):
    in_doc = False
    for i, line in enumerate(src_lines):
        s = line.strip()
        q = s.count('"""') + s.count("'''")
        if in_doc:
            if q % 2 == 1:
                in_doc = False
            continue
        if q % 2 == 1:
            in_doc = True
            continue
        if q:                       # one-line docstring
            continue
        if not (lo <= i + 1 <= hi) or not s or s.startswith('#') or s.startswith(('import ', 'from ')):
            continue
        if s.startswith(('def ', 'class ', '@', 'raise ', 'logger', 'print(')):
            continue
        if only and not re.search(only, line):
            continue
        code = line.split('#')[0] if "'" not in line and '"' not in line else line
        for pat, rep in RULES:
            if rep == 'strand_':
                continue
            for m in re.finditer(pat, code):
                new = line[:m.start()] + m.expand(rep) + line[m.end():]
                if new != line:
                    yield i, f"{pat} -> {rep!r} @col{m.start()}", new

def main():
    ap = argparse.ArgumentParser()
    ap.add_argument('pid'); ap.add_argument('path')
    ap.add_argument('--lines', default='1-100000'); ap.add_argument('--jobs', type=int, default=6)
    ap.add_argument('--tier', default='quick'); ap.add_argument('--out'); ap.add_argument('--only')
    ap.add_argument('--timeout', type=int, default=900)
    ap.add_argument('--repo', default='/repo')
    a = ap.parse_args()
    lo, hi = map(int, a.lines.split('-'))
    src = open(os.path.join(a.repo, a.path)).read().split('\n')
    muts = list(gen_mutants(src, lo, hi, a.only))
    # drop mutants that do not compile
    good = []
    tmpd = tempfile.mkdtemp(prefix='sweepc_')
    for k, (i, desc, new) in enumerate(muts):
        lines = list(src); lines[i] = new
        p = os.path.join(tmpd, 'm.py'); open(p, 'w').write('\n'.join(lines))
        try:
            py_compile.compile(p, cfile=os.path.join(tmpd, 'm.pyc'), doraise=True)
            good.append((i, desc, new))
        except py_compile.PyCompileError:
            pass
    shutil.rmtree(tmpd)
    print(f"{len(good)} mutants of {a.path} lines {a.lines}", flush=True)
    slots = queue.Queue()
    base = f"/tmp/sweep_{a.pid}_{os.getpid()}"
    for j in range(a.jobs):
        d = f"{base}_{j}"
        subprocess.run(['git', '-C', a.repo, 'worktree', 'add', '-q', '--detach', d, 'HEAD'], check=True)
        # carry uncommitted changes of the repo working tree (normally none)
        slots.put(d)
    out = open(a.out or f"/tmp/sweep_{a.pid}_{os.path.basename(a.path)}.jsonl", 'a')
    def job(m):
        i, desc, new = m
        d = slots.get()
        try:
            f = os.path.join(d, a.path)
            lines = list(src); lines[i] = new
            open(f, 'w').write('\n'.join(lines))
            ev = d + '_ev'; os.makedirs(ev, exist_ok=True)
            env = dict(os.environ, VERIF_REPO=d, VERIF_EVIDENCE_DIR=ev, VERIF_REPLAY_DIR=ev,
                       VERIF_NOCACHE='1', PYTHONDONTWRITEBYTECODE='1')
            try:
                r = subprocess.run(['./check', a.pid, '--tier', a.tier], cwd='/verif', env=env,
                                   capture_output=True, text=True, timeout=a.timeout)
                rc, txt = r.returncode, r.stdout + r.stderr
            except subprocess.TimeoutExpired:
                rc, txt = 124, 'timeout'
            verdict = 'survived' if rc == 0 else ('caught' if 'VIOLATION property=' in txt else 'error')
            open(f, 'w').write('\n'.join(src))
            shutil.rmtree(ev, ignore_errors=True)
            first = next((l for l in txt.split('\n') if l.startswith('VIOLATION')), '')[:160]
            rec = dict(line=i + 1, desc=desc, old=src[i].strip(), new=new.strip(), verdict=verdict, rc=rc, first=first)
            out.write(json.dumps(rec) + '\n'); out.flush()
            print(f"{verdict:9s} L{i+1} {desc}  | {new.strip()[:100]}", flush=True)
            return rec
        finally:
            slots.put(d)
    try:
        with ThreadPoolExecutor(a.jobs) as ex:
            res = list(ex.map(job, good))
    finally:
        for j in range(a.jobs):
            subprocess.run(['git', '-C', a.repo, 'worktree', 'remove', '--force', f"{base}_{j}"])
    n = {v: sum(r['verdict'] == v for r in res) for v in ('caught', 'error', 'survived')}
    print("SUMMARY", a.pid, a.path, n)

if __name__ == '__main__':
    main()
