#!/usr/bin/env python3
"""Print known_findings.txt lines for the violations in a check log:  tools/kf.py C08 <logfile> ['what fails' override]"""
import re, sys
sys.path.insert(0, str(__import__('pathlib').Path(__file__).resolve().parent.parent / 'lib'))
import vlib
pid, log = sys.argv[1], sys.argv[2]
lines = open(log).read().splitlines()
for i, l in enumerate(lines):
    if l.startswith('VIOLATION property=' + pid):
        key = lines[i + 1].strip()
        assert key.startswith('key='), key
        what = lines[i + 2].strip() if i + 2 < len(lines) else ''
        print(f'open: property={pid} key={vlib.quote_key(key[4:])} {what[:300]}')
