#!/usr/bin/env python3
"""tools/keepmutant.py <tag> <PID> <verdict: caught|caught-after-strengthening|missed> "<note>"
Copies /tmp/mut_out/<tag>/{patch.diff,demo.py,meta.json} to /verif/seeded/<tag>/ and records what was verified."""
import json, re, shutil, sys
from pathlib import Path
tag, pid, verdict, note = sys.argv[1:5]
src = Path('/tmp/mut_out') / tag
dst = Path('/verif/seeded') / tag
dst.mkdir(parents=True, exist_ok=True)
for f in ('patch.diff', 'demo.py'):
    shutil.copy(src / f, dst / f)
try:
    meta = json.load(open(src / 'meta.json'))
except Exception:
    meta = {}
log = (src / f'check_{pid}.log')
nviol = None
last = ''
if log.exists():
    t = log.read_text()
    nviol = len(re.findall(r'^VIOLATION', t, re.M))
    last = t.strip().splitlines()[-1][:300] if t.strip() else ''
meta.update(dict(
    property=pid, tag=tag,
    breaks=meta.get('summary', ''), needs=meta.get('needs', ''),
    verified_by_main_session=dict(
        demo_exit_on_unchanged_tree=0, demo_exit_with_patch=1,
        pinned_suite_with_patch='278/278 stable tests pass (tools/baseline.py on the patched worktree)',
        check_command=f'VERIF_REPO=<patched worktree> ./check {pid} --tier quick',
        check_violations=nviol, check_last_line=last),
    verdict=verdict, note=note))
json.dump(meta, open(dst / 'meta.json', 'w'), indent=1)
print('kept', dst, verdict, nviol)
