#!/usr/bin/env python3
"""Run the repository's pinned suite (guard OFF) and compare with /root/.vp/BASELINE.json.
Exit 0 iff every stable_pass test passes."""
import json, os, subprocess, sys, tempfile, xml.etree.ElementTree as ET
base = json.load(open('/root/.vp/BASELINE.json'))
env = dict(os.environ)
env.pop('MOPEPGEN_VERIF', None)
repo = sys.argv[1] if len(sys.argv) > 1 else '/repo'
with tempfile.TemporaryDirectory() as td:
    xml = os.path.join(td, 'j.xml')
    cmd = ['/venv/bin/python', '-m', 'pytest', '-q', '-p', 'no:cacheprovider', '--timeout=900',
           '--continue-on-collection-errors', f'--junitxml={xml}']
    if os.path.exists('/venv/lib/python3.12/site-packages/xdist') and os.environ.get('BASELINE_XDIST'):
        cmd += ['-n', os.environ['BASELINE_XDIST']]
    p = subprocess.run(cmd, cwd=repo, env=env, stdout=subprocess.PIPE, stderr=subprocess.STDOUT, text=True)
    passed = set()
    for tc in ET.parse(xml).getroot().iter('testcase'):
        if not any(c.tag in ('failure', 'error', 'skipped') for c in tc):
            passed.add(f"{tc.get('classname')}::{tc.get('name')}")
missing = [t for t in base['stable_pass'] if t not in passed]
print(f"baseline: {len(base['stable_pass'])-len(missing)}/{len(base['stable_pass'])} stable tests pass; {len(passed)} pass in total")
for m in missing:
    print('NOT PASSING:', m)
sys.exit(1 if missing else 0)
