#!/usr/bin/env python3
"""tools/kfgen.py <PID> [replay dir]  -- print `open:` lines for every violation replay of a C01-C05 run, with the
defect class as description.  Lines of an UNCLASSIFIED case are printed to stderr instead: look at them first."""
import glob, json, sys
from pathlib import Path
sys.path.insert(0, str(Path(__file__).resolve().parent.parent / 'lib'))
import vlib
pid = sys.argv[1]
d = sys.argv[2] if len(sys.argv) > 2 else f'/verif/replays/{pid}'

CTX = ('cleavage context longer than one residue is lost at a graph-node boundary (sites are decided on node fragments: '
       'PeptideVariantGraph.fit_into_cleavages_*, find_first_cleave_or_stop_site_with_range on the downstream fragment)')
CLS = {
 'pepsin': CTX + ' - pepsin needs P3..P2\'',
 'exc': CTX + ' - trypsin exception look-behind (RR[HR], CK[HY], [CD]KD, CRK)',
 'collapse': '--naa-to-collapse 1 with --min-nodes-to-collapse <= 2: pop-collapse keeps a wrong representative, the output contains peptides no haplotype has',
 'circ-last': 'circRNA: a variant on the last nucleotide of a fragment is not applied (strict upper bound per fragment in VariantRecordPool.filter_variants; relaxing it crashes the circular graph)',
 'dup-entry': 'duplicate header entry: the main call and the fusion call of one transcript number their labels independently (VariantPeptideDict.labels is per graph)',
 'two-alleles': 'label names two alleles of the same position together',
 'label': 'label does not witness its peptide (adjacent SNVs merged to an MNV / start- or cleavage-gain bookkeeping names a record the peptide does not carry, or omits one it needs)',
 'sect': '--selenocysteine-termination removes a variant peptide that equals a Sec-truncated product of the unmodified transcript (per-transcript denylist then contains it)',
 'unattrib': 'added peptide is labelled without the added record (same label defect as C03: the record is needed but not named)',
}


def classify(r):
    k = r['key']
    case = r.get('case') or (r.get('relaxed') or {}).get('case') or {}
    cfg = case.get('cfg', {})
    what = r.get('what', '')
    if cfg.get('rule') == 'pepsin ph1.3':
        return 'pepsin'
    if cfg.get('exception') == 'trypsin_exception':
        if 'cannot be applied together' in what:
            return 'two-alleles'
        return 'exc'
    if cfg.get('collapse') and cfg['collapse'][1] == 1 and cfg['collapse'][0] <= 2:
        return 'collapse'
    if pid == 'C01' and case.get('circs') and len(case.get('small', [])) == 1:
        c = case['circs'][0]
        v = case['small'][0]
        if any(v['end'] == f[1] for f in c['frags']):
            return 'circ-last'
    if pid == 'C03':
        if 'entry string also used for' in what:
            return 'dup-entry'
        if 'cannot be applied together' in what:
            sm = case.get('small', [])
            starts = [v['start'] for v in sm]
            if len(set(starts)) < len(starts):
                return 'two-alleles'
            return 'label'
        if 'not a product' in what:
            return 'label'
    if pid == 'C05':
        if '|+sect|lost' in k:
            return 'sect'
        if '|unattributable:' in k and ('|add:' in k):
            return 'unattrib'
    return None


n = {}
for f in sorted(glob.glob(d + '/*.json')):
    r = json.load(open(f))
    c = classify(r)
    n[c] = n.get(c, 0) + 1
    line = f"open: property={pid} key={vlib.quote_key(r['key'])} {CLS.get(c, 'UNCLASSIFIED')}"
    print(line, file=sys.stdout if c else sys.stderr)
print('classes:', n, file=sys.stderr)
