#!/bin/bash
# usage: tools/trymutant.sh <tag> <PID> [tier] [extra check args]   -- evaluates /tmp/mut_out/<tag> against check <PID>
# Uses the agent's worktree /tmp/wt_<tag> (reset to HEAD, patch re-applied).  Never touches /repo.
tag=$1; pid=$2; tier=${3:-quick}; shift 3 2>/dev/null
wt=/tmp/wt_$tag; out=/tmp/mut_out/$tag
[ -f $out/patch.diff ] || { echo "no patch for $tag"; exit 2; }
git -C $wt checkout -q -- . && git -C $wt clean -qfd -e '*.pyc' >/dev/null
echo "== demo on clean tree"; (cd $out && PYTHONPATH=$wt timeout 900 /venv/bin/python demo.py >/tmp/mut_out/$tag/demo_clean.log 2>&1; echo "exit=$?")
git -C $wt apply $out/patch.diff || { echo "patch does not apply"; exit 2; }
echo "== demo on mutated tree"; (cd $out && PYTHONPATH=$wt timeout 900 /venv/bin/python demo.py >/tmp/mut_out/$tag/demo_mut.log 2>&1; echo "exit=$?")
if [ -z "$SKIP_BASELINE" ]; then echo "== pinned suite on mutated tree"; /venv/bin/python /verif/tools/baseline.py $wt 2>&1 | tail -n 3; fi
echo "== check $pid ($tier) on mutated tree"
mkdir -p /tmp/mut_out/$tag/ev /tmp/mut_out/$tag/replays
cd /verif && VERIF_REPO=$wt VERIF_EVIDENCE_DIR=/tmp/mut_out/$tag/ev VERIF_REPLAY_DIR=/tmp/mut_out/$tag/replays VERIF_NOCACHE=1 ./check $pid --tier $tier "$@" > /tmp/mut_out/$tag/check_$pid.log 2>&1
echo "check exit=$?"; grep -c "^VIOLATION" /tmp/mut_out/$tag/check_$pid.log; grep -A2 "^VIOLATION" /tmp/mut_out/$tag/check_$pid.log | head -12 | cut -c1-400; tail -n 1 /tmp/mut_out/$tag/check_$pid.log | cut -c1-300
