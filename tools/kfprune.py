#!/usr/bin/env python3
"""tools/kfprune.py <PID> <thorough log> [--apply]
Lists (and with --apply removes) the `open:` lines of property PID in known_findings.txt whose key did NOT fire in
the given log of a complete thorough run on the current tree.  Only meaningful for checks whose quick tier is a
subset of the thorough tier (C01-C05).  Never run by a check; a maintenance step after a /repo repair."""
import sys
from pathlib import Path
sys.path.insert(0, str(Path(__file__).resolve().parent.parent / 'lib'))
import vlib
pid, log = sys.argv[1], sys.argv[2]
apply = '--apply' in sys.argv
fired = set()
pre = f'KNOWN-FINDING: property={pid} '
known = vlib.load_known(pid)
lines = set(l.rstrip('\n') for l in open(log, errors='replace') if l.startswith(pre))
for k, desc in known.items():
    if f'{pre}{k} {desc}' in lines:
        fired.add(k)
stale = [k for k in known if k not in fired]
print(f'{pid}: {len(known)} open keys, {len(fired)} fired, {len(stale)} stale', file=sys.stderr)
if apply and stale:
    kf = Path(__file__).resolve().parent.parent / 'known_findings.txt'
    from urllib.parse import unquote
    stale_set = set(stale)
    out = []
    n = 0
    for l in kf.read_text().split('\n'):
        parts = l.strip().split()
        if len(parts) >= 3 and parts[0] == 'open:' and parts[1] == f'property={pid}' and parts[2].startswith('key=') \
                and unquote(parts[2][4:]) in stale_set:
            n += 1
            continue
        out.append(l)
    kf.write_text('\n'.join(out))
    print(f'removed {n} lines', file=sys.stderr)
else:
    for k in stale[:20]:
        print(k)
