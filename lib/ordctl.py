"""Owning identity-hash nondeterminism (DESIGN 3.5).

PVGNode and TVGEdge hash by identity and live in sets, so set iteration order depends on allocation
addresses, i.e. on everything the process did before.  The harness replaces the identity hash by a salted
creation counter (interposition on class attributes; nothing in /repo is edited) and resets the counter
before every execution.  Every execution is then reproducible - independent of worker partition, of the
cases executed before it and of the allocator - and the order becomes an explicit, enumerable axis (salt)."""
_ORD = dict(counter=0, salt=0, installed=False)


def _vhash(self):
    v = self.__dict__.get('_vid')
    if v is None:
        _ORD['counter'] += 1
        v = self.__dict__['_vid'] = _ORD['counter']
    s = _ORD['salt']
    if s == 0:
        return v
    if s == 1:
        return (1 << 20) - v
    return (v * 0x9E3779B1 + s) & 0x3FFFFFFF


def order_control(salt: int):
    if not _ORD['installed']:
        from moPepGen.svgraph.PVGNode import PVGNode
        from moPepGen.svgraph.TVGEdge import TVGEdge
        for cls in (PVGNode, TVGEdge):
            orig = cls.__init__

            def init(self, *a, __orig=orig, **k):
                _ORD['counter'] += 1
                self.__dict__['_vid'] = _ORD['counter']
                __orig(self, *a, **k)
            cls.__init__ = init
            cls.__hash__ = _vhash
        _ORD['installed'] = True
    _ORD['counter'] = 0
    _ORD['salt'] = int(salt)
