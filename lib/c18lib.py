"""C18 helpers: the tiny world (reference + GVFs of six sources), the header-entry alphabet with the
*generator-side* truth about every entry's sources, and the reference model of the documented
splitFasta priority rule.  Nothing here imports moPepGen; entry sources are known from how the entry
was generated, never from parsing its text."""
from __future__ import annotations
import itertools
from pathlib import Path
import refgen, oracle as O

GVF_SOURCES = ['gSNP', 'gINDEL', 'RNAEditing', 'Fusion', 'circRNA', 'AltSplice']
PARSER = {'gSNP': 'parseVEP', 'gINDEL': 'parseVEP', 'RNAEditing': 'parseREDItools',
          'Fusion': 'parseSTARFusion', 'circRNA': 'parseCIRCexplorer', 'AltSplice': 'parseRMATS'}
INTERNAL = ['NovelORF', 'SECT', 'CodonReassign']     # appended after the GVF sources (documented in the code's docstring / tests)
WILD = ('*', '+')

GENES = {1: dict(gene='ENSG01', coding='ENST01', noncoding='ENST02'),
         2: dict(gene='ENSG02', coding='ENST03', noncoding='ENST04')}


# ---- world -------------------------------------------------------------------------------------
def make_ref():
    cds = O.back_translate('MACKHAAAAKAAARRHAAAKWAACK')
    tx = 'GGCACC' + cds + 'TAA' + 'GGCTTAGCCATTG'
    pad = 'ACGTACGTAC'
    L = len(tx)
    genome = pad + tx + pad + tx + pad
    a, b = 10, 20 + L
    return refgen.Ref(genome, [
        dict(gene_id='ENSG01', strand=1, transcripts=[
            dict(tx_id='ENST01', exons=[(a, a + L)], cds=(a + 6, a + 6 + len(cds))),
            dict(tx_id='ENST02', exons=[(a, a + L - 5)], biotype='lncRNA')]),
        dict(gene_id='ENSG02', strand=1, transcripts=[
            dict(tx_id='ENST03', exons=[(b, b + L)], cds=(b + 6, b + 6 + len(cds))),
            dict(tx_id='ENST04', exons=[(b, b + L - 5)], biotype='lncRNA')]),
    ])


def fusion_id(g, noncoding_donor=False):
    o = 3 - g
    donor = GENES[g]['noncoding' if noncoding_donor else 'coding']
    return f"FUSION-{donor}:{28 if noncoding_donor else 30}-{GENES[o]['coding']}:40"


def circ_id(g):
    return f"CIRC-{GENES[g]['coding']}-3:40" if g == 1 else f"CI-{GENES[g]['coding']}-5:30"


ALT_ID = {1: 'SE_33', 2: 'MXE_35-40:50-60'}
# (gene index, variant id) -> source.  SNV-60-T-C is the asymmetric id: same text, different source per gene.
VARIANT_SOURCE = {}
for _g in (1, 2):
    VARIANT_SOURCE[(_g, 'SNV-21-A-T')] = 'gSNP'
    VARIANT_SOURCE[(_g, 'SNV-30-C-G')] = 'gSNP'
    VARIANT_SOURCE[(_g, 'INDEL-25-A-AC')] = 'gINDEL'
    VARIANT_SOURCE[(_g, 'RES-40-A-G')] = 'RNAEditing'
    VARIANT_SOURCE[(_g, ALT_ID[_g])] = 'AltSplice'
    VARIANT_SOURCE[(_g, fusion_id(_g))] = 'Fusion'
    VARIANT_SOURCE[(_g, fusion_id(_g, True))] = 'Fusion'
    VARIANT_SOURCE[(_g, circ_id(_g))] = 'circRNA'
VARIANT_SOURCE[(1, 'SNV-60-T-C')] = 'gSNP'
VARIANT_SOURCE[(2, 'SNV-60-T-C')] = 'gINDEL'


DUP_ID = (1, 'SNV-21-A-T')        # in the dup world this id is listed by the gSNP GVF *and* the gINDEL GVF


def _gvf_line(R, g, vid):
    G = GENES[g]
    gene, tx = G['gene'], G['coding']
    if vid.startswith('FUSION-'):
        donor = vid.split('-')[1].split(':')[0]
        dpos = int(vid.split('-')[1].split(':')[1])
        acc = vid.split('-')[2].split(':')[0]
        apos = int(vid.split('-')[2].split(':')[1])
        return refgen.fusion_line(R, donor, dpos, acc, apos, vid=vid)
    if vid.startswith('CIRC-') or vid.startswith('CI-'):
        s, e = vid.rsplit('-', 1)[1].split(':')
        return refgen.circ_line(gene, tx, [(int(s), int(e))], vid=vid, introns='1' if vid.startswith('CI-') else '')
    if vid.startswith('SE_'):
        return (f'{gene}\t34\t{vid}\tC\t<DEL>\t.\t.\tTRANSCRIPT_ID={tx};START=34;END=50;'
                f'GENE_SYMBOL={gene}N;GENOMIC_POSITION=chr1:34:50')
    if vid.startswith('MXE_'):
        return (f'{gene}\t51\t{vid}\tC\t<SUB>\t.\t.\tTRANSCRIPT_ID={tx};START=51;END=60;DONOR_START=36;'
                f'DONOR_END=40;DONOR_GENE_ID={gene};GENE_SYMBOL={gene}N;GENOMIC_POSITION=chr1-51:60-36:40')
    _, pos, ref, alt = vid.split('-')
    return refgen.small_line(gene, tx, int(pos) - 1, ref, alt, vid=vid)


def write_world(d: Path, dup: bool = False):
    """Reference + one GVF per source.  With dup=True the id SNV-21-A-T of gene 1 is *also* listed in
    the gINDEL file (same id called by two sources)."""
    d = Path(d)
    R = make_ref()
    R.write(d / 'ref')
    per = {s: [] for s in GVF_SOURCES}
    for (g, vid), s in sorted(VARIANT_SOURCE.items()):
        per[s].append(_gvf_line(R, g, vid))
    if dup:
        per['gINDEL'].append(_gvf_line(R, *DUP_ID))
    for s in GVF_SOURCES:
        refgen.write_gvf(d / f'{s}.gvf', per[s], PARSER[s], s)
    return d


# ---- header-entry alphabet ---------------------------------------------------------------------
class Entry:
    """text + what the generator knows about it: the (gene index, variant id) pairs it carries and the
    internal sources (NovelORF / SECT / CodonReassign) it implies."""
    __slots__ = ('text', 'vids', 'internal', 'sources', 'kind', 'g')

    def __init__(self, text, vids, internal, kind, g):
        self.text, self.vids, self.internal, self.kind, self.g = text, tuple(vids), frozenset(internal), kind, g
        self.sources = self.sources_under({})

    def sources_under(self, reassigned):
        """source set when some (gene, id) pairs are attributed to another source."""
        return frozenset(reassigned.get(v, VARIANT_SOURCE[v]) for v in self.vids) | self.internal

    def __repr__(self):
        return f'<{self.kind}/{self.g} {self.text} {sorted(self.sources)}>'


def build_entries():
    out = []
    for g in (1, 2):
        o = 3 - g
        C, N, G = GENES[g]['coding'], GENES[g]['noncoding'], GENES[g]['gene']
        F, FN, K, A = fusion_id(g), fusion_id(g, True), circ_id(g), ALT_ID[g]
        S1, S2, ID, RES, SX = 'SNV-21-A-T', 'SNV-30-C-G', 'INDEL-25-A-AC', 'RES-40-A-G', 'SNV-60-T-C'

        def add(kind, text, own=(), other=(), internal=()):
            out.append(Entry(text, [(g, v) for v in own] + [(o, v) for v in other], internal, kind, g))
        add('snv', f'{C}|{S1}|1', [S1])
        add('snv2', f'{C}|{S1}|{S2}|2', [S1, S2])
        add('snv+indel', f'{C}|{S1}|{ID}|1', [S1, ID])
        add('indel', f'{C}|{ID}|3', [ID])
        add('res', f'{C}|{RES}|1', [RES])
        add('alt', f'{C}|{A}|1', [A])
        add('alt+snv', f'{C}|{A}|{S2}|1', [A, S2])
        add('sect', f'{C}|SECT-45|1', internal=['SECT'])
        add('w2f', f'{C}|W2F-3|1', internal=['CodonReassign'])
        add('snv+w2f', f'{C}|{S1}|W2F-3|1', [S1], internal=['CodonReassign'])
        add('orf', f'{N}|{G}|ORF1|1', internal=['NovelORF'])
        add('orf+w2f', f'{N}|{G}|W2F-10|ORF2|2', internal=['NovelORF', 'CodonReassign'])
        add('orf+snv', f'{N}|{S1}|ORF1|1', [S1], internal=['NovelORF'])
        add('fusion', f'{F}|1', [F])
        add('fusion+1snv+2snv', f'{F}|1-{S1}|2-{S2}|1', [F, S1], [S2])
        add('fusion+1indel', f'{F}|1-{ID}|2', [F, ID])
        add('fusion+w2f', f'{F}|W2F-2|1', [F], internal=['CodonReassign'])
        add('fusion+orf', f'{FN}|ORF1|1', [FN], internal=['NovelORF'])
        add('fusion+1snv+orf', f'{FN}|1-{S1}|ORF1|1', [FN, S1], internal=['NovelORF'])   # ORF id after the variants, as callVariant writes it
        add('alt+res', f'{C}|{A}|{RES}|1', [A, RES])
        add('fusion+2res', f'{F}|2-{RES}|1', [F], [RES])
        add('circ', f'{K}|1', [K])
        add('circ+snv', f'{K}|{S1}|1', [K, S1])
        add('circ+snv+res', f'{K}|{S1}|{RES}|2', [K, S1, RES])
        add('circ+w2f', f'{K}|W2F-4|1', [K], internal=['CodonReassign'])
        add('asym', f'{C}|{SX}|1', [SX])
        add('fusion+2asym', f'{F}|2-{SX}|1', [F], [SX])
    return out


ENTRIES = build_entries()
# callVariant never puts alternative-splicing ids on fusion / circRNA backbones (nor combines the two backbones),
# and summarizeFasta relies on that ("mutually exclusive parsers"): the alphabet must respect it.
assert not any(len(e.sources & {'Fusion', 'circRNA', 'AltSplice'}) > 1 for e in ENTRIES)
ENTRY_BY_TEXT = {e.text: e for e in ENTRIES}
assert len(ENTRY_BY_TEXT) == len(ENTRIES)


def seq_of(i: int) -> str:
    """Distinct valid peptide sequence per index."""
    letters = 'ACDEFGHILMNPQSTVWY'
    s = ''
    i += 1
    while i:
        s += letters[i % 18]
        i //= 18
    return 'AG' + s + 'K'


def canon_entry(text: str):
    """Entry identity used for 'every header entry kept': backbone + multiset of the other fields
    (field order inside an entry is not part of the property)."""
    f = text.split('|')
    return (f[0], tuple(sorted(f[1:])))


# ---- reference model of the documented priority rule ------------------------------------------------
# Restated from: splitFasta --help (order-source / wildcards / group-source / max-source-groups /
# additional-split), docs/split-fasta.md, docs/vignette.md (Splitting, Summarizing), and the
# VariantSourceSet docstring (a set with fewer sources ranks before a set with more; then by level).
def group_of(cfg):
    m = {}
    for it in cfg.get('group') or []:
        k, v = it.split(':')
        for s in v.split(','):
            m[s] = k
    return m


def order_items(cfg):
    gm = group_of(cfg)
    items = [frozenset(x.split('-')) for x in cfg['order'].split(',')] if cfg.get('order') else []
    for s in list(cfg['gvfs']) + INTERNAL:
        s = frozenset([gm.get(s, s)])
        if s not in items:
            items.append(s)
    return items


def matches(item, S):
    names = item - set(WILD)
    if '*' in item:
        return names <= S
    if '+' in item:
        return names < S
    return names == S


def rank(S, items):
    """-> (sort key, matched item or None).  A set named in the order (exactly, as combination or via
    wildcard) sits at that single level; any other set ranks by size, then by its sorted levels."""
    for lv, it in enumerate(items):
        if matches(it, S):
            return (1, [lv]), it
    plain = {next(iter(it)): lv for lv, it in enumerate(items) if len(it) == 1}
    return (len(S), sorted(plain[s] for s in S)), None


def db_tokens(names, items, suffix=None):
    plain = {next(iter(it)): lv for lv, it in enumerate(items) if len(it) == 1}
    t = sorted((n for n in names if n in plain), key=lambda n: plain[n])
    return tuple(sorted(t + ([suffix] if suffix else [])))


def choose(entry_sources, cfg):
    """entry_sources: list of frozensets of raw sources, one per header entry.
    -> dict(S=real grouped source set of the winning entry, item=matched order item or None,
            may=set of acceptable database token-tuples, strict=bool)"""
    gm = group_of(cfg)
    items = order_items(cfg)
    best = None
    for raw in entry_sources:
        S = frozenset(gm.get(s, s) for s in raw)
        key, it = rank(S, items)
        if best is None or key < best[0]:
            best = (key, S, it)
    key, S, it = best
    adds = [frozenset(x.split('-')) for x in cfg.get('add') or []]
    mx = cfg.get('max', 1)
    may = set()
    if it is not None and it & set(WILD):
        names = it - set(WILD)
        suffix = 'ALL' if '*' in it else 'PLUS'
        # the documentation does not say how a wildcard level counts towards --max-source-groups nor
        # which set --additional-split is tested against: both readings are accepted
        readings = [(len(names) + 1, names), (len(S), S), (len(names) + 1, S)]
        own = db_tokens(names, items, suffix)
    else:
        readings = [(len(S), S)]
        own = db_tokens(S, items)
    for n, T in readings:
        if n <= mx:
            may.add(own)
            continue
        for a in adds:
            if a <= T:
                may.add(tuple(sorted(db_tokens(a, items) + ('additional',))))
                break
        else:
            may.add(('Remaining',))
    return dict(S=S, item=it, may=may, key=key)


def file_tokens(name: str, prefix: str):
    """split_<key>.fasta -> token tuple"""
    assert name.startswith(prefix + '_') and name.endswith('.fasta'), name
    return tuple(sorted(name[len(prefix) + 1:-6].split('-')))
