"""C09 helpers: selenoprotein reference construction for callAltTranslation, the definitional
alt-translation oracle, one in-process execution of the real command and the comparison.
Oracle side uses only lib/oracle.py and lib/refgen.py."""
from __future__ import annotations
import itertools, re
from pathlib import Path
import drive, refgen, oracle as O

ALPHA = 'KRPAWUM'
UTR5 = 'GGCACC'
UTR3 = 'GGCTTAGCC'
PAD = 'ACGTACGTAC'
INTRON = 'GTAAGTCCCTTTCAG'
BG_PROT = 'MAFKFR'            # background coding transcript: makes some W>F images canonical
BG_TX, BG_GENE = 'ENST90', 'ENSG90'
KINDS = ('complete', 'startnf0', 'startnf1', 'startnf2', 'endnf')
LAYOUTS = ('plus1', 'plus2', 'minus2')

CLEAVAGE = {
    'T0': ('trypsin', None, 2, 2, 25, 100.),
    'TX': ('trypsin', 'trypsin_exception', 1, 3, 25, 250.),
    'LC': ('lysc', None, 1, 2, 6, 300.),
    # tight maximum: a cleavage fragment longer than max_length whose part before a Sec codon is a valid peptide
    'T3': ('trypsin', None, 1, 2, 3, 100.),
}
FLAGS = {'sect': (True, False), 'w2f': (False, True), 'both': (True, True)}


def tx_design(kind: str, X: str):
    """-> (transcript sequence, cds (start,end) in tx coords excl. stop, tags, cds_phase,
    annotated-ORF protein as the statement sees it (no leading X), intron position for 2-exon layouts)"""
    cds_aa = O.back_translate(X)
    if kind == 'complete':
        tx = UTR5 + 'ATG' + cds_aa + 'TAA' + UTR3
        a = len(UTR5)
        return tx, (a, a + 3 + len(cds_aa)), [], 0, 'M' + X, a + 3
    if kind == 'endnf':
        tx = UTR5 + 'ATG' + cds_aa
        a = len(UTR5)
        return tx, (a, a + 3 + len(cds_aa)), ['mRNA_end_NF'], 0, 'M' + X, a + 3
    if kind.startswith('startnf'):
        ph = int(kind[-1])
        lead = 'GC'[:ph]
        tx = lead + cds_aa + 'TAA' + UTR3
        return tx, (0, len(lead) + len(cds_aa)), ['cds_start_NF'], ph, X, len(lead) + 3
    raise ValueError(kind)


class Batch:
    """A reference holding several designed coding transcripts (each its own gene) + background."""

    def __init__(self, members, layout='plus1', background=True):
        """members: list of (kind, X)."""
        genome = PAD
        genes = []
        self.info = {}
        items = [(f'ENST{n + 1:02d}', f'ENSG{n + 1:02d}', k, x) for n, (k, x) in enumerate(members)]
        if background:
            items.append((BG_TX, BG_GENE, 'complete', BG_PROT[1:]))
        for tx_id, gene_id, kind, X in items:
            tx, (ca, cb), tags, ph, prot, ipos = tx_design(kind, X)
            lay = layout if tx_id != BG_TX else 'plus1'
            s = len(genome)
            n = len(tx)
            if lay == 'plus1' or ipos >= n:
                lay = 'plus1'
                seg = tx
                g = lambda t, s=s: s + t
                exons = [(s, s + n)]
                strand = 1
            else:
                I = len(INTRON)
                if lay == 'plus2':
                    seg = tx[:ipos] + INTRON + tx[ipos:]
                    g = lambda t, s=s, ipos=ipos, I=I: s + (t if t < ipos else t + I)
                    exons = [(s, s + ipos), (s + ipos + I, s + I + n)]
                    strand = 1
                else:
                    seg = O.revcomp(tx[:ipos] + INTRON + tx[ipos:])
                    G = n + I
                    g = lambda t, s=s, ipos=ipos, I=I, G=G: s + G - 1 - (t if t < ipos else t + I)
                    exons = [(s, s + n - ipos), (s + n - ipos + I, s + G)]
                    strand = -1
            lo, hi = sorted((g(ca), g(cb - 1)))
            cds = (lo, hi + 1)
            sec = []
            secp = []
            off = ca + ph
            for i in range(off, cb - 2, 3):
                if tx[i:i + 3] == 'TGA':
                    a, b = sorted((g(i), g(i + 2)))
                    assert b - a == 2
                    sec.append((a, b + 1))
                    secp.append(i)
            t = dict(tx_id=tx_id, exons=exons, cds=cds, sec=sec, tags=tags)
            if ph:
                t['cds_phase'] = ph
            genes.append(dict(gene_id=gene_id, strand=strand, transcripts=[t]))
            genome += seg + PAD
            self.info[tx_id] = dict(kind=kind, X=X, prot=prot, tx=tx, sec_tx=secp, cds=(ca, cb), phase=ph,
                                    layout=lay, gene=gene_id)
        self.ref = refgen.Ref(genome, genes)
        R = self.ref
        for tx_id, inf in self.info.items():
            assert R.tx_seq(tx_id) == inf['tx'], (tx_id, R.tx_seq(tx_id), inf['tx'])
            p = R.protein(tx_id)
            assert p.lstrip('X') == inf['prot'] and p.startswith('X') == bool(inf['phase']), (tx_id, p, inf['prot'])
            assert sorted(R.sec_tx(tx_id)) == inf['sec_tx'], (tx_id, R.sec_tx(tx_id), inf['sec_tx'])
            # SECT id: 1-based gene coordinate of the first base of the Sec codon
            inf['sect_id'] = {}
            for i in inf['sec_tx']:
                u = (i - inf['cds'][0] - inf['phase']) // 3
                assert inf['prot'][u] == 'U'
                inf['sect_id'][f'SECT-{R.tx_to_gene(tx_id, i) + 1}'] = u

    def write(self, d):
        return self.ref.write(d)

    def proteins(self):
        return self.ref.proteins()

    def start_nf(self):
        return frozenset(t for t, i in self.info.items() if i['kind'].startswith('startnf'))


# ---- oracle ---------------------------------------------------------------------------------
def w_subsets(p):
    pos = [i for i, c in enumerate(p) if c == 'W']
    for k in range(1, len(pos) + 1):
        yield from itertools.combinations(pos, k)


def subst(p, pos):
    s = list(p)
    for i in pos:
        s[i] = 'F'
    return ''.join(s)


def proteoforms(prot, kind, sect):
    """[(label, sequence, open_end)]: the annotated translation, and (with Sec termination) the
    translation stopped at each annotated Sec codon."""
    out = [('full', prot, kind == 'endnf')]
    if sect:
        for u, ch in enumerate(prot):
            if ch == 'U':
                out.append((u, prot[:u], False))
    return out


def alt_expected(prot, kind, sect, w2f, cl: O.Cleavage, canon):
    """-> (must: {peptide: category}, may: set).  Categories: 'sect', 'w2f', 'sect+w2f'.
    MUST leaves out what the statement does not fix: N-terminal M removal, W>F forms on which the two readings (substitute the peptide / substitute
    before digesting) disagree.  MAY contains all of them."""
    ok = lambda p: cl.valid(p) and p not in canon
    clip = not kind.startswith('startnf')
    m_sect, m_w2f, m_both, may = set(), set(), set(), set()
    for label, S, open_end in proteoforms(prot, kind, sect):
        d_must = cl.digest(S, clip_m=False, drop_last=open_end)
        # the open-ended last fragment of an mRNA_end_NF ORF is bounded by the end of the annotation, not by a
        # cleavage site or a stop: it is not a digestion product, so it is not allowed either ("outputs exactly")
        d_may = cl.digest(S, clip_m=clip, drop_last=open_end)
        if label != 'full':
            m_sect |= {p for p in d_must if ok(p)}
            may |= {p for p in d_may if ok(p)}
        if w2f and 'W' in S:
            r1_must, r1_may, r2_must, r2_may = set(), set(), set(), set()
            for p in d_may:
                if 'W' in p:
                    for W in w_subsets(p):
                        q = subst(p, W)
                        if ok(q):
                            r1_may.add(q)
                            if p in d_must:
                                r1_must.add(q)
            for W in w_subsets(S):
                S2 = subst(S, W)
                r2_must |= {q for q in cl.digest(S2, clip_m=False, drop_last=open_end) if ok(q)}
                r2_may |= {q for q in cl.digest(S2, clip_m=clip, drop_last=open_end) if ok(q) and q not in d_may}
            (m_w2f if label == 'full' else m_both).update(r1_must & r2_must)
            may |= r1_may | r2_may
    must = {}
    for q in m_both:
        must[q] = 'sect+w2f'
    for q in m_w2f:
        must[q] = 'w2f'
    for q in m_sect:
        must[q] = 'sect'
    return must, may


def suffices(p, sect_us, w2f_pos, prot, kind, cl: O.Cleavage):
    """Do exactly the named events produce p from the annotated ORF?  sect_us: protein indices of
    the named Sec terminations; w2f_pos: 0-based peptide positions of the named W>F events."""
    S = prot[:min(sect_us)] if sect_us else prot
    clip = not kind.startswith('startnf')
    if any(i < 0 or i >= len(p) or p[i] != 'F' for i in w2f_pos) or len(set(w2f_pos)) != len(w2f_pos):
        return False
    base = list(p)
    for i in w2f_pos:
        base[i] = 'W'
    base = ''.join(base)
    prods = cl.digest(S, clip_m=clip)
    if base in prods:
        return True
    # reading R2: substitution before digestion
    o = S.find(base)
    while o >= 0:
        if p in cl.digest(subst(S, [o + i for i in w2f_pos]), clip_m=clip):
            return True
        o = S.find(base, o + 1)
    return False


# ---- execution ------------------------------------------------------------------------------
def run_tool(refdir: Path, clname, flag: str, out: Path):
    cl = O.Cleavage(*CLEAVAGE[clname])
    if out.exists():
        out.unlink()
    sect, w2f = FLAGS[flag]
    argv = ['callAltTranslation', '-o', out] + drive.ref_argv(refdir)
    argv += drive.cleavage_argv(cl.rule, cl.exception, cl.misc, cl.min_length, cl.max_length, cl.min_mw)
    if sect:
        argv.append('--selenocysteine-termination')
    if w2f:
        argv.append('--w2f-reassignment')
    argv.append('--quiet')
    r = drive.run(argv)
    res = dict(ok=r['ok'], exc=r['exc'], tb=r.get('tb'), peptides=None)
    if r['ok'] and out.exists():
        res['peptides'] = drive.read_fasta(out)
    return res


def parse_entry(e):
    parts = e.split('|')
    if len(parts) < 2 or not parts[-1].isdigit():
        return None
    return dict(tx=parts[0], ids=parts[1:-1], idx=int(parts[-1]))


def evaluate(batch: Batch, clname, flag, res):
    """-> {tx_id: (findings, nontrivial)} for the designed transcripts (+ background)."""
    cl = O.Cleavage(*CLEAVAGE[clname])
    sect, w2f = FLAGS[flag]
    canon = O.canonical_pool(batch.proteins(), cl, batch.start_nf())
    out = {}
    if not res['ok'] or res['peptides'] is None:
        f = ('crash', dict(exc=res['exc'])) if not res['ok'] else ('no-output-file', {})
        for tx in batch.info:
            out[tx] = ([f], False)
        return out
    got = {tx: {} for tx in batch.info}
    glob = []
    seen = set()
    for hdr, s in res['peptides']:
        if s in seen:
            glob.append(('fasta/duplicate-sequence', dict(peptide=s)))
        seen.add(s)
        for e in hdr.split(' '):
            pe = parse_entry(e)
            if pe is None or pe['tx'] not in got:
                glob.append(('header/unparsable', dict(entry=e, peptide=s)))
                continue
            got[pe['tx']].setdefault(s, []).append(pe)
    for tx, inf in batch.info.items():
        F = list(glob)
        kind, prot = inf['kind'], inf['prot']
        must, may = alt_expected(prot, kind, sect, w2f, cl, canon)
        o = set(got[tx])
        for p in sorted(set(must) - o):
            why = why_missing(p, prot, kind, cl)
            F.append((f'missing/{why}' if why.startswith('endnf-') else f'missing/{must[p]}/{why}', dict(peptide=p)))
        for p in sorted(o - may):
            F.append((f'spurious/{why_spurious(p, prot, kind, sect, w2f, cl, canon)}/' + kind.rstrip('012'), dict(peptide=p)))
        for p, entries in got[tx].items():
            for pe in entries:
                ids = pe['ids']
                if not ids:
                    F.append(('header/no-event-id', dict(peptide=p, entry=pe)))
                    continue
                bad = [v for v in ids if not (re.match(r'^W2F-\d+$', v) or re.match(r'^SECT-\d+$', v))]
                if bad:
                    F.append(('header/unknown-event-id', dict(peptide=p, ids=ids)))
                    continue
                s_ids = [v for v in ids if v.startswith('SECT-')]
                w_ids = [v for v in ids if v.startswith('W2F-')]
                if (s_ids and not sect) or (w_ids and not w2f):
                    F.append(('header/event-of-a-flag-not-given', dict(peptide=p, ids=ids)))
                unk = [v for v in s_ids if v not in inf['sect_id']]
                if unk:
                    F.append(('header/sect-id-is-not-an-annotated-sec-codon',
                              dict(peptide=p, ids=ids, annotated=sorted(inf['sect_id']))))
                    continue
                if p in may and not suffices(p, [inf['sect_id'][v] for v in s_ids],
                                             [int(v.split('-')[1]) - 1 for v in w_ids], prot, kind, cl):
                    F.append(('header/events-do-not-suffice', dict(peptide=p, ids=ids)))
        out[tx] = (F, bool(must))
    return out


def why_missing(p, prot, kind, cl):
    if kind == 'endnf' and 'U' in prot:
        sites = O.cleave_sites(prot, cl.rule, cl.exception)
        last = sites[-1] if sites else 0
        base = p.replace('F', 'W')
        us = [u for u, ch in enumerate(prot) if ch == 'U' and prot[:u].endswith(base)]
        if us and all(u >= last for u in us):
            return 'endnf-sec-in-trailing-peptide'
    return kind.rstrip('012')


def why_spurious(p, prot, kind, sect, w2f, cl, canon):
    if p in canon:
        return 'canonical'
    if not cl.valid(p):
        return 'outside-limits'
    if kind.startswith('startnf') and prot.startswith('M'):
        _, may_clip = alt_expected(prot, 'complete', sect, w2f, cl, canon)
        if p in may_clip:
            return 'm-removed-although-cds_start_NF'
    _, may_all = alt_expected(prot, kind, True, True, cl, canon)
    if p in may_all:
        return 'event-of-a-flag-not-given'
    return 'not-an-alt-product'
