"""C16 helper: exon-skeleton gene grammar, rMATS row writer, and the sequence-level oracle for
parseRMATS.  Everything here is computed from raw intervals over `str`/`list`; nothing is
imported from moPepGen.

Coordinates: exons and rMATS fields are genomic, 0-based half-open (rMATS `*_0base` start / 1-based
inclusive end == half-open end).  GVF records are in gene coordinates of the transcript's gene
(0-based after subtracting 1 from POS / START / DONOR_START; END and DONOR_END are exclusive).
"""
from __future__ import annotations
import itertools
import oracle as O

# ---- skeleton -------------------------------------------------------------------------------
# five exon slots; slot 2 has two 3' ends (genomic), slot 4 has two 5' starts (genomic).  All exon
# lengths, intron lengths and the long/short differences are pairwise different where it matters so
# that no two events share a coordinate tuple and an off-by-k never lands on another boundary.
EXONS = {
    'E1': (11, 20),
    'E2S': (26, 33), 'E2L': (26, 37),
    'E3': (42, 50),
    'E4L': (57, 70), 'E4S': (62, 70),
    'E5': (78, 88),
    # retained-intron exons (an annotated isoform that keeps the intron)
    'R23': (26, 50),      # E2(S|L) + intron + E3
    'R45': (62, 88),      # E4S + intron + E5
}
SLOT = {'E1': 1, 'E2S': 2, 'E2L': 2, 'E3': 3, 'E4L': 4, 'E4S': 4, 'E5': 5}
BASE = ['E1', 'E2S', 'E2L', 'E3', 'E4L', 'E4S', 'E5']
GENOME_LEN = 97

CHAINS = [
    ('E1', 'E2L', 'E3', 'E4L', 'E5'),
    ('E1', 'E2S', 'E3', 'E4S', 'E5'),
    ('E1', 'E3', 'E5'),
    ('E1', 'E2L', 'E4L', 'E5'),
    ('E1', 'E2S', 'E3', 'E5'),
    ('E1', 'E3', 'E4S', 'E5'),
    ('E1', 'E5'),
    ('E1', 'R23', 'E4L', 'E5'),
    ('E1', 'E2S', 'E3', 'R45'),
    ('E2S', 'E3', 'E4S'),
    ('E2L', 'E3', 'E4L', 'E5'),
    ('E1', 'E2L', 'E3', 'E4S'),
    ('E1', 'E2S', 'E4S', 'E5'),
]


def make_genome(n: int = GENOME_LEN, variant: int = 0) -> str:
    """A designed, non-repetitive genome: a prefix of a de Bruijn sequence B(4,4) (every 4-mer occurs at
    most once), so a record with a wrong coordinate produces a different sequence."""
    k, alphabet = 4, ['ACGT', 'GTCA', 'TGAC'][variant % 3]
    a = [0] * (4 * k)
    seq = []

    def db(t, p):
        if t > k:
            if k % p == 0:
                seq.extend(a[1:p + 1])
        else:
            a[t] = a[t - p]
            db(t + 1, p)
            for j in range(a[t - p] + 1, 4):
                a[t] = j
                db(t + 1, t)
    db(1, 1)
    s = ''.join(alphabet[i] for i in seq)
    s = s[37:] + s[:37]          # skip the low-complexity start (AAAAC...)
    return s[:n]


def chain_exons(chain):
    return [EXONS[x] for x in chain]


# ---- events ---------------------------------------------------------------------------------
def all_events(strand: int):
    """Every SE / A5SS / A3SS / MXE / RI row constructible from the skeleton's exon instances.
    An event is a dict(type, name, and the exon intervals by rMATS role)."""
    ev = []
    inst = BASE
    # SE: upstream < skipped < downstream (different slots)
    for u, x, d in itertools.permutations(inst, 3):
        if SLOT[u] < SLOT[x] < SLOT[d]:
            ev.append(dict(type='SE', name=f'SE({u},{x},{d})', U=EXONS[u], X=EXONS[x], D=EXONS[d]))
    # alternative splice sites: slot 2 differs at its genomic end, slot 4 at its genomic start
    for fl in inst:
        if SLOT[fl] > 2:
            t = 'A5SS' if strand == 1 else 'A3SS'
            ev.append(dict(type=t, name=f'{t}(E2L,E2S,{fl})', L=EXONS['E2L'], S=EXONS['E2S'], F=EXONS[fl]))
        if SLOT[fl] < 4:
            t = 'A3SS' if strand == 1 else 'A5SS'
            ev.append(dict(type=t, name=f'{t}(E4L,E4S,{fl})', L=EXONS['E4L'], S=EXONS['E4S'], F=EXONS[fl]))
    # MXE
    for u, a, b, d in itertools.permutations(inst, 4):
        if SLOT[u] < SLOT[a] < SLOT[b] < SLOT[d]:
            ev.append(dict(type='MXE', name=f'MXE({u},{a},{b},{d})', U=EXONS[u], A=EXONS[a], B=EXONS[b],
                           D=EXONS[d]))
    # RI
    for u, d in itertools.permutations(inst, 2):
        if SLOT[u] < SLOT[d]:
            ev.append(dict(type='RI', name=f'RI({u},{d})', U=EXONS[u], D=EXONS[d]))
    return ev


def event_span(ev):
    iv = [v for k, v in ev.items() if k in ('U', 'X', 'D', 'L', 'S', 'F', 'A', 'B')]
    return min(a for a, b in iv), max(b for a, b in iv)


HEAD_TAIL = ['ID', 'IJC_SAMPLE_1', 'SJC_SAMPLE_1', 'IJC_SAMPLE_2', 'SJC_SAMPLE_2', 'IncFormLen', 'SkipFormLen',
             'PValue', 'FDR', 'IncLevel1', 'IncLevel2', 'IncLevelDifference']
HEADERS = {
    'SE': ['ID', 'GeneID', 'geneSymbol', 'chr', 'strand', 'exonStart_0base', 'exonEnd', 'upstreamES',
           'upstreamEE', 'downstreamES', 'downstreamEE'],
    'A5SS': ['ID', 'GeneID', 'geneSymbol', 'chr', 'strand', 'longExonStart_0base', 'longExonEnd', 'shortES',
             'shortEE', 'flankingES', 'flankingEE'],
    'MXE': ['ID', 'GeneID', 'geneSymbol', 'chr', 'strand', '1stExonStart_0base', '1stExonEnd',
            '2ndExonStart_0base', '2ndExonEnd', 'upstreamES', 'upstreamEE', 'downstreamES', 'downstreamEE'],
    'RI': ['ID', 'GeneID', 'geneSymbol', 'chr', 'strand', 'riExonStart_0base', 'riExonEnd', 'upstreamES',
           'upstreamEE', 'downstreamES', 'downstreamEE'],
}
HEADERS['A3SS'] = HEADERS['A5SS']
ETYPES = ['SE', 'A5SS', 'A3SS', 'MXE', 'RI']
CLI_FLAG = {'SE': '--se', 'A5SS': '--a5ss', 'A3SS': '--a3ss', 'MXE': '--mxe', 'RI': '--ri'}


def event_coords(ev):
    t = ev['type']
    if t == 'SE':
        return [*ev['X'], *ev['U'], *ev['D']]
    if t in ('A5SS', 'A3SS'):
        return [*ev['L'], *ev['S'], *ev['F']]
    if t == 'MXE':
        return [*ev['A'], *ev['B'], *ev['U'], *ev['D']]
    return [ev['U'][0], ev['D'][1], *ev['U'], *ev['D']]


def rmats_row(i, ev, gene_id, strand, ijc, sjc, chrom='chr1'):
    """One row in the format rMATS writes (*.MATS.JC.txt, single sample group: sample 2 columns empty)."""
    st = '+' if strand == 1 else '-'
    f = [str(i), f'"{gene_id}"', f'"{gene_id}N"', chrom, st] + [str(c) for c in event_coords(ev)]
    f += [str(i), str(ijc), str(sjc), '', '', '148', '74', 'NA', 'NA', 'NA', '', 'NA']
    return '\t'.join(f)


def write_rmats(path, etype, rows):
    with open(path, 'w') as fh:
        fh.write('\t'.join(HEADERS[etype] + HEAD_TAIL) + '\n')
        for r in rows:
            fh.write(r + '\n')


# ---- gene geometry ---------------------------------------------------------------------------
class Gene:
    """One gene = strand + list of isoforms (each an ascending list of genomic exon intervals)."""

    def __init__(self, genome, strand, isoforms):
        self.genome, self.strand = genome, strand
        self.isoforms = [list(x) for x in isoforms]
        self.gs = min(e[0] for t in self.isoforms for e in t)
        self.ge = max(e[1] for t in self.isoforms for e in t)
        q = genome[self.gs:self.ge]
        self.gene_seq = q if strand == 1 else O.revcomp(q)

    def g(self, p):
        """genomic position of a base -> gene coordinate of that base"""
        return p - self.gs if self.strand == 1 else self.ge - 1 - p

    def positions(self, exons):
        """gene coordinates of the bases of an exon chain, 5'->3'"""
        out = []
        if self.strand == 1:
            for a, b in exons:
                out.extend(range(a - self.gs, b - self.gs))
        else:
            for a, b in reversed(exons):
                out.extend(range(self.ge - b, self.ge - a))
        return out

    def seq_of(self, positions):
        return ''.join(self.gene_seq[p] for p in positions)

    def junctions(self, t):
        return {(t[i][1], t[i + 1][0]) for i in range(len(t) - 1)}

    def all_junctions(self):
        s = set()
        for t in self.isoforms:
            s |= self.junctions(t)
        return s

    def contains(self, ev):
        s, e = event_span(ev)
        return self.gs <= s and e <= self.ge


# ---- forms -----------------------------------------------------------------------------------
# Each event has two forms.  `inc` is the form rMATS counts with IJC (exon included / long exon /
# 1st exon / intron retained), `skp` the one counted with SJC.
def _find(t, sub):
    n = len(sub)
    for i in range(len(t) - n + 1):
        if t[i:i + n] == sub:
            return i
    return -1


def forms(ev):
    """-> dict(inc=[exons...], skp=[exons...]) : the consecutive exons a transcript must have to contain
    that form exactly."""
    t = ev['type']
    if t == 'SE':
        return dict(inc=[ev['U'], ev['X'], ev['D']], skp=[ev['U'], ev['D']])
    if t in ('A5SS', 'A3SS'):
        if ev['F'][0] >= ev['L'][1]:
            return dict(inc=[ev['L'], ev['F']], skp=[ev['S'], ev['F']])
        return dict(inc=[ev['F'], ev['L']], skp=[ev['F'], ev['S']])
    if t == 'MXE':
        return dict(inc=[ev['U'], ev['A'], ev['D']], skp=[ev['U'], ev['B'], ev['D']])
    return dict(inc=[(ev['U'][0], ev['D'][1])], skp=[ev['U'], ev['D']])


def form_junctions(exons):
    return [(exons[i][1], exons[i + 1][0]) for i in range(len(exons) - 1)]


def match(t, ev):
    """Does isoform `t` contain one form of the event exactly?  -> (form_name, alt_chain) or None."""
    fm = forms(ev)
    for name, other in (('inc', 'skp'), ('skp', 'inc')):
        i = _find(t, fm[name])
        if i >= 0:
            return name, t[:i] + fm[other] + t[i + len(fm[name]):], i
    return None


def touches(t, ev):
    """Partial relation (statistics only): the isoform shares at least one exon boundary with the event."""
    b = set()
    for k, v in ev.items():
        if k in ('U', 'X', 'D', 'L', 'S', 'F', 'A', 'B'):
            b.update(v)
    return any(a in b or c in b for a, c in t)


def form_annotated(gene: Gene, ev, name):
    """Some annotated isoform already has this form: junction-wise (every junction of the form is the
    junction between two consecutive exons of one isoform); for the retained-intron form (no junction)
    some isoform has an exon covering the whole intron."""
    fm = forms(ev)[name]
    js = form_junctions(fm)
    if not js:
        lo, hi = ev['U'][1], ev['D'][0]
        return any(a < lo and hi < b for t in gene.isoforms for a, b in t)
    for t in gene.isoforms:
        tj = gene.junctions(t)
        if all(j in tj for j in js):
            return True
    return False


def junction_names(ev, name):
    t = ev['type']
    if t == 'SE':
        return ['UX', 'XD'] if name == 'inc' else ['UD']
    if t == 'MXE':
        return ['UA', 'AD'] if name == 'inc' else ['UB', 'BD']
    if t == 'RI':
        return [] if name == 'inc' else ['UD']
    return ['J']


def unannotated_junctions(gene: Gene, ev, name):
    """Names of the junctions of the form that no isoform of the gene has (for the retained-intron form:
    ['intron'] if no isoform has an exon covering the intron)."""
    js = form_junctions(forms(ev)[name])
    if not js:
        return [] if form_annotated(gene, ev, name) else ['intron']
    allj = gene.all_junctions()
    return [n for n, j in zip(junction_names(ev, name), js) if j not in allj]


def supported(name, ijc, sjc, min_ijc, min_sjc):
    return ijc >= min_ijc if name == 'inc' else sjc >= min_sjc


# ---- GVF -------------------------------------------------------------------------------------
def read_gvf(path):
    """Independent minimal GVF reader -> list of dict(gene, pos0, id, ref, alt, info{})"""
    out = []
    with open(path) as fh:
        for line in fh:
            if line.startswith('#') or not line.strip():
                continue
            f = line.rstrip('\n').split('\t')
            info = {}
            for kv in f[7].split(';'):
                if '=' in kv:
                    k, v = kv.split('=', 1)
                    info[k] = v.strip('"')
            out.append(dict(gene=f[0], pos0=int(f[1]) - 1, id=f[2], ref=f[3], alt=f[4], info=info, line=line.rstrip('\n')))
    return out


class Inapplicable(Exception):
    pass


def apply_record(gene: Gene, tpos, rec):
    """Apply one alternative-splicing GVF record to a transcript given as the list of gene coordinates of
    its bases; returns (resulting sequence, provenance) where provenance is the list of gene coordinates
    the bases were taken from (used only to measure whether the designed genome lets a coordinate error
    hide behind an identical sequence).  Documented semantics (docs/file-format.md 1.4 and the
    GVF reader): Insertion: gene[DONOR_START, DONOR_END) inserted after POS; Deletion: [POS, END) of the
    gene removed; Substitution: [POS, END) replaced by gene[DONOR_START, DONOR_END).  The anchor
    positions must be bases of the transcript (callVariant maps them through the exon structure)."""
    alt, info, p = rec['alt'], rec['info'], rec['pos0']
    L = len(gene.gene_seq)
    idx = {g: i for i, g in enumerate(tpos)}
    tpos = list(tpos)

    def donor():
        ds, de = int(info['DONOR_START']) - 1, int(info['DONOR_END'])
        if not (0 <= ds < de <= L):
            raise Inapplicable(f'donor [{ds},{de}) is empty or outside the gene (length {L})')
        if info.get('DONOR_GENE_ID', rec['gene']) != rec['gene']:
            raise Inapplicable('donor gene differs from the gene')
        return list(range(ds, de))
    if alt == '<INS>':
        if p not in idx:
            raise Inapplicable(f'insertion anchor {p} is not a base of the transcript')
        i = idx[p]
        out = tpos[:i + 1] + donor() + tpos[i + 1:]
        return gene.seq_of(out), out
    if alt in ('<DEL>', '<SUB>'):
        end = int(info['END'])
        if 'START' in info and int(info['START']) - 1 != p:
            raise Inapplicable(f'START={info["START"]} disagrees with POS={p + 1}')
        if not p < end:
            raise Inapplicable(f'empty or inverted range [{p},{end})')
        if p not in idx or (end - 1) not in idx:
            raise Inapplicable(f'range [{p},{end}) does not start and end on bases of the transcript')
        i, j = idx[p], idx[end - 1] + 1
        if i >= j:
            raise Inapplicable(f'range [{p},{end}) is inverted on the transcript')
        out = tpos[:i] + (donor() if alt == '<SUB>' else []) + tpos[j:]
        return gene.seq_of(out), out
    raise Inapplicable(f'unexpected ALT {alt}')


# ---- record attribution ----------------------------------------------------------------------
def id_numbers(s):
    """integers in a variant id such as SE_12-20-31-45"""
    body = s.split('_', 1)[1] if '_' in s else s
    out = []
    for tok in body.replace('_', '-').split('-'):
        if tok.isdigit():
            out.append(int(tok))
    return out


def event_signature(gene: Gene, ev):
    """Gene coordinates of the event's junction-defining boundaries, in transcript order; the tool's ids
    are built from the same boundaries with type-specific +-1 conventions, so an id is attributed to
    the unique event whose signature is element-wise within 1."""
    t = ev['type']

    def last(iv):      # gene coordinate of the 3'-most base of exon iv
        return gene.g(iv[1] - 1) if gene.strand == 1 else gene.g(iv[0])

    def first(iv):
        return gene.g(iv[0]) if gene.strand == 1 else gene.g(iv[1] - 1)
    if t == 'SE':
        u, d = (ev['U'], ev['D']) if gene.strand == 1 else (ev['D'], ev['U'])
        return [last(u), first(ev['X']), last(ev['X']) + 1, first(d)]
    if t == 'MXE':
        # the 1st / 2nd exon are listed in genomic order on both strands
        u, d = (ev['U'], ev['D']) if gene.strand == 1 else (ev['D'], ev['U'])
        return [last(u), first(ev['A']), last(ev['A']), first(ev['B']), last(ev['B']), first(d)]
    if t == 'RI':
        lo, hi = ev['U'][1], ev['D'][0]          # intron, genomic
        a, b = sorted((gene.g(lo), gene.g(hi - 1)))
        return [a, b + 1]
    # A5SS / A3SS: the alternative site is at the 3' end of the exon (A5SS) or its 5' start (A3SS)
    if t == 'A5SS':
        return [last(ev['L']) + 1, last(ev['S']) + 1, first(ev['F'])]
    return [last(ev['F']) + 1, first(ev['L']), first(ev['S'])]


def attribute(nums, sigs):
    """-> list of event indices whose signature matches the id numbers within +-1 element-wise."""
    hits = []
    for i, s in sigs.items():
        if len(s) == len(nums) and all(abs(a - b) <= 1 for a, b in zip(s, nums)):
            hits.append(i)
    return hits
