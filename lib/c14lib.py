"""Helpers for check C14 (parseVEP / parseREDItools): designed reference panel, exhaustive event
alphabets, VEP / REDItools row writers (conventions taken from the VEP / REDItools output
documentation and the repository's docs and test inputs, not from the parser code) and the
sequence-level oracle.  No moPepGen import."""
from __future__ import annotations
import itertools
from fractions import Fraction
import refgen, oracle as O

BASES = 'ACGT'
COMP = {'A': 'T', 'C': 'G', 'G': 'C', 'T': 'A'}


# ---- reference panel -----------------------------------------------------------------------
def de_bruijn(k: int = 4, n: int = 4) -> str:
    """B(k, n) over ACGT (Lyndon-word construction): every n-mer occurs exactly once cyclically."""
    a = [0] * k * n
    seq = []

    def db(t, p):
        if t > n:
            if n % p == 0:
                seq.extend(a[1:p + 1])
        else:
            a[t] = a[t - p]
            db(t + 1, p)
            for j in range(a[t - p] + 1, k):
                a[t] = j
                db(t + 1, t)
    db(1, 1)
    return ''.join(BASES[i] for i in seq)


_DB = de_bruijn(4, 4)          # 256 nt, every 4-mer unique -> a shift of an event is visible

# gene-relative structures (gene coordinates, 5'->3', half open).  Each gene: a full-length coding
# isoform, a second isoform that starts and ends inside the gene and skips the middle exon, a
# cds_start_NF transcript that starts AT the gene start and one that starts inside the gene.
STRUCT = {
    'A': dict(length=50, tx=[
        ('1', [(0, 12), (18, 28), (36, 50)], (3, 44), []),
        ('2', [(4, 12), (36, 46)], None, []),
        ('3', [(0, 12), (18, 30)], (0, 27), ['cds_start_NF']),
        ('4', [(7, 12), (18, 28), (36, 48)], (7, 42), ['cds_start_NF']),
    ]),
    'B': dict(length=50, tx=[
        ('1', [(0, 10), (17, 29), (35, 50)], (4, 43), []),
        ('2', [(3, 10), (35, 47)], None, []),
        ('3', [(0, 10), (17, 31)], (0, 27), ['cds_start_NF']),
        ('4', [(5, 10), (17, 29), (35, 49)], (5, 41), ['cds_start_NF']),
    ]),
}
PAD = 8
ROTATIONS = (0, 61, 127, 190)
VARIANTS = [(rot, swap) for rot in ROTATIONS for swap in (0, 1)]     # 8 references
FLANK = 3


def make_ref(variant) -> refgen.Ref:
    rot, swap = variant
    n = PAD + 50 + PAD + 50 + PAD
    genome = (_DB[rot:] + _DB[:rot])[:n]
    genes = []
    gs = PAD
    for gi, (name, strand) in enumerate((('A', -1 if swap else 1), ('B', 1 if swap else -1))):
        st = STRUCT[name]
        ge = gs + st['length']

        def conv(iv):
            a, b = iv
            return (gs + a, gs + b) if strand == 1 else (ge - b, ge - a)
        txs = []
        for suffix, exons, cds, tags in st['tx']:
            t = dict(tx_id=f'ENST0{gi + 1}{suffix}', exons=sorted(conv(e) for e in exons),
                     cds=conv(cds) if cds else None, tags=list(tags))
            txs.append(t)
        genes.append(dict(gene_id=f'ENSG0{gi + 1}', strand=strand, transcripts=txs))
        gs = ge + PAD
    return refgen.Ref(genome, genes, name=f'c14-rot{rot}-swap{swap}')


def tx_span_gene(R: refgen.Ref, tx_id):
    ex = R.exons_gene(tx_id)
    return ex[0][0], ex[-1][1]


# ---- small-variant events (forward genomic coordinates, 0-based half open) -------------------
def strings(lengths):
    for n in lengths:
        for t in itertools.product(BASES, repeat=n):
            yield ''.join(t)


def sub_alts(ref: str, tier: str):
    """Replacement strings for a substitution of `ref` (same length, != ref).
    quick: the two 'every base changes' images (cyclic shift by 1 and by 2 in ACGT);
    thorough: every string != ref for length <= 3, every string whose first and last base differ
    from ref (the minimal representation) for length 4, the two images for length 5."""
    rot1 = ''.join(BASES[(BASES.index(c) + 1) % 4] for c in ref)
    rot2 = ''.join(BASES[(BASES.index(c) + 2) % 4] for c in ref)
    if tier == 'quick' or len(ref) >= 5:
        return [rot1, rot2]
    out = []
    for y in strings([len(ref)]):
        if y == ref:
            continue
        if len(ref) >= 4 and (y[0] == ref[0] or y[-1] == ref[-1]):
            continue
        out.append(y)
    return out


def bounds(tier):
    if tier == 'quick':
        return dict(ins=(1, 2), dele=(1, 2, 3), sub=(2, 3, 4))
    return dict(ins=(1, 2, 3), dele=(1, 2, 3, 4), sub=(2, 3, 4, 5))


def events_at(genome: str, g: int, tier: str):
    """All elementary events whose first affected base (or, for an insertion, the base right
    after the inserted string) is genomic position g.  -> (kind, s, e, alt)"""
    bd = bounds(tier)
    if not 0 < g < len(genome):
        return
    for a in BASES:
        if a != genome[g]:
            yield ('snv', g, g + 1, a)
    for L in bd['dele']:
        if g + L <= len(genome):
            yield ('del', g, g + L, '')
    for x in strings(bd['ins']):
        yield ('ins', g, g, x)
    for L in bd['sub']:
        if g + L <= len(genome):
            for y in sub_alts(genome[g:g + L], tier):
                yield ('sub', g, g + L, y)


def vep_spellings(genome: str, ev):
    """The ways VEP writes the event in its Location / Allele columns (1-based, inclusive,
    forward strand).  -> [(spelling, location, allele)]
      snv      chr:p            alt base
      del      chr:p[-q]        '-'                      (alleles trimmed, VEP default)
      del/U    chr:(p-1)-q      anchor base              (alleles left as in an untrimmed VCF line;
                                                          only when the span is >= 3 so that it
                                                          cannot be read as an insertion)
      ins/R    chr:p-(p+1)      inserted bases           (between p and p+1; VEP default)
      ins/S    chr:p            base(p) + inserted       (untrimmed VCF allele, anchor before)
      ins/E    chr:(p+1)        inserted + base(p+1)     (untrimmed, anchor after = end inclusion)
      sub      chr:p-q          replacement bases"""
    kind, s, e, alt = ev
    if kind == 'snv':
        return [('snv', f'{s + 1}', alt)]
    if kind == 'del':
        out = [('del', f'{s + 1}-{e}' if e - s > 1 else f'{s + 1}', '-')]
        if e - s >= 2 and s >= 1:
            out.append(('del/U', f'{s}-{e}', genome[s - 1]))
        return out
    if kind == 'ins':
        return [('ins/R', f'{s}-{s + 1}', alt), ('ins/S', f'{s}', genome[s - 1] + alt),
                ('ins/E', f'{s + 1}', alt + genome[s])]
    return [('sub', f'{s + 1}-{e}', alt)]


VEP_HEADER = ('## ENSEMBL VARIANT EFFECT PREDICTOR v107.0\n'
              '#Uploaded_variation\tLocation\tAllele\tGene\tFeature\tFeature_type\tConsequence\t'
              'cDNA_position\tCDS_position\tProtein_position\tAmino_acids\tCodons\tExisting_variation\tExtra')


def vep_line(chrom, uploaded, loc, allele, gene, tx, strand):
    return '\t'.join([uploaded, f'{chrom}:{loc}', allele, gene, tx, 'Transcript', 'intron_variant', '-', '-', '-',
                      '-', '-', '-', f'IMPACT=MODIFIER;STRAND={strand}'])


# ---- oracle (sequence level) ----------------------------------------------------------------
def expected_gene(R: refgen.Ref, gene_id, s, e, alt):
    """Apply the genomic event to the chromosome string and re-extract the gene (strand corrected,
    length adjusted).  None when the event is not contained in the gene span."""
    gs, ge = R.gene_span(gene_id)
    if s < gs or e > ge:
        return None
    g2 = R.genome[:s] + alt + R.genome[e:]
    q = g2[gs:ge + len(alt) - (e - s)]
    return q if R.gene[gene_id]['strand'] == 1 else O.revcomp(q)


def gene_interval(R: refgen.Ref, gene_id, s, e):
    """[a, b) of the event in gene coordinates (for an insertion a == b: inserted before a)."""
    gs, ge = R.gene_span(gene_id)
    return (s - gs, e - gs) if R.gene[gene_id]['strand'] == 1 else (ge - e, ge - s)


def classify(kind, a, b, t0, t1, nf, glen):
    """-> (cls, zone).  cls: MUST (a correct record is required), MAY (rejection allowed; a record
    must be correct), REJECT (no record may be emitted), INFO (outside the property).
    [t0, t1) is the transcript in gene coordinates.  REJECT: the event is not contained in the
    transcript, or it touches the first base of a transcript whose 5' end is complete (the tool
    documents this as a "start site mutation"; a cds_start_NF transcript has no such base)."""
    if kind == 'ins':
        if a < 0 or a > glen:
            return 'REJECT', 'outside-gene'
        if a < t0 or a > t1:
            return 'REJECT', 'outside-tx'
        if a == t0:
            return ('MAY' if nf else 'REJECT'), 'before-first-base' + ('@gene-start' if a == 0 else '')
        if a == t1:
            return 'MAY', 'after-last-base' + ('@gene-end' if a == glen else '')
        if a == t0 + 1:
            return ('MUST' if nf else 'MAY'), 'anchor-first-base' + ('@gene-start' if t0 == 0 else '')
        return 'MUST', 'interior'
    if a < 0 or b > glen:
        return 'REJECT', 'outside-gene'
    if a < t0 or b > t1:
        return 'REJECT', 'outside-tx'
    if a == t0:
        return ('MUST' if nf else 'REJECT'), 'first-base' + ('@gene-start' if a == 0 else '')
    if b == t1:
        return 'MUST', 'last-base'
    return 'MUST', 'interior'


def judge_record(gene_seq: str, expected, rec):
    """rec = (pos1, ref, alt).  -> None when the record is correct else a symptom."""
    pos0 = rec[0] - 1
    ref, alt = rec[1], rec[2]
    if not ref or not alt or ref == '.' or alt == '.':
        return 'unanchored'
    if pos0 < 0 or pos0 + len(ref) > len(gene_seq):
        return 'pos-out-of-gene'
    if gene_seq[pos0:pos0 + len(ref)] != ref:
        return 'ref-mismatch'
    if expected is None:
        return 'emitted-outside-gene'
    if gene_seq[:pos0] + alt + gene_seq[pos0 + len(ref):] != expected:
        return 'seq-mismatch'
    return None


def read_gvf(path):
    out = []
    try:
        fh = open(path)
    except FileNotFoundError:
        return out
    with fh:
        for line in fh:
            if line.startswith('#') or not line.strip():
                continue
            f = line.rstrip('\n').split('\t')
            attrs = {}
            for kv in f[7].split(';'):
                if '=' in kv:
                    k, v = kv.split('=', 1)
                    attrs[k] = v.strip('"')
            out.append(dict(chrom=f[0], pos=int(f[1]), id=f[2], ref=f[3], alt=f[4], attrs=attrs))
    return out


# ---- REDItools ------------------------------------------------------------------------------
REDI_HEADER = ('Region\tPosition\tReference\tStrand\tCoverage-q30\tMeanQ\tBaseCount[A,C,G,T]\tAllSubs\tFrequency\t'
               'gCoverage-q30\tgMeanQ\tgBaseCount[A,C,G,T]\tgAllSubs\tgFrequency\tgencode_feat\tgencode_gid\tgencode_tid')


def redi_line(chrom, pos1, ref, strand_code, counts, subs, gcov, feat, gid, tid):
    """counts: dict base->reads (bases as reported, i.e. strand corrected when strand_code is 0/1);
    subs: list of 2-letter strings; gcov: int or None (no DNA-seq data: REDItools prints '-')."""
    total = sum(counts.values())
    bc = '[' + ', '.join(str(counts.get(b, 0)) for b in 'ACGT') + ']'
    mx = max((counts[s[1]] for s in subs), default=0)
    freq = f'{(mx / (mx + counts[ref])) if mx + counts[ref] else 0.0:.2f}'
    if gcov is None:
        g = ['-', '-', '-', '-', '-']
    else:
        gb = '[' + ', '.join(str(gcov if b == ref else 0) for b in 'ACGT') + ']'
        g = [str(gcov), '30.00', gb, '-', '0.00']
    return '\t'.join([chrom, str(pos1), ref, str(strand_code), str(total), '38.50', bc, ' '.join(subs), freq] + g +
                     [feat, gid, tid])


def spanning(R: refgen.Ref, gene_id, g):
    out = []
    for t in R.gene[gene_id]['transcripts']:
        if t['exons'][0][0] <= g < t['exons'][-1][1]:
            out.append(t['tx_id'])
    return out


def exonic(R: refgen.Ref, tx_id, g):
    return any(a <= g < b for a, b in R.tx[tx_id]['exons'])


def in_cds(R: refgen.Ref, tx_id, g):
    c = R.tx[tx_id].get('cds')
    return bool(c) and c[0] <= g < c[1] and exonic(R, tx_id, g)


def tid_column(R, txs, g, deco):
    """The annotated transcript-id column.  deco 0: 'TX-transcript' joined by ','; 1: per transcript
    'TX-transcript[,TX-exon[,TX-CDS]]' joined by '&'; 2: joined by '$' and a trailing ','."""
    if not txs:
        return '-', '-'
    items, feats = [], []
    for t in txs:
        sub = [f'{t}-transcript']
        fs = ['transcript']
        if deco == 1:
            if exonic(R, t, g):
                sub.append(f'{t}-exon')
                fs.append('exon')
            if in_cds(R, t, g):
                sub.append(f'{t}-CDS')
                fs.append('CDS')
        items.append(','.join(sub))
        feats.append(','.join(fs))
    sep = {0: ',', 1: '&', 2: '$'}[deco]
    s = sep.join(items)
    if deco == 2:
        s += ','
    return s, sep.join(feats)


def thr_ok(theta, alt, total, gcov):
    """Acceptance of one substitution under theta = (min_cov_alt, min_freq_alt:str, min_cov_rna,
    min_cov_dna) as the CLI help words it ('Minimal ...' = inclusive; min-coverage-dna -1 = do not
    check).  -> (verdict True/False/None(undecided), signature)"""
    ca, fa, cr, cd = theta
    fa = Fraction(fa)

    def c(x, t):
        return '<' if x < t else ('=' if x == t else '>')
    sig = dict(alt=c(alt, ca), freq=c(Fraction(alt, total), fa), rna=c(total, cr))
    ok = alt >= ca and Fraction(alt, total) >= fa and total >= cr
    if cd == -1:
        sig['dna'] = 'skip' + ('/gcov=na' if gcov is None else '')
        dna = True
    elif gcov is None:
        sig['dna'] = 'gcov=na'
        dna = None
    else:
        sig['dna'] = c(gcov, cd)
        dna = gcov >= cd
    if not ok:
        return False, sig
    return dna, sig
