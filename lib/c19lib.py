"""C19 helpers: the tiny reference, the alphabet of FASTA header entries, and the keep-predicate of
filterFasta exactly as the property text states it (no moPepGen import here)."""
from __future__ import annotations
import itertools
import refgen, oracle as O, expasy_table as ET

C1, C2, N1, N2 = 'ENST01', 'ENST02', 'ENST03', 'ENST04'
TXS = [C1, C2, N1, N2]
CODING = {C1, C2}
GENE = {t: t.replace('ENST', 'ENSG') for t in TXS}


def reference():
    """Two coding and two non-coding single-exon transcripts on one chromosome."""
    def tx(cds):
        return 'GGCACC' + cds + 'TAA' + 'GGCTTAGCC'
    pad = 'ACGTACGTAC'
    seqs = [(tx(O.back_translate('MACKHAAAAKAAAR')), True), (tx(O.back_translate('MAAACKDAAAK')), True),
            ('GGCACCATGGCTGCTTAAGGC' + 'ACGT' * 5, False), ('GGCATGCCCGGGAAATAA' + 'ACGT' * 5, False)]
    genome = pad
    genes = []
    for tid, (s, coding) in zip(TXS, seqs):
        p = len(genome)
        genome += s + pad
        genes.append(dict(gene_id=GENE[tid], strand=1, biotype='protein_coding' if coding else 'lncRNA',
                          transcripts=[dict(tx_id=tid, exons=[(p, p + len(s))],
                                            cds=(p + 6, p + len(s) - 12) if coding else None)]))
    return refgen.Ref(genome, genes)


class Entry:
    """One FASTA header entry as callVariant / callNovelORF write it, with what the property needs to
    know about it: its transcripts, whether it is exempt from the expression criterion (fusion, circRNA,
    splice-altering), and whether it comes from a canonical ORF (docs/filter-fasta.md: coding transcripts
    with mutation(s), fusions whose upstream transcript is coding; circRNA is not; None = the docs do not
    say, e.g. a novel ORF on a coding transcript)."""
    __slots__ = ('idx', 'kind', 'text', 'txs', 'exempt', 'canonical')

    def __init__(self, kind, text, txs, exempt, canonical):
        self.kind, self.text, self.txs, self.exempt, self.canonical = kind, text, tuple(txs), exempt, canonical
        self.idx = None


def entry_alphabet():
    E = []

    def add(kind, text, txs, exempt, canonical):
        e = Entry(kind, text, txs, exempt, canonical)
        e.idx = len(E)
        E.append(e)
    cls = lambda t: 'coding' if t in CODING else 'noncoding'
    for t in (C1, C2):
        add('plain-coding', f'{t}|SNV-10-A-T|1', [t], False, True)
    for t in (N1, N2):
        add('plain-noncoding', f'{t}|SNV-10-A-T|ORF1|1', [t], False, False)
    for t in (N1, N2):
        add('novel-orf', f'{t}|{GENE[t]}|ORF2|1', [t], False, False)
    add('novel-orf-coding', f'{C1}|{GENE[C1]}|ORF1|1', [C1], False, None)
    add('plain-coding-multi', f'{C1}|SNV-10-A-T|RES-20-G-A|INDEL-30-A-AC|2', [C1], False, True)
    add('sect-coding', f'{C1}|SECT-30|1', [C1], False, True)
    add('w2f-coding', f'{C2}|W2F-3|1', [C2], False, True)
    add('snv+w2f-coding', f'{C2}|SNV-10-A-T|W2F-3|2', [C2], False, True)
    for a, b in ((C1, C2), (C1, N1), (N1, C1), (N1, N2)):
        add(f'fusion-{cls(a)}-{cls(b)}', f'FUSION-{a}:10-{b}:20|1', [a, b], True, a in CODING)
    add('fusion-coding-coding-variants', f'FUSION-{C2}:10-{C1}:20|1-SNV-5-A-T|2-SNV-25-C-G|3', [C2, C1], True, True)
    add('fusion-noncoding-coding-orf', f'FUSION-{N2}:10-{C2}:20|ORF1|1', [N2, C2], True, False)
    add('circ-coding', f'CIRC-{C1}-10:40|1', [C1], True, False)
    add('circ-noncoding', f'CIRC-{N1}-10:40|1', [N1], True, False)
    add('ci-coding', f'CI-{C2}-I1|1', [C2], True, False)
    add('circ-coding-variant', f'CIRC-{C1}-10:40|SNV-15-A-T|2', [C1], True, False)
    for typ, vid in (('SE', 'SE-20'), ('RI', 'RI-20'), ('A5SS', 'A5SS-20'), ('A3SS', 'A3SS-20'), ('MXE', 'MXE-20-40')):
        add(f'splice-{typ}-coding', f'{C1}|{vid}|1', [C1], True, True)
        add(f'splice-{typ}-noncoding', f'{N1}|{vid}|ORF1|1', [N1], True, False)
    add('splice-SE+snv-coding', f'{C2}|SNV-10-A-T|SE-20|1', [C2], True, True)
    return E


# ---- expression tables ---------------------------------------------------------------------------
FAMILIES = {
    'float': dict(levels=['2.49', '2.5', '2.51'], cutoffs=['2.5', '2.51', '2.49', '2.52']),
    'int': dict(levels=['99', '100', '101'], cutoffs=['100', '101', '99', '102']),
}
LEVEL_NAME = ['lo', 'eq', 'hi']


def all_tables():
    return list(itertools.product(range(3), repeat=len(TXS)))


def table_values(family, levels):
    v = FAMILIES[family]['levels']
    return {t: v[l] for t, l in zip(TXS, levels)}


# ---- the keep predicate --------------------------------------------------------------------------
class Config:
    """exprs: dict tx -> value string, or None (no table); cutoff: string or None; flags; denylist on."""
    __slots__ = ('exprs', 'cutoff', 'kac', 'kan', 'kc', 'deny')

    def __init__(self, exprs, cutoff, kac, kan, kc, deny):
        self.exprs, self.cutoff, self.kac, self.kan, self.kc, self.deny = exprs, cutoff, kac, kan, kc, deny


def keep_entry(e: Entry, cfg: Config, denylisted: bool, coding=None):
    """True / False, or None where property text and documentation do not decide.
    `coding`: the set of coding transcripts the command knows (default: the reference's).  Passing the empty
    set gives the predicate "as if no transcript were coding" - used ONLY to characterise the known defect of
    the --annotation-gtf path (it cannot know which transcripts are coding), never as the expectation."""
    canonical = e.canonical
    if coding is None:
        coding = CODING
    else:
        canonical = (not e.kind.startswith(('circ', 'ci-'))) and e.txs[0] in coding
    if cfg.deny and denylisted:
        if not cfg.kc:
            return False
        if canonical is None:
            return None
        if not canonical:
            return False
    if e.exempt:
        return True
    if cfg.kac and all(t in coding for t in e.txs):
        return True
    if cfg.kan and all(t not in coding for t in e.txs):
        return True
    if cfg.exprs is None:
        return True
    c = float(cfg.cutoff)
    return all(float(cfg.exprs[t]) >= c for t in e.txs)


def misc_enzyme_exception(enzyme):
    return 'trypsin_exception' if enzyme == 'trypsin' else None


def miscleavages(seq, enzyme):
    """Number of cleavage sites inside the peptide (a site at the very end is the peptide's own
    C-terminus, not a missed cleavage)."""
    return len([x for x in ET.sites(enzyme, seq, misc_enzyme_exception(enzyme)) if 0 < x < len(seq)])


def misc_ok(seq, enzyme, rng):
    if rng is None:
        return True
    lo, hi = rng
    m = miscleavages(seq, enzyme)
    return (lo is None or m >= lo) and (hi is None or m <= hi)


def expected(peptide_entries, seq, cfg: Config, denylisted: bool, enzyme=None, rng=None, coding=None):
    """-> (must_keep, may_keep): lists of entries (in input order) that must / may be in the output
    header.  An empty may_keep means the peptide must be absent."""
    if not misc_ok(seq, enzyme, rng):
        return [], []
    must, may = [], []
    for e in peptide_entries:
        k = keep_entry(e, cfg, denylisted, coding)
        if k is True:
            must.append(e)
            may.append(e)
        elif k is None:
            may.append(e)
    return must, may
