"""C08 helpers: reference construction for callNovelORF, the definitional ORF-digest oracle, one
in-process execution of the real command and the comparison.  No moPepGen code is used on the
oracle side (only lib/oracle.py, lib/refgen.py)."""
from __future__ import annotations
import itertools, os, re, shutil
from pathlib import Path
import vlib, drive, refgen, oracle as O

CODONS = ['ATG', 'TAA', 'AAA', 'CGT', 'CCT', 'GCT', 'TGG', 'ATT']
SPACERS = ['G', 'GC']
TOKENS = CODONS + SPACERS
TOK_NAME = {'ATG': 'M', 'TAA': '*', 'AAA': 'K', 'CGT': 'R', 'CCT': 'P', 'GCT': 'A', 'TGG': 'W', 'ATT': 'I',
            'G': 'g', 'GC': 'gc'}
# flanks of the non-coding transcript.  LEFT: ATG at index 2 (frame 2) -> M W K, then 'C' + the
# next two bases; tokens start in frame 0.  RIGHT: frame 0 = A K W R stop; frame 1 = L N G V K then
# transcript end (no stop); frame 2 = immediate stop (TAA) and an ATG (index 5) whose ORF M A L S
# ends exactly at the transcript end.
LEFT = 'GCATGTGGAAAC'
RIGHT = 'GCTAAATGGCGTTAAGC'
NC_BIOTYPE = 'lncRNA'
PAD = 'ACGTACGTAC'
INTRON = 'GTAAGTCCCTTTCAG'

# fixed coding transcript: 5'UTR with an out-of-frame ORF (M P K A stop), CDS, 3'UTR with M W R stop
C_UTR5 = 'CATGCCTAAAGCTTGAC'
C_PROT = 'MAKAWKIRPAKAAR'
C_CDS = O.back_translate(C_PROT)
C_UTR3 = 'GGCATGTGGCGTTAGCC'
CODING = C_UTR5 + C_CDS + 'TAA' + C_UTR3
# second coding transcript (pool-independence block): its canonical pool holds INTERNAL peptides that start
# with M and are spellable by the token alphabet (so an ORF's first product can be canonical while its
# M-removed form is not), plus M-less neighbours of some of them
C_PROT_ALT = 'MGRMAKMPKMIKMWKMARMAAKMKAKPAKMIRMPAKWRAIKGGR'
CODING_ALT = C_UTR5 + O.back_translate(C_PROT_ALT) + 'TAA' + C_UTR3

TX_C, TX_N = 'ENST01', 'ENST02'
G_C, G_N = 'ENSG01', 'ENSG02'

BIOTYPE_FILES = {
    # name: (inclusion list | None, exclusion list | None, non-coding transcript passes)
    'none': (None, None, True),
    'inc_hit': (['TEC', NC_BIOTYPE], None, True),
    'inc_miss': (['processed_pseudogene', 'TEC'], None, False),
    'exc_hit': (None, ['TEC', NC_BIOTYPE], False),
    'exc_miss': (None, ['TEC'], True),
    'inc_hit_exc_hit': ([NC_BIOTYPE], [NC_BIOTYPE, 'TEC'], False),
}

CLEAVAGE = {
    # name: rule, exception, misc, min_length, max_length, min_mw
    'T0': ('trypsin', None, 2, 2, 25, 100.),
    'TX': ('trypsin', 'trypsin_exception', 1, 3, 25, 250.),
    'LC': ('lysc', None, 1, 2, 6, 300.),
    'T1': ('trypsin', None, 0, 2, 4, 100.),
}


def tok_id(tokens):
    return '.'.join(TOK_NAME.get(t, t) for t in tokens) if tokens else 'empty'


def nc_seq(tokens, left=LEFT, right=RIGHT):
    return left + ''.join(tokens) + right


def build_ref(nc: str, layout: str = 'plus1', alt_coding: bool = False) -> refgen.Ref:
    """Two-gene reference: fixed coding gene (+ strand, one exon) and the non-coding gene carrying
    `nc` as its only transcript.  layout: plus1 = + strand, one exon; minus2 = - strand, two exons."""
    coding, prot = (CODING_ALT, C_PROT_ALT) if alt_coding else (CODING, C_PROT)
    g0 = PAD + coding + PAD
    s = len(g0)
    c0 = len(PAD)
    coding_tx = dict(tx_id=TX_C, exons=[(c0, c0 + len(coding))],
                     cds=(c0 + len(C_UTR5), c0 + len(C_UTR5) + 3 * len(prot)))
    if layout == 'plus1':
        genome = g0 + nc + PAD
        exons = [(s, s + len(nc))]
        strand = 1
    elif layout == 'minus2':
        c = len(nc) // 2
        a, b = O.revcomp(nc[c:]), O.revcomp(nc[:c])
        genome = g0 + a + INTRON + b + PAD
        exons = [(s, s + len(a)), (s + len(a) + len(INTRON), s + len(a) + len(INTRON) + len(b))]
        strand = -1
    elif layout == 'plus2':
        c = len(nc) // 2
        genome = g0 + nc[:c] + INTRON + nc[c:] + PAD
        exons = [(s, s + c), (s + c + len(INTRON), s + len(INTRON) + len(nc))]
        strand = 1
    else:
        raise ValueError(layout)
    R = refgen.Ref(genome, [
        dict(gene_id=G_C, strand=1, transcripts=[coding_tx]),
        dict(gene_id=G_N, strand=strand, biotype=NC_BIOTYPE, transcripts=[dict(tx_id=TX_N, exons=exons)]),
    ])
    assert R.tx_seq(TX_N) == nc, (R.tx_seq(TX_N), nc)
    assert R.tx_seq(TX_C) == coding
    assert R.protein(TX_C) == prot
    return R


# ---- oracle ---------------------------------------------------------------------------------
def orfs_of(seq: str):
    """Every ATG in the three frames -> (start, protein up to the next stop or the transcript end,
    end nucleotide (exclusive, stop codon not included))."""
    out = []
    for i in O.orf_starts(seq):
        p = O.translate(seq, i)
        out.append((i, p, i + 3 * len(p)))
    return out


def w_subsets(p):
    pos = [i for i, c in enumerate(p) if c == 'W']
    for k in range(1, len(pos) + 1):
        yield from itertools.combinations(pos, k)


def subst(p, pos):
    s = list(p)
    for i in pos:
        s[i] = 'F'
    return ''.join(s)


def tx_expected(seq: str, cl: O.Cleavage, canon, w2f: bool):
    """Definitional expectation for one selected transcript.
    MUST (every reading of the statement demands it) / MAY (some reading allows it):
      base      digest products (<= misc missed sites) of every ORF translation, valid, not canonical
      M-clip    the N-terminal product without its M: MAY only (not in the statement or the docs)
      W>F       reading R1: images of base peptides (all non-empty subsets of W positions);
                reading R2: products of the translation with W>F substituted before digestion.
                MUST = R1(of MUST base) & R2;  MAY = R1(of any product, clipped or not) | R2.
    Returns (must, may, base_products) where base_products = every digest product (clipped forms
    included, no limits applied) used to check W2F header ids."""
    ok = lambda p: cl.valid(p) and p not in canon
    must, may, prods = set(), set(), set()
    r1_must, r1_may, r2_must, r2_may = set(), set(), set(), set()
    for start, prot, _ in orfs_of(seq):
        d0 = cl.digest(prot, clip_m=False)
        d1 = cl.digest(prot, clip_m=True)
        prods |= d1
        must |= {p for p in d0 if ok(p)}
        may |= {p for p in d1 if ok(p)}
        if w2f and 'W' in prot:
            for p in d1:
                if 'W' in p:
                    for S in w_subsets(p):
                        q = subst(p, S)
                        if ok(q):
                            r1_may.add(q)
                            if p in d0 and ok(p):
                                r1_must.add(q)
            for S in w_subsets(prot):
                prot2 = subst(prot, S)
                for q in cl.digest(prot2, clip_m=False):
                    if ok(q):
                        r2_must.add(q)
                for q in cl.digest(prot2, clip_m=True):
                    if ok(q):
                        r2_may.add(q)
    if w2f:
        # R2 sets contain W-free/unsubstituted products too; restricting to r1 keeps only images
        must |= (r1_must & r2_must)
        may |= r1_may | r2_may
    return must, may, prods


def selected(cfg, nc_len):
    sel = []
    if cfg.get('coding'):
        sel.append(TX_C)
    ok = BIOTYPE_FILES[cfg.get('bio', 'none')][2]
    mt = cfg.get('mintx')
    if mt is not None and mt > 0:      # mintx = delta relative to the transcript length
        ok = False
    if ok:
        sel.append(TX_N)
    return sel


_canon_cache = {}


def canon_pool(cl: O.Cleavage, alt: bool = False):
    k = (cl.key(), alt)
    if k not in _canon_cache:
        _canon_cache[k] = O.canonical_pool({TX_C: C_PROT_ALT if alt else C_PROT}, cl)
    return _canon_cache[k]


def cleavage_of(cfg):
    c = cfg['cl']
    if isinstance(c, str):
        c = CLEAVAGE[c]
    return O.Cleavage(*c)


# ---- execution ------------------------------------------------------------------------------
def run_tool(refdir: Path, cfg, nc_len: int, out: Path, orf_out: Path):
    cl = cleavage_of(cfg)
    for p in (out, orf_out):
        if p.exists():
            p.unlink()
    argv = ['callNovelORF', '-o', out, '--output-orf', orf_out, '--orf-assignment', cfg.get('orf', 'max')]
    argv += drive.ref_argv(refdir)
    argv += drive.cleavage_argv(cl.rule, cl.exception, cl.misc, cl.min_length, cl.max_length, cl.min_mw)
    mt = cfg.get('mintx')
    argv += ['--min-tx-length', 10 if mt is None else nc_len + mt]
    if cfg.get('w2f'):
        argv.append('--w2f-reassignment')
    if cfg.get('coding'):
        argv.append('--coding-novel-orf')
    inc, exc, _ = BIOTYPE_FILES[cfg.get('bio', 'none')]
    if inc is not None:
        f = refdir / 'inc.txt'
        f.write_text('\n'.join(inc) + '\n')
        argv += ['--inclusion-biotypes', f]
    if exc is not None:
        f = refdir / 'exc.txt'
        f.write_text('\n'.join(exc) + '\n')
        argv += ['--exclusion-biotypes', f]
    argv.append('--quiet')
    if os.environ.get('VERIF_ORDER_CONTROL') or cfg.get('ord') is not None:   # opt-in (debugging aid)
        order_control(cfg.get('ord') or 0)
    r = drive.run(argv)
    res = dict(ok=r['ok'], exc=r['exc'], tb=r.get('tb'), peptides=None, orfs=None)
    if r['ok']:
        res['peptides'] = drive.read_fasta(out) if out.exists() else None
        res['orfs'] = drive.read_fasta(orf_out) if orf_out.exists() else None
    return res


_HDR = re.compile(r'^(?P<tx>[^|]+)\|(?P<gene>[^|]+)\|(?P<mid>(?:[^|]+\|)*)(?P<orf>ORF\d+)\|(?P<idx>\d+)$')


def parse_entry(e):
    m = _HDR.match(e)
    if not m:
        return None
    mids = [x for x in m.group('mid').split('|') if x]
    return dict(tx=m.group('tx'), gene=m.group('gene'), vars=mids, orf=m.group('orf'), idx=int(m.group('idx')))


def evaluate(seqs, cfg, res):
    """seqs = {tx_id: transcript sequence}.  Returns (list of findings, nontrivial).  A finding is
    (mechanism, detail-dict)."""
    cl = cleavage_of(cfg)
    canon = canon_pool(cl)
    nc_len = len(seqs[TX_N])
    sel = selected(cfg, nc_len)
    w2f = bool(cfg.get('w2f'))
    F = []
    exp = {}
    for tx in (TX_C, TX_N):
        if tx in sel:
            exp[tx] = tx_expected(seqs[tx], cl, canon, w2f)
        else:
            exp[tx] = (set(), set(), set())
    nontrivial = exp[TX_N][0]     # MUST set of the enumerated transcript (caller compares with the empty string's)
    if not res['ok']:
        F.append(('crash', dict(exc=res['exc'])))
        return F, nontrivial
    if res['peptides'] is None or res['orfs'] is None:
        F.append(('no-output-file', {}))
        return F, nontrivial
    # --- peptide FASTA ---
    got = {TX_C: {}, TX_N: {}}
    seen = set()
    for hdr, s in res['peptides']:
        if s in seen:
            F.append(('fasta/duplicate-sequence', dict(peptide=s)))
        seen.add(s)
        for e in hdr.split(' '):
            pe = parse_entry(e)
            if pe is None or pe['tx'] not in got or pe['gene'] != {TX_C: G_C, TX_N: G_N}[pe['tx']]:
                F.append(('header/unparsable', dict(entry=e, peptide=s)))
                continue
            got[pe['tx']].setdefault(s, []).append(pe)
    referenced = {TX_C: set(), TX_N: set()}
    for tx in (TX_C, TX_N):
        must, may, prods = exp[tx]
        out = set(got[tx])
        if tx not in sel and out:
            F.append((f'select/{"coding-without-flag" if tx == TX_C else "noncoding-filtered-but-called"}',
                      dict(tx=tx, spurious=sorted(out)[:8])))
            # the transcript was processed although it is not selected: still judge WHAT was written for it, so
            # that this (known) selection defect cannot hide a different one
            must2, may2, _ = tx_expected(seqs[tx], cl, canon, w2f)
            for p in sorted(must2 - out):
                F.append((_mech('missing', classify(p, seqs[tx], cl, canon, w2f)) + '/unselected-tx', dict(tx=tx, peptide=p)))
            for p in sorted(out - may2):
                F.append((_mech('spurious', classify_spurious(p, seqs[tx], cl, canon, w2f)) + '/unselected-tx', dict(tx=tx, peptide=p)))
        elif tx in sel and must and not out and not any(h.startswith(tx + '|') for h, _ in res['orfs']):
            F.append((f'select/{"coding" if tx == TX_C else "noncoding"}-selected-but-not-called',
                      dict(tx=tx, missing=sorted(must)[:8])))
        elif tx in sel:
            for p in sorted(must - out):
                F.append((_mech('missing', classify(p, seqs[tx], cl, canon, w2f)), dict(tx=tx, peptide=p)))
            for p in sorted(out - may):
                F.append((_mech('spurious', classify_spurious(p, seqs[tx], cl, canon, w2f)), dict(tx=tx, peptide=p)))
        for p, entries in got[tx].items():
            for pe in entries:
                referenced[tx].add(pe['orf'])
                # W2F ids must be peptide positions (1-based) holding F whose reversal is a product
                ids = [v for v in pe['vars']]
                bad = [v for v in ids if not re.match(r'^W2F-\d+$', v)]
                if bad:
                    F.append(('header/unknown-variant-id', dict(tx=tx, peptide=p, ids=bad)))
                    continue
                if ids and not w2f:
                    F.append(('header/w2f-without-flag', dict(tx=tx, peptide=p, ids=ids)))
                if tx in sel:
                    pos = [int(v.split('-')[1]) - 1 for v in ids]
                    if any(i < 0 or i >= len(p) or p[i] != 'F' for i in pos) or len(set(pos)) != len(pos):
                        F.append(('header/w2f-position-not-F', dict(tx=tx, peptide=p, ids=ids)))
                    else:
                        base = list(p)
                        for i in pos:
                            base[i] = 'W'
                        base = ''.join(base)
                        if ids and base not in prods:
                            F.append(('header/w2f-ids-do-not-suffice', dict(tx=tx, peptide=p, ids=ids, base=base)))
    # --- ORF FASTA ---
    listed = {TX_C: {}, TX_N: {}}
    for hdr, s in res['orfs']:
        m = re.match(r'^([^|]+)\|([^|]+)\|(ORF\d+)\|(\d+)-(\d+)$', hdr)
        if not m or m.group(1) not in listed:
            F.append(('orf-fasta/unparsable', dict(header=hdr)))
            continue
        tx, gene, oid, a, b = m.group(1), m.group(2), m.group(3), int(m.group(4)), int(m.group(5))
        if oid in listed[tx]:
            F.append(('orf-fasta/duplicate-id', dict(tx=tx, orf=oid)))
        listed[tx][oid] = (a, b, s)
        seq = seqs[tx]
        if seq[a:a + 3] != 'ATG':
            F.append(('orf-fasta/start-not-ATG', dict(tx=tx, orf=oid, start=a, end=b, codon=seq[a:a + 3])))
        if (b - a) % 3 or O.translate(seq[a:b], 0, to_stop=False) != s:
            F.append(('orf-fasta/coords-do-not-translate-to-seq',
                      dict(tx=tx, orf=oid, start=a, end=b, listed=s, translated=O.translate(seq[a:b], 0, to_stop=False))))
        elif O.translate(seq, a) != s:
            F.append(('orf-fasta/not-to-next-stop-or-end', dict(tx=tx, orf=oid, start=a, end=b, listed=s,
                                                                  full=O.translate(seq, a))))
    for tx in (TX_C, TX_N):
        if tx not in sel and listed[tx]:
            F.append((f'select/{"coding-without-flag" if tx == TX_C else "noncoding-filtered-but-called"}',
                      dict(tx=tx, orfs_listed=sorted(listed[tx]))))
            continue
        miss = referenced[tx] - set(listed[tx])
        if miss:
            F.append(('orf-fasta/referenced-not-listed', dict(tx=tx, orfs=sorted(miss))))
        extra = set(listed[tx]) - referenced[tx]
        if extra and tx in sel:
            F.append((f"orf-fasta/listed-not-referenced/{cfg.get('orf', 'max')}", dict(tx=tx, orfs=sorted(extra),
                                                            orf_assignment=cfg.get('orf', 'max'))))
        if tx in sel:
            # attribution: the base peptide must lie inside the ORF it is attributed to
            for p, entries in got[tx].items():
                for pe in entries:
                    if pe['orf'] not in listed[tx]:
                        continue
                    pos = [int(v.split('-')[1]) - 1 for v in pe['vars'] if re.match(r'^W2F-\d+$', v)]
                    base = list(p)
                    for i in pos:
                        if 0 <= i < len(base):
                            base[i] = 'W'
                    base = ''.join(base)
                    if base not in listed[tx][pe['orf']][2]:
                        F.append(('orf-fasta/peptide-not-in-attributed-orf',
                                  dict(tx=tx, peptide=p, orf=pe['orf'], orf_seq=listed[tx][pe['orf']][2])))
    # --- informational only (NOT part of property C08, which does not say which of several enclosing ORFs a
    # peptide is attributed to; reported in the evidence file, never as a violation) --- ORF assignment (CLI help: `max` = the last ORF upstream of the peptide, `min` = the first,
    # most upstream one), checked where it is unambiguous: a product that begins with the start M of an ORF
    mode = cfg.get('orf', 'max')
    for tx in sel:
        seq = seqs[tx]
        allorfs = orfs_of(seq)
        starts = {}
        for s0, prot, e in allorfs:
            first = min(t for t, _, e2 in allorfs if t % 3 == s0 % 3 and t <= s0 and e2 == e)
            for q in cl.digest(prot, clip_m=False, with_span=True):
                if q[2]:
                    starts.setdefault(q[0], set()).add(s0 if mode == 'max' else first)
        by_start = {v[0]: k for k, v in listed[tx].items()}
        for p, entries in got[tx].items():
            if p in starts and not any(pe['vars'] for pe in entries):
                want = {by_start.get(s0) for s0 in starts[p]}
                have = {pe['orf'] for pe in entries}
                if None not in want and not want <= have:
                    F.append((f'INFO:orf-assignment/{mode}-not-as-in-cli-help',
                              dict(tx=tx, peptide=p, attributed=sorted(have), documented=sorted(want))))
    return F, nontrivial


def context_products(seq, cl, up=True, down=True):
    """What one gets when every ORF is cut at the cleavage sites computed with residues outside the
    ORF taking part in the rule's window (up: residues upstream of the start codon; down: the stop
    symbol and what follows it) instead of the sites of the ORF's own translation."""
    import expasy_table as ET
    out = set()
    for fr in range(3):
        full = O.translate(seq, fr, to_stop=False)
        for i, ch in enumerate(full):
            if ch != 'M':
                continue
            j = full.find('*', i)
            if j < 0:
                j = len(full)
            lo = 0 if up else i
            hi = len(full) if down else j
            sites = set(x + lo for x in ET.sites(cl.rule, full[lo:hi], cl.exception))
            cuts = [i] + [x for x in sorted(sites) if i < x < j] + [j]
            for a in range(len(cuts) - 1):
                for b in range(a + 1, min(a + cl.misc + 1, len(cuts) - 1) + 1):
                    q = full[cuts[a]:cuts[b]]
                    out.add(q)
                    if a == 0:
                        out.add(q[1:])
    return out


def _w_match(c, p):
    return len(c) == len(p) and all(a == b or (a == 'W' and b == 'F') for a, b in zip(c, p))


def _ctx_label(p, seq, cl, w2f, missing):
    """Which out-of-ORF context explains the discrepancy (None if none does)."""
    def has(ctx):
        return p in ctx or (w2f and any(_w_match(c, p) for c in ctx))
    for name, kw in (('upstream-of-start', dict(up=True, down=False)),
                     ('downstream-of-stop', dict(up=False, down=True)), ('outside-orf', dict(up=True, down=True))):
        ctx = context_products(seq, cl, **kw)
        if missing != has(ctx):
            return 'context-' + name
    return None


def _mech(kind, label):
    return f'digest/{label}' if label.startswith('context-') else f'{kind}/{label}'


def classify(p, seq, cl, canon, w2f):
    """Coarse mechanism label for a missing peptide."""
    base_must, _, _ = tx_expected(seq, cl, canon, False)
    c = _ctx_label(p, seq, cl, w2f, True)
    if c:
        return c
    if p not in base_must:
        return 'w2f-form'
    nterm = end = False
    for start, prot, e in orfs_of(seq):
        for q, n, is_n, reaches in cl.digest(prot, clip_m=False, with_span=True):
            if q == p:
                nterm |= is_n
                end |= reaches and e + 3 > len(seq)
    return ('orf-start' if nterm else 'internal') + ('+tx-end' if end else '')


def classify_spurious(p, seq, cl, canon, w2f):
    if p in canon:
        return 'canonical'
    if not cl.valid(p):
        return 'outside-limits'
    c = _ctx_label(p, seq, cl, w2f, False)
    if c:
        return c
    if not w2f and any(_w_match(c, p) and c != p for _, pr, _ in orfs_of(seq) for c in cl.digest(pr)):
        return 'w2f-form-without-flag'
    return 'not-a-product'


from ordctl import order_control      # noqa: E402  (kept here for callers of c08lib.order_control)
