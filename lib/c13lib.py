"""Oracle side of C13 (GVF round trip / index-equivalent access / stale index).

Nothing here imports moPepGen.  It contains
  * the enumerators of record *specs* (plain dicts) for every record kind,
  * an independent formatter  spec -> GVF line  and  spec -> expected parsed record  written from
    docs/file-format.md (1-based POS / START / DONOR_START / ACCEPTER_POSITION, END and DONOR_END
    unchanged, symbolic ALT, circRNA OFFSET/LENGTH/INTRON),
  * the tiny two-gene / three-transcript reference and the record alphabet of the index blocks,
  * an independent computation of the .idx content (sha512 + one pointer per run of equal
    TRANSCRIPT_ID, byte offsets) and of the per-transcript grouping of a set of GVF files.
"""
from __future__ import annotations
import hashlib, itertools, random

# ---------------------------------------------------------------------------------------------
# 1. record specs
# ---------------------------------------------------------------------------------------------
POS1 = ('START', 'DONOR_START', 'ACCEPTER_POSITION')      # written 1-based (docs 1.3 / 1.4)
SYMBOLIC = {'Fusion': '<FUSION>', 'Insertion': '<INS>', 'Deletion': '<DEL>', 'Substitution': '<SUB>'}
SEQVAR_KINDS = ['SNV', 'INDEL_INS', 'INDEL_DEL', 'MNV', 'RES', 'Fusion', 'Insertion', 'Deletion', 'Substitution']
TYPE_OF = {'SNV': 'SNV', 'INDEL_INS': 'INDEL', 'INDEL_DEL': 'INDEL', 'MNV': 'MNV', 'RES': 'RNAEditingSite',
           'Fusion': 'Fusion', 'Insertion': 'Insertion', 'Deletion': 'Deletion', 'Substitution': 'Substitution'}
MID = 1234
MID2 = 4321
TX, GENE = 'ENST0001.2', 'ENSG0001.5'
ABSENT = None


def _opt_values(tier):
    th = tier == 'thorough'
    return {
        'GENE_SYMBOL': ['TP53', ''] + (['HLA-DRB1.2'] if th else []),
        'GENOMIC_POSITION': ['chr1:1000-1001', ''] + (['chrUn_KI270742v1:5:6'] if th else []),
        'STRAND': ['1', '-1'],
        'ACCEPTER_SYMBOL': ['EGFR', ''] + (['AC004556.1'] if th else []),
        'ACCEPTER_GENOMIC_POSITION': ['chr2:2000:2000', ''],
        'DONOR_GENE_ID': [GENE] + (['ENSG0009.1'] if th else []),
        'COORDINATE': ['gene'] + (['transcript'] if th else []),
    }


def _orders(items, tier):
    """Attribute orders: the parsers' order, reversed, and (thorough) every rotation."""
    out = [list(items)]
    rev = list(reversed(items))
    if rev != out[0]:
        out.append(rev)
    if tier == 'thorough':
        for r in range(1, len(items)):
            rot = list(items[r:]) + list(items[:r])
            if rot not in out:
                out.append(rot)
    return out


def seqvar_specs(kind, tier):
    """All specs of one record kind.  A spec is a JSON-able dict; position attributes are ints in
    the internal 0-based convention (as the parsers build them)."""
    ov = _opt_values(tier)
    starts = (0, 1, MID)
    geos = []        # (start, end, ref, alt, id, mandatory attrs [(k,v)...], optional keys)
    for s in starts:
        if kind == 'SNV':
            for ref, alt in (('A', 'T'), ('G', 'C')):
                geos.append((s, s + 1, ref, alt, f'SNV-{s+1}-{ref}-{alt}', [('TRANSCRIPT_ID', TX)],
                             ['GENOMIC_POSITION', 'GENE_SYMBOL']))
        elif kind == 'RES':
            for ref, alt in (('A', 'G'), ('T', 'C')):
                geos.append((s, s + 1, ref, alt, f'RES-{s+1}-{ref}-{alt}', [('TRANSCRIPT_ID', TX)],
                             ['GENOMIC_POSITION', 'STRAND', 'GENE_SYMBOL']))
        elif kind == 'INDEL_INS':
            for ref, alt in (('A', 'AT'), ('C', 'CGTA')):
                geos.append((s, s + 1, ref, alt, f'INDEL-{s+1}-{ref}-{alt}', [('TRANSCRIPT_ID', TX)],
                             ['GENOMIC_POSITION', 'GENE_SYMBOL']))
        elif kind == 'INDEL_DEL':
            for ref, alt in (('AT', 'A'), ('CGTA', 'C')):
                geos.append((s, s + len(ref), ref, alt, f'INDEL-{s+1}-{ref}-{alt}', [('TRANSCRIPT_ID', TX)],
                             ['GENOMIC_POSITION', 'GENE_SYMBOL']))
        elif kind == 'MNV':
            for ref, alt in (('AT', 'CG'), ('ACG', 'TA'), ('AC', 'TGA')):
                geos.append((s, s + len(ref), ref, alt, f'MNV-{s+1}-{ref}-{alt}', [('TRANSCRIPT_ID', TX)],
                             ['GENOMIC_POSITION', 'GENE_SYMBOL']))
        elif kind == 'Fusion':
            for ap in (0, 1, MID2):
                geos.append((s, s + 1, 'A', '<FUSION>', f'FUSION-{TX}:{s}-ENST0002.7:{ap}',
                             [('TRANSCRIPT_ID', TX), ('ACCEPTER_GENE_ID', 'ENSG0002.1'),
                              ('ACCEPTER_TRANSCRIPT_ID', 'ENST0002.7'), ('ACCEPTER_POSITION', ap)],
                             ['GENE_SYMBOL', 'GENOMIC_POSITION', 'ACCEPTER_SYMBOL', 'ACCEPTER_GENOMIC_POSITION']))
        elif kind == 'Insertion':
            for ds in (0, 1, MID2):
                for dl in (1, 57):
                    geos.append((s, s + 1, 'C', '<INS>', f'RI_{ds}-{ds+dl}',
                                 [('TRANSCRIPT_ID', TX), ('DONOR_START', ds), ('DONOR_END', ds + dl)],
                                 ['DONOR_GENE_ID', 'COORDINATE', 'GENE_SYMBOL', 'GENOMIC_POSITION']))
        elif kind == 'Deletion':
            for ln in (1, 2, 40):
                geos.append((s, s + ln, 'G', '<DEL>', f'SE_{s}-{s+ln}',
                             [('TRANSCRIPT_ID', TX), ('START', s), ('END', s + ln)],
                             ['GENE_SYMBOL', 'GENOMIC_POSITION']))
        elif kind == 'Substitution':
            for ln in (1, 40):
                for ds in (0, 1, MID2):
                    for dl in (1, 57):
                        geos.append((s, s + ln, 'T', '<SUB>', f'MXE_{s}-{s+ln}-{ds}-{ds+dl}',
                                     [('TRANSCRIPT_ID', TX), ('START', s), ('END', s + ln),
                                      ('DONOR_START', ds), ('DONOR_END', ds + dl)],
                                     ['DONOR_GENE_ID', 'COORDINATE', 'GENE_SYMBOL', 'GENOMIC_POSITION']))
        else:
            raise ValueError(kind)
    out = []
    for (s, e, ref, alt, vid, mand, optkeys) in geos:
        choices = [[ABSENT] + ov[k] for k in optkeys]
        for combo in itertools.product(*choices):
            attrs = list(mand) + [(k, v) for k, v in zip(optkeys, combo) if v is not ABSENT]
            for order in _orders(attrs, tier):
                out.append(dict(kind=kind, gene=GENE, start=s, end=e, ref=ref, alt=alt, id=vid,
                                type=TYPE_OF[kind], attrs=[list(x) for x in order],
                                n_opt=sum(1 for v in combo if v is not ABSENT)))
    return out


def fmt_seqvar(spec):
    """spec -> GVF line (independent formatter, docs/file-format.md 1.2-1.4)."""
    kind = spec['kind']
    sym = kind in SYMBOLIC
    ref = spec['ref'][0] if sym else spec['ref']
    alt = SYMBOLIC[kind] if sym else spec['alt']
    info = []
    for k, v in spec['attrs']:
        if k in POS1:
            v = int(v) + 1
        info.append(f'{k}={v}')
    return '\t'.join([spec['gene'], str(spec['start'] + 1), spec['id'], ref, alt, '.', '.', ';'.join(info)])


def expected_parsed_seqvar(spec):
    """What a reader must reconstruct from the line: 0-based start, end by kind, alleles, id and all
    attributes (as strings, position attributes back in 0-based)."""
    kind = spec['kind']
    ref = spec['ref'][0] if kind in SYMBOLIC else spec['ref']
    alt = SYMBOLIC.get(kind, spec['alt'])
    if kind in ('Deletion', 'Substitution'):
        end = spec['end']
    elif kind in ('Fusion', 'Insertion'):
        end = spec['start'] + 1
    else:
        end = spec['start'] + len(ref)
    t = spec['type']
    if t == 'RNAEditingSite':      # the record type is not part of the text; a RES line reads back as SNV
        t = 'SNV'
    return dict(seqname=spec['gene'], start=spec['start'], end=end, ref=ref, alt=alt, id=spec['id'], type=t,
                attrs=[[k, str(v)] for k, v in spec['attrs']])


# ---- circRNA ---------------------------------------------------------------------------------
def circ_specs(tier):
    th = tier == 'thorough'
    out = []
    shapes = [
        # (name, fragment (offset,len) list, intron indices (1-based positions in the fragment list))
        ('circ1', [(0, 40)], []),
        ('circ2', [(0, 40), (60, 40)], []),
        ('circ3', [(0, 40), (60, 40), (120, 61)], []),
        ('ci1', [(0, 20)], [1]),
        ('circ3ri', [(0, 40), (40, 20), (60, 40)], [2]),
        ('circ2ri', [(0, 40), (40, 20)], [2]),
        # fragments listed in descending gene coordinates (negative OFFSETs), as parseCIRCexplorer writes them for
        # multi-exon circRNAs of minus-strand genes
        ('circ2desc', [(60, 40), (0, 40)], []),
        ('circ3desc', [(120, 61), (60, 40), (0, 40)], []),
        ('circ3ridesc', [(60, 40), (40, 20), (0, 40)], [2]),
    ]
    if th:
        shapes += [('ci2', [(0, 20), (60, 20)], [1, 2]), ('circ3ri2', [(0, 5), (5, 1), (6, 7)], [1, 3])]
    gls = ['chr22:4980:5177', ''] + (['chrUn_KI270742v1:0:464'] if th else [])
    names = ['LZTR1', ''] + (['HLA-DRB1.2'] if th else [])
    for shape, frags, introns in shapes:
        for s in (0, 1, MID):
            for gl in gls:
                for gn in names:
                    fr = [[s + o, s + o + l] for o, l in frags]
                    pre = 'CI' if shape.startswith('ci') and not shape.startswith('circ') else 'CIRC'
                    out.append(dict(kind='circ', shape=shape, gene=GENE, tx=TX, id=f'{pre}-{TX}-{fr[0][0]}:{fr[-1][1]}',
                                    fragments=fr, introns=list(introns), gene_name=gn, genomic_location=gl,
                                    n_opt=(1 if gl else 0) + (1 if gn else 0) + (1 if introns else 0)))
    return out


def fmt_circ(spec):
    s0 = spec['fragments'][0][0]
    off = ','.join(str(a - s0) for a, b in spec['fragments'])
    ln = ','.join(str(b - a) for a, b in spec['fragments'])
    intr = ','.join(str(i) for i in spec['introns'])
    info = (f'OFFSET={off};LENGTH={ln};INTRON={intr};TRANSCRIPT_ID={spec["tx"]};'
            f'GENE_SYMBOL={spec["gene_name"]};GENOMIC_POSITION={spec["genomic_location"]}')
    return '\t'.join([spec['gene'], str(s0), spec['id'], '.', '.', '.', '.', info])


def expected_parsed_circ(spec):
    return dict(gene_id=spec['gene'], transcript_id=spec['tx'], id=spec['id'], gene_name=spec['gene_name'],
                fragments=[[a, b, 'intron' if i + 1 in spec['introns'] else 'exon']
                           for i, (a, b) in enumerate(spec['fragments'])],
                intron=list(spec['introns']), genomic_position=spec['genomic_location'])


# ---- line diff ---------------------------------------------------------------------------------
COLS = ['CHROM', 'POS', 'ID', 'REF', 'ALT', 'QUAL', 'FILTER', 'INFO']


def _info_items(info):
    out = []
    for f in info.split(';') if info != '' else []:
        k, _, v = f.partition('=')
        out.append((k, v))
    return out


def diff_lines(exp, got):
    """Names of the fields in which two GVF lines differ ('POS', 'attr:END', 'INFO-order', ...)."""
    if exp == got:
        return []
    a, b = exp.split('\t'), got.split('\t')
    if len(a) != len(b) or len(a) != 8:
        return ['columns']
    out = [COLS[i] for i in range(7) if a[i] != b[i]]
    ia, ib = _info_items(a[7]), _info_items(b[7])
    da, db = dict(ia), dict(ib)
    for k in sorted(set(da) | set(db)):
        if da.get(k) != db.get(k):
            out.append(f'attr:{k}')
    if not any(x.startswith('attr:') for x in out) and [k for k, _ in ia] != [k for k, _ in ib]:
        out.append('INFO-order')
    if not out:
        out.append('INFO-format')
    return out


# ---------------------------------------------------------------------------------------------
# 2. reference + record alphabet of the index blocks
# ---------------------------------------------------------------------------------------------
GA, GB = 'ENSG0A', 'ENSG0B'
T1, T2, T3 = 'ENST0A1', 'ENST0A2', 'ENST0B1'


def ref_description():
    rnd = random.Random(5)
    genome = ''.join(rnd.choice('ACGT') for _ in range(420))
    genes = [
        dict(gene_id=GA, strand=1, biotype='lncRNA', transcripts=[
            dict(tx_id=T1, exons=[(20, 60), (80, 120), (140, 200)]),
            dict(tx_id=T2, exons=[(20, 60), (140, 200)])]),
        dict(gene_id=GB, strand=-1, biotype='lncRNA', transcripts=[
            dict(tx_id=T3, exons=[(240, 280), (300, 340), (360, 400)])]),
    ]
    return genome, genes


def make_ref():
    import refgen
    genome, genes = ref_description()
    return refgen.Ref(genome, genes)


def _other(base):
    return 'A' if base != 'A' else 'C'


def alphabet(R):
    """label -> dict(line, tx, bucket, kind, file ('var'|'circ')).  Gene coordinates: gene A exons
    [0,40) [60,100) [120,180) (T2 lacks the middle one); gene B (minus strand) exons [0,40) [60,100)
    [120,160)."""
    sa, sb = R.gene_seq(GA), R.gene_seq(GB)

    def small(gene, tx, p, ref, alt, sym):
        t = 'SNV' if len(ref) == len(alt) == 1 else 'INDEL'
        return (f'{gene}\t{p+1}\t{t}-{p+1}-{ref}-{alt}\t{ref}\t{alt}\t.\t.\t'
                f'TRANSCRIPT_ID={tx};GENOMIC_POSITION=chr1:{p+1}-{p+2};GENE_SYMBOL={sym}')

    def fusion(p, ap, tag):
        return (f'{GA}\t{p+1}\tFUSION-{T1}:{p}-{T3}:{ap}\t{sa[p]}\t<FUSION>\t.\t.\t'
                f'TRANSCRIPT_ID={T1};GENE_SYMBOL=SYMA;GENOMIC_POSITION=chr1:{20+p}:{20+p};'
                f'ACCEPTER_GENE_ID={GB};ACCEPTER_TRANSCRIPT_ID={T3};ACCEPTER_SYMBOL=SYMB;'
                f'ACCEPTER_POSITION={ap+1};ACCEPTER_GENOMIC_POSITION=chr1:{399-ap}:{399-ap}')

    def circ(gene, tx, frags, introns, sym, pre='CIRC'):
        s0 = frags[0][0]
        return (f'{gene}\t{s0}\t{pre}-{tx}-{frags[0][0]}:{frags[-1][1]}\t.\t.\t.\t.\t'
                f'OFFSET={",".join(str(a-s0) for a, b in frags)};LENGTH={",".join(str(b-a) for a, b in frags)};'
                f'INTRON={introns};TRANSCRIPT_ID={tx};GENE_SYMBOL={sym};GENOMIC_POSITION=chr1:1:2')
    A = {}
    A['a1'] = dict(line=small(GA, T1, 5, sa[5], _other(sa[5]), 'SYMA'), tx=T1, bucket='transcriptional', kind='SNV')
    A['a2'] = dict(line=small(GA, T1, 70, sa[70], sa[70] + 'TG', 'SYMA'), tx=T1, bucket='transcriptional', kind='INDEL')
    A['a3'] = dict(line=small(GA, T1, 45, sa[45], _other(sa[45]), 'SYMA'), tx=T1, bucket='intronic', kind='SNV')
    A['b1'] = dict(line=small(GA, T2, 5, sa[5], _other(sa[5]), 'SYMA'), tx=T2, bucket='transcriptional', kind='SNV')
    A['c1'] = dict(line=small(GB, T3, 7, sb[7], _other(sb[7]), 'SYMB'), tx=T3, bucket='transcriptional', kind='SNV')
    A['c2'] = dict(line=small(GB, T3, 65, sb[65:68], sb[65], 'SYMB'), tx=T3, bucket='transcriptional', kind='INDEL')
    A['f1'] = dict(line=fusion(30, 70, 1), tx=T1, bucket='fusion', kind='Fusion')
    A['f2'] = dict(line=fusion(30, 75, 2), tx=T1, bucket='fusion', kind='Fusion')
    A['f3'] = dict(line=(f'{GB}\t31\tFUSION-{T3}:30-{T1}:70\t{sb[30]}\t<FUSION>\t.\t.\t'
                         f'TRANSCRIPT_ID={T3};GENE_SYMBOL=SYMB;GENOMIC_POSITION=chr1:369:369;'
                         f'ACCEPTER_GENE_ID={GA};ACCEPTER_TRANSCRIPT_ID={T1};ACCEPTER_SYMBOL=SYMA;'
                         f'ACCEPTER_POSITION=71;ACCEPTER_GENOMIC_POSITION=chr1:90:90'),
                   tx=T3, bucket='fusion', kind='Fusion')
    A['s1'] = dict(line=(f'{GA}\t61\tSE_60-100\t{sa[60]}\t<DEL>\t.\t.\tTRANSCRIPT_ID={T1};START=61;END=100;'
                         f'GENE_SYMBOL=SYMA;GENOMIC_POSITION=chr1:81-120'),
                   tx=T1, bucket='transcriptional', kind='Deletion')
    A['s2'] = dict(line=(f'{GA}\t40\tRI_40-60\t{sa[39]}\t<INS>\t.\t.\tTRANSCRIPT_ID={T2};DONOR_START=41;'
                         f'DONOR_END=60;DONOR_GENE_ID={GA};COORDINATE=gene;GENE_SYMBOL=SYMA;'
                         f'GENOMIC_POSITION=chr1:60-80'),
                   tx=T2, bucket='transcriptional', kind='Insertion')
    # same insertion point as s2, different donor segment (equal under VariantRecord.__eq__, different hash)
    A['s4'] = dict(line=(f'{GA}\t40\tA5SS_40-50\t{sa[39]}\t<INS>\t.\t.\tTRANSCRIPT_ID={T2};DONOR_START=41;'
                         f'DONOR_END=50;DONOR_GENE_ID={GA};COORDINATE=gene;GENE_SYMBOL=SYMA;'
                         f'GENOMIC_POSITION=chr1:60-70'),
                   tx=T2, bucket='transcriptional', kind='Insertion')
    A['s3'] = dict(line=(f'{GA}\t61\tMXE_60-100-100-120\t{sa[60]}\t<SUB>\t.\t.\tTRANSCRIPT_ID={T1};START=61;'
                         f'END=100;DONOR_START=101;DONOR_END=120;DONOR_GENE_ID={GA};COORDINATE=gene;'
                         f'GENE_SYMBOL=SYMA;GENOMIC_POSITION=chr1:81-120'),
                   tx=T1, bucket='transcriptional', kind='Substitution')
    for v in A.values():
        v['file'] = 'var'
    A['k1'] = dict(line=circ(GA, T1, [(60, 100)], '', 'SYMA'), tx=T1, kind='circRNA')
    A['k2'] = dict(line=circ(GB, T3, [(0, 40), (60, 100)], '', 'SYMB'), tx=T3, kind='circRNA')
    A['k3'] = dict(line=circ(GA, T1, [(40, 60)], '1', 'SYMA', 'CI'), tx=T1, kind='ciRNA')
    A['k4'] = dict(line=circ(GA, T2, [(0, 40), (120, 180)], '', 'SYMA'), tx=T2, kind='circRNA')
    for k in ('k1', 'k2', 'k3', 'k4'):
        A[k].update(file='circ', bucket='circ_rna')
    for lab, v in A.items():
        v['id'] = v['line'].split('\t')[2]
    return A


def alphabet_labels(tier):
    if tier == 'thorough':
        return ['a1', 'a3', 'f1', 'f2', 's1', 's3', 'b1', 's2', 's4', 'c1', 'c2', 'f3'], ['k1', 'k2', 'k3', 'k4']
    return ['a1', 'a3', 'f1', 'f2', 's1', 'b1', 's2', 'c1', 'c2'], ['k1', 'k2', 'k3']


def arrangements(var_labels, circ_labels, nmax):
    """Every way to put <= nmax distinct records into one or two ordered, homogeneous (variant or
    circRNA) GVF files, every order inside each file.  Yields (file1, file2) tuples of labels,
    file2 possibly empty.  Deterministic order, smallest first."""
    for total in range(1, nmax + 1):
        for n1 in range(total, 0, -1):
            n2 = total - n1
            for k1, k2 in (('var', 'var'), ('var', 'circ'), ('circ', 'var'), ('circ', 'circ')):
                if n2 == 0 and k2 != k1:
                    continue
                L1 = var_labels if k1 == 'var' else circ_labels
                L2 = var_labels if k2 == 'var' else circ_labels
                for f1 in itertools.permutations(L1, n1):
                    if n2 == 0:
                        yield (f1, ())
                        continue
                    rest = [x for x in L2 if x not in f1]
                    for f2 in itertools.permutations(rest, n2):
                        yield (f1, f2)


HEADER_VAR = ['##fileformat=VCFv4.2', '##mopepgen_version=1.4.6-rc4', '##parser=parseVEP', '##reference_index=',
              '##genome_fasta=', '##annotation_gtf=', '##source=gSNP', '##CHROM=<Description="Gene ID">',
              '##INFO=<ID=TRANSCRIPT_ID,Number=1,Type=String,Description="Transcript ID">',
              '##INFO=<ID=GENE_SYMBOL,Number=1,Type=String,Description="Gene Symbol">',
              '##INFO=<ID=GENOMIC_POSITION,Number=1,Type=String,Description="Genomic Position">',
              '#CHROM\tPOS\tID\tREF\tALT\tQUAL\tFILTER\tINFO']
HEADER_CIRC = ['##fileformat=VCFv4.2', '##mopepgen_version=1.4.6-rc4', '##parser=parseCIRCexplorer',
               '##reference_index=', '##genome_fasta=', '##annotation_gtf=', '##source=circRNA',
               '##CHROM=<Description="Gene ID">',
               '##INFO=<ID=TRANSCRIPT_ID,Number=1,Type=String,Description="Transcript ID">',
               '##INFO=<ID=OFFSET,Number=+,Type=Integer,Description="Offsets of fragments (exons or introns)">',
               '##POS=<Description="Gene coordinate of circRNA start">',
               '#CHROM\tPOS\tID\tREF\tALT\tQUAL\tFILTER\tINFO']


def gvf_text(lines, circ=False, source=None):
    hdr = list(HEADER_CIRC if circ else HEADER_VAR)
    if source is not None:
        hdr[6] = f'##source={source}'
    return '\n'.join(hdr + list(lines)) + '\n'


# ---- independent index / grouping ---------------------------------------------------------------
def tx_of_line(line):
    for f in line.rstrip('\n').split('\t')[7].split(';'):
        if f.startswith('TRANSCRIPT_ID='):
            return f[len('TRANSCRIPT_ID='):]
    raise ValueError('no TRANSCRIPT_ID')


def oracle_pointers(data: bytes):
    """[(tx, byte offset, byte length)] - one pointer per maximal run of consecutive record lines with
    the same TRANSCRIPT_ID (all '#' lines precede the records in a GVF file)."""
    out = []
    pos = 0
    for raw in data.split(b'\n')[:-1] if data.endswith(b'\n') else data.split(b'\n'):
        start, pos = pos, pos + len(raw) + 1
        line = raw.decode()
        if line.startswith('#'):
            continue
        tx = tx_of_line(line)
        if out and out[-1][0] == tx:
            out[-1][2] = pos - out[-1][1]
        else:
            out.append([tx, start, pos - start])
    return [tuple(o) for o in out]


def oracle_idx(data: bytes) -> str:
    s = f'# CHECKSUM={hashlib.sha512(data).hexdigest()}\n'
    for tx, start, ln in oracle_pointers(data):
        s += f'{tx}\t{start}\t{ln}\n'
    return s


def oracle_grouping(texts):
    """{tx: sorted list of record lines} over several GVF texts (linear scan by hand)."""
    out = {}
    for t in texts:
        for line in t.split('\n'):
            if not line or line.startswith('#'):
                continue
            out.setdefault(tx_of_line(line), []).append(line)
    return out
