"""Engine A: shared callVariant enumeration (DESIGN §3).  A *case* = reference + GVF records +
configuration; the engine executes the real command on every case of a block (in forked workers),
memoises the raw outputs per (tree hash, block), and hands (case, result) pairs to the oracles of
C01–C05."""
from __future__ import annotations
import hashlib, json, os, pickle, sys, time
from dataclasses import dataclass, field, asdict
from pathlib import Path
import vlib, drive, refgen, panel, oracle as O, cvoracle as CV, ordctl

ENGINE_VERSION = 5
CACHE_DIR = vlib.VERIF / '.cache'


@dataclass(frozen=True)
class Cfg:
    rule: str = 'trypsin'
    exception: str = None            # None | 'trypsin_exception' | 'auto'
    misc: int = 2
    min_length: int = 7
    max_length: int = 25
    min_mw: float = 500.
    flags: tuple = ()                # extra CLI flags, e.g. ('--w2f-reassignment',)
    max_adjacent_as_mnv: int = 2
    mvpn: tuple = (-1,)              # --max-variants-per-node
    avpm: tuple = (-1,)              # --additional-variants-per-misc
    collapse: tuple = None           # (min_nodes_to_collapse, naa_to_collapse)
    threads: int = 1
    order_salt: int = 0              # identity-hash salt (lib/ordctl.py): set-iteration order is an explicit axis

    def cleavage(self):
        return O.Cleavage(self.rule, self.exception, self.misc, self.min_length, self.max_length, self.min_mw)

    def settings(self):
        return CV.Settings(cl=self.cleavage(), coding_novel_orf='--coding-novel-orf' in self.flags,
                           sect='--selenocysteine-termination' in self.flags,
                           w2f='--w2f-reassignment' in self.flags,
                           max_adjacent_as_mnv=self.max_adjacent_as_mnv,
                           backsplicing_only='--backsplicing-only' in self.flags,
                           noncanonical_transcripts='--noncanonical-transcripts' in self.flags)

    def argv(self):
        a = drive.cleavage_argv(self.rule, self.exception, self.misc, self.min_length, self.max_length, self.min_mw)
        a += list(self.flags) + ['--max-adjacent-as-mnv', self.max_adjacent_as_mnv]
        if self.collapse:
            a += ['--min-nodes-to-collapse', self.collapse[0], '--naa-to-collapse', self.collapse[1]]
        return a

    def key(self):
        return json.dumps(asdict(self), sort_keys=True, default=str)


@dataclass(frozen=True)
class Case:
    ref: str
    small: tuple = ()
    as_recs: tuple = ()
    fusions: tuple = ()
    circs: tuple = ()
    cfg: Cfg = Cfg()
    layout: tuple = None     # optional: explicit partition of record indices into files (C06)

    def key(self):
        parts = [self.ref]
        parts += [f'{v.tx}:{v.id()}' for v in self.small]
        parts += [f'{a.tx}:{a.kind}:{a.start}-{a.end}-{a.dstart}-{a.dend}' for a in self.as_recs]
        parts += [f.id() for f in self.fusions]
        parts += [c.id() for c in self.circs]
        h = hashlib.sha1(self.cfg.key().encode()).hexdigest()[:8]
        return '/'.join(parts) + '@' + h

    def describe(self):
        ref = panel.get(self.ref)
        return dict(ref=self.ref, gvf_small=[v.gvf() for v in self.small],
                    gvf_as=[a.gvf(ref) for a in self.as_recs], gvf_fusion=[f.gvf(ref) for f in self.fusions],
                    gvf_circ=[c.gvf(ref) for c in self.circs], cfg=asdict(self.cfg))


def write_case_files(case: Case, d: Path):
    ref = panel.get(case.ref)
    files = []
    if case.small:
        refgen.write_gvf(d / 'v.gvf', [v.gvf() for v in case.small], 'parseVEP', 'gSNP')
        files.append(d / 'v.gvf')
    if case.as_recs:
        refgen.write_gvf(d / 'a.gvf', [a.gvf(ref) for a in case.as_recs], 'parseRMATS', 'AltSplice')
        files.append(d / 'a.gvf')
    if case.fusions:
        refgen.write_gvf(d / 'f.gvf', [f.gvf(ref) for f in case.fusions], 'parseSTARFusion', 'Fusion')
        files.append(d / 'f.gvf')
    if case.circs:
        refgen.write_gvf(d / 'c.gvf', [c.gvf(ref) for c in case.circs], 'parseCIRCexplorer', 'circRNA')
        files.append(d / 'c.gvf')
    return files


def table_problems(fasta_records, table_text):
    """C04 predicates relating FASTA and peptide table (computed where the files are)."""
    probs = []
    pairs_f = set()
    seen = set()
    for h, s in fasta_records:
        if s in seen:
            probs.append(('duplicate-sequence', s))
        seen.add(s)
        for e in h.split(' '):
            pairs_f.add((s, e))
    pairs_t = set()
    if table_text is not None:
        for line in table_text.splitlines():
            if line.startswith('#') or not line:
                continue
            f = line.split('\t')
            if len(f) < 5:
                probs.append(('short-row', line[:80]))
                continue
            pairs_t.add((f[0], f[1]))
            try:
                a, b = int(f[3]), int(f[4])
                # a segment may end one position past the last residue when it carries a trailing partial
                # codon (end_offset > 0: the transcript ends inside a codon); that is the table's documented
                # coordinate convention (residue index + nucleotide offset), not a wrong slice
                eoff = int(f[10]) if len(f) > 10 and f[10].isdigit() else 0
                hi = len(f[0]) + (1 if eoff else 0)
                if f[0][a:b] != f[2] or not (0 <= a <= b <= hi) or (a == b and not eoff):
                    probs.append(('row-slice', line[:120]))
            except ValueError:
                probs.append(('row-int', line[:80]))
    if pairs_f != pairs_t:
        probs.append(('fasta-table-mismatch', sorted(pairs_f - pairs_t)[:3], sorted(pairs_t - pairs_f)[:3]))
    return probs


_ref_written = set()


def ref_dir(name) -> Path:
    d = vlib.worker_dir() / f'ref_{name}'
    if (os.getpid(), name) not in _ref_written:
        panel.get(name).write(d)
        _ref_written.add((os.getpid(), name))
    return d


def execute(case: Case, keep_table=False):
    d = vlib.worker_dir() / 'case'
    d.mkdir(exist_ok=True)
    files = write_case_files(case, d)
    ordctl.order_control(case.cfg.order_salt)       # every execution starts from the same identity-hash state
    r = drive.call_variant(d / 'out.fasta', files, refdir=ref_dir(case.ref), cleavage=case.cfg.argv(),
                           max_variants_per_node=case.cfg.mvpn, additional_variants_per_misc=case.cfg.avpm,
                           threads=case.cfg.threads)
    out = dict(ok=r['ok'], exc=r['exc'], tb=(r['tb'] or '')[-800:] if not r['ok'] else None,
               peptides=r['peptides'], problems=None)
    if r['ok'] and r['peptides'] is not None:
        out['problems'] = table_problems(r['fasta_records'], r['table'])
        if keep_table:
            out['table'] = r['table']
    return out


def _exec_for_pool(case):
    return execute(case)


# ---- cache ---------------------------------------------------------------------------------
_tree_key = None


def tree_key():
    global _tree_key
    if _tree_key is None:
        h = hashlib.sha256()
        root = Path(os.environ.get('VERIF_REPO', '/repo')) / 'moPepGen'
        for p in sorted(root.rglob('*')):
            if p.is_file() and '__pycache__' not in p.parts:
                h.update(str(p.relative_to(root)).encode())
                h.update(p.read_bytes())
        import Bio
        h.update(f'{Bio.__version__}|{sys.version}|{ENGINE_VERSION}'.encode())
        # enginea.py itself is represented by ENGINE_VERSION (bump it when execute()/write_case_files() change), so
        # that adding block generators does not invalidate memoised executions
        for f in ('drive.py', 'refgen.py', 'panel.py', 'ordctl.py'):
            h.update((vlib.VERIF / 'lib' / f).read_bytes())
        _tree_key = h.hexdigest()[:24]
    return _tree_key


def run_block(name, cases, jobs=vlib.NCPU, use_cache=True):
    """Execute every case (complete, ordered).  Returns (results, executed, reused)."""
    cases = list(cases)
    use_cache = use_cache and not os.environ.get('VERIF_NOCACHE')
    bk = hashlib.sha1('\n'.join(c.key() for c in cases).encode()).hexdigest()[:16]
    path = CACHE_DIR / tree_key() / f'{name}-{bk}.pkl'
    if use_cache and path.exists():
        try:
            res = pickle.loads(path.read_bytes())
            if len(res) == len(cases):
                return res, 0, len(cases)
        except Exception:
            pass
    res = vlib.pmap(_exec_for_pool, cases, jobs=jobs)
    errs = vlib.harness_errors(res)
    if errs:
        raise RuntimeError(f'harness error in block {name}: {errs[0]}')
    if use_cache:
        path.parent.mkdir(parents=True, exist_ok=True)
        tmp = path.with_suffix(f'.tmp{os.getpid()}')
        tmp.write_bytes(pickle.dumps(res))
        os.replace(tmp, path)
        prune_cache()
    return res, len(cases), 0


def prune_cache(keep=3):
    """Keep the caches of the `keep` most recent trees only (disk hygiene)."""
    if not CACHE_DIR.exists():
        return
    dirs = sorted([p for p in CACHE_DIR.iterdir() if p.is_dir()], key=lambda p: p.stat().st_mtime, reverse=True)
    import shutil
    for p in dirs[keep:]:
        shutil.rmtree(p, ignore_errors=True)


# ---- alphabets -----------------------------------------------------------------------------
def small_alphabet(ref: refgen.Ref, tx, tx_pos, reduced=False):
    """Elementary small variants anchored at transcript position tx_pos (gene coordinates computed
    through the exon structure; variants whose reference span is not contiguous in the gene are
    still generated in gene coordinates — the gene sequence is what a GVF refers to)."""
    g = ref.gene_of[tx]['gene_id']
    gs = ref.gene_seq(g)
    gp = ref.tx_to_gene(tx, tx_pos)
    out = []
    b = gs[gp]
    for alt in 'ACGT':
        if alt != b:
            out.append(CV.Var(g, tx, gp, gp + 1, b, alt))
    ins = ('A',) if reduced else ('A', 'TG', 'CAT')
    for i in ins:
        out.append(CV.Var(g, tx, gp, gp + 1, b, b + i))
    for dl in ((1,) if reduced else (1, 2, 3)):
        if gp + 1 + dl <= len(gs):
            out.append(CV.Var(g, tx, gp, gp + 1 + dl, gs[gp:gp + 1 + dl], b))
    return out


def d1_cases(refname, tx, cfg, lo=0, hi=None):
    ref = panel.get(refname)
    L = ref.tx_len(tx)
    hi = L if hi is None else min(hi, L)
    return [Case(refname, small=(v,), cfg=cfg) for p in range(lo, hi) for v in small_alphabet(ref, tx, p)]


def d2_cases(refname, tx, cfg, lo, hi, w=9, reduced=False):
    """All unordered pairs (a, b) with a anchored in [lo, hi) and 0 <= start(b) - start(a) <= w."""
    ref = panel.get(refname)
    L = ref.tx_len(tx)
    out = []
    for p in range(lo, min(hi, L)):
        A = small_alphabet(ref, tx, p, reduced)
        for q in range(p, min(p + w + 1, L)):
            B = small_alphabet(ref, tx, q, reduced)
            for i, a in enumerate(A):
                for j, b in enumerate(B):
                    if q == p and j <= i:
                        continue
                    out.append(Case(refname, small=(a, b), cfg=cfg))
    return out


def d3_cases(refname, tx, cfg, lo, hi, w=6):
    ref = panel.get(refname)
    L = ref.tx_len(tx)
    out = []
    for p in range(lo, min(hi, L)):
        A = small_alphabet(ref, tx, p, True)
        for q in range(p + 1, min(p + w + 1, L)):
            B = small_alphabet(ref, tx, q, True)
            for r in range(q + 1, min(p + w + 1, L)):
                C = small_alphabet(ref, tx, r, True)
                for a in A:
                    for b in B:
                        for c in C:
                            out.append(Case(refname, small=(a, b, c), cfg=cfg))
    return out


def mnv3_cases(refname, tx, cfg, lo, hi, w=9):
    """Two adjacent SNVs (merged into an MNV by the caller when --max-adjacent-as-mnv >= 2) at p, p+1 for p in
    [lo, hi), plus every third elementary variant (reduced alphabet) starting within w nt on either side."""
    ref = panel.get(refname)
    L = ref.tx_len(tx)
    out = []
    for p in range(lo, min(hi, L - 1)):
        A = [v for v in small_alphabet(ref, tx, p, True) if v.id().startswith('SNV')]
        B = [v for v in small_alphabet(ref, tx, p + 1, True) if v.id().startswith('SNV')]
        for q in list(range(max(0, p - w), p)) + list(range(p + 2, min(L, p + 2 + w))):
            for c in small_alphabet(ref, tx, q, True):
                if c.end > p and c.start < p + 2 and q < p:
                    continue                     # a deletion reaching into the pair: overlapping, not a third record
                for a in A:
                    for b in B:
                        trip = tuple(sorted((a, b, c), key=lambda v: (v.start, v.end)))
                        out.append(Case(refname, small=trip, cfg=cfg))
        # a third record AT the pair: another allele / an indel anchored at p or p+1 (it overlaps one member of the pair, so
        # it sorts between the two adjacent SNVs: the pair must still be merged for the haplotypes that do not use it)
        for q in (p, p + 1):
            for c in small_alphabet(ref, tx, q, True):
                for a in A:
                    for b in B:
                        if c == a or c == b:
                            continue
                        trip = tuple(sorted((a, b, c), key=lambda v: (v.start, v.end, v.alt)))
                        out.append(Case(refname, small=trip, cfg=cfg))
    return out


def longindel_cases(refname, tx, cfg, lo, hi, dels=(4, 5, 6, 7, 8), inss=('TGCA', 'TGCAT'), gaps=(0, 1, 2, 3)):
    """A long (frame-shifting or not) indel anchored at p in [lo, hi), alone and together with every second elementary
    variant (reduced alphabet) anchored on the first retained base after it or 1..3 nt further on; both inside one exon."""
    ref = panel.get(refname)
    L = ref.tx_len(tx)
    g = ref.gene_of[tx]['gene_id']
    gs = ref.gene_seq(g)
    out = []
    for p in range(lo, min(hi, L)):
        gp = ref.tx_to_gene(tx, p)
        b = gs[gp]
        firsts = []
        for dl in dels:
            if p + dl < L and ref.tx_to_gene(tx, p + dl) - gp == dl:
                firsts.append((CV.Var(g, tx, gp, gp + 1 + dl, gs[gp:gp + 1 + dl], b), dl))
        for i in inss:
            firsts.append((CV.Var(g, tx, gp, gp + 1, b, b + i), 0))
        for a, dl in firsts:
            out.append(Case(refname, small=(a,), cfg=cfg))
            for gap in gaps:
                q = p + 1 + dl + gap
                if q >= L or ref.tx_to_gene(tx, q) - gp != q - p:
                    continue
                for c in small_alphabet(ref, tx, q, True):
                    out.append(Case(refname, small=(a, c), cfg=cfg))
    return out


def small_alphabet_gene(ref: refgen.Ref, tx, gp, dels=(1, 3)):
    """Elementary small variants anchored at GENE position gp (may be intronic: used for variants nested in the donor
    segment of an alt-splicing insertion / substitution): 3 SNVs, insertion of A, deletions of the given lengths."""
    g = ref.gene_of[tx]['gene_id']
    gs = ref.gene_seq(g)
    b = gs[gp]
    out = [CV.Var(g, tx, gp, gp + 1, b, alt) for alt in 'ACGT' if alt != b]
    out.append(CV.Var(g, tx, gp, gp + 1, b, b + 'A'))
    for dl in dels:
        if gp + 1 + dl <= len(gs):
            out.append(CV.Var(g, tx, gp, gp + 1 + dl, gs[gp:gp + 1 + dl], b))
    return out
