"""C17 helpers: designed references, CIRCexplorer row writer, and the reference model (oracle).

Nothing here imports moPepGen.  The oracle starts from *genomic* blocks and the raw annotation
intervals of lib/refgen.Ref and derives (a) whether a row is within the premise of the property
(all blocks are exons of the named transcript / the block is an intron of it within the CLI
tolerances), (b) the gene-coordinate fragments, (c) the id, (d) the circular sequence as the
concatenation of genome slices in transcript orientation."""
from __future__ import annotations
import random
import oracle as O
import refgen

# documented CLI defaults (parseCIRCexplorer --help)
DEFAULT_SRANGE = (-2, 0)
DEFAULT_ERANGE = (-100, 5)
DEFAULT_MIN_READ = 1


# ---- designed genome -----------------------------------------------------------------------
def design_genome(n: int, k: int = 7, salt: int = 17) -> str:
    """Deterministic string of length n in which every k-mer is unique among all k-mers and
    reverse-complement k-mers of the string (k odd => no k-mer is its own reverse complement),
    with no homopolymer run > 3.  Any off-by-one slice, strand mix-up or block swap therefore
    changes the sequence."""
    rnd = random.Random(salt)
    seq = []
    seen = set()

    def ok(c):
        if len(seq) >= 3 and seq[-1] == seq[-2] == seq[-3] == c:
            return False
        if len(seq) + 1 >= k:
            km = ''.join(seq[len(seq) - k + 1:]) + c
            if km in seen or O.revcomp(km) in seen:
                return False
        return True

    stack = []      # per position: remaining candidates
    while len(seq) < n:
        if len(stack) == len(seq):
            cand = list('ACGT')
            rnd.shuffle(cand)
            stack.append(cand)
        cand = stack[-1]
        placed = False
        while cand:
            c = cand.pop()
            if ok(c):
                if len(seq) + 1 >= k:
                    km = ''.join(seq[len(seq) - k + 1:]) + c
                    seen.add(km)
                seq.append(c)
                placed = True
                break
        if not placed:          # backtrack
            stack.pop()
            if not seq:
                raise RuntimeError('genome design failed')
            c = seq.pop()
            if len(seq) + 1 >= k:
                seen.discard(''.join(seq[len(seq) - k + 1:]) + c)
    s = ''.join(seq)
    kms = [s[i:i + k] for i in range(n - k + 1)]
    assert len(set(kms)) == len(kms) and not (set(kms) & {O.revcomp(x) for x in kms})
    return s


def _gene(gid, strand, txs):
    return dict(gene_id=gid, strand=strand, biotype='lncRNA',
                transcripts=[dict(tx_id=t, exons=list(ex), cds=None) for t, ex in txs])


def make_ref(name: str) -> refgen.Ref:
    """R17a: two genes (+ / -), each with two 4-exon isoforms of different exon structure (shared
    and private boundaries, one isoform spanning the whole gene so the other does not start at the
    gene start) and a 3-exon isoform skipping exon 2; one intron of 112 nt per gene so that the
    default end tolerance (-100,5) can be enumerated completely.
    R17b: different geometry (short 5-nt exons, 9-nt introns, gene starting at genome offset 3,
    minus gene ending 4 nt before the chromosome end; single 4-exon isoform + 2-exon isoform)."""
    if name == 'R17a':
        g = design_genome(560, salt=17)
        genes = [
            _gene('ENSG17A', 1, [
                ('ENST17A1', [(30, 48), (60, 75), (90, 101), (213, 233)]),
                ('ENST17A2', [(24, 48), (60, 70), (82, 101), (213, 239)]),
                ('ENST17A3', [(30, 48), (90, 101), (213, 233)]),
            ]),
            _gene('ENSG17B', -1, [
                ('ENST17B1', [(276, 291), (403, 420), (432, 440), (460, 488)]),
                ('ENST17B2', [(270, 291), (403, 417), (432, 445), (460, 494)]),
                ('ENST17B3', [(276, 291), (432, 440), (460, 488)]),
            ]),
        ]
        return refgen.Ref(g, genes, name=name)
    if name == 'R17b':
        g = design_genome(150, salt=29)
        genes = [
            _gene('ENSG17C', -1, [
                ('ENST17C1', [(3, 8), (17, 24), (33, 38), (47, 56)]),
                ('ENST17C2', [(5, 8), (47, 60)]),
            ]),
            _gene('ENSG17D', 1, [
                ('ENST17D1', [(70, 77), (86, 91), (100, 109), (118, 123)]),
                ('ENST17D2', [(66, 77), (118, 146)]),
            ]),
        ]
        return refgen.Ref(g, genes, name=name)
    raise ValueError(name)


# ---- rows ------------------------------------------------------------------------------------
def mk_row(name, tx, kind, blocks, strand, reads=9, fpb=9.0, score=9.0, cls='', chrom='chr1', gene_name='G'):
    return dict(name=name, tx=tx, kind=kind, blocks=[list(b) for b in blocks], strand=strand, reads=reads,
                fpb=fpb, score=score, cls=cls, chrom=chrom, gene_name=gene_name)


def _num(x):
    return repr(float(x)) if not float(x).is_integer() else str(int(x))


def row_text(row, fmt: int) -> str:
    """One line of CIRCexplorer2 `circularRNA_known.txt` (18 columns, BED12 + 6) or CIRCexplorer3
    (+ FPBcirc, FPBlinear, CIRCscore)."""
    bl = sorted(tuple(b) for b in row['blocks'])
    start, end = bl[0][0], bl[-1][1]
    sizes = ','.join(str(e - s) for s, e in bl)
    offs = ','.join(str(s - start) for s, e in bl)
    idx = ','.join(str(i + 1) for i in range(len(bl)))
    flank = f"{row['chrom']}:{max(0, start - 40)}-{start}|{row['chrom']}:{end}-{end + 40}"
    f = [row['chrom'], start, end, f"circular_RNA/{row['name']}", 0, '+' if row['strand'] == 1 else '-',
         start, start, '0,0,0', len(bl), sizes, offs, row['reads'], row['kind'], row['gene_name'], row['tx'],
         idx, flank]
    if fmt == 3:
        f += [_num(row['fpb']), _num(1.5), _num(row['score'])]
    return '\t'.join(str(x) for x in f)


def cfg_argv(cfg):
    """CLI arguments of a configuration; documented defaults are left to the tool."""
    a = []
    if cfg['fmt'] == 3:
        a.append('--circexplorer3')
    if cfg.get('min_read') is not None:
        a += ['--min-read-number', cfg['min_read']]
    if cfg.get('min_fpb') is not None:
        a += ['--min-fpb-circ', cfg['min_fpb']]
    if cfg.get('min_score') is not None:
        a += ['--min-circ-score', cfg['min_score']]
    if cfg.get('srange') is not None:
        a += ['--intron-start-range', '%d,%d' % tuple(cfg['srange'])]
    if cfg.get('erange') is not None:
        a += ['--intron-end-range', '%d,%d' % tuple(cfg['erange'])]
    if cfg.get('skip_failed'):
        a.append('--skip-failed')
    return a


def cfg_key(cfg):
    def r(x):
        return 'dflt' if x is None else '%d,%d' % tuple(x)
    return (f"ce{cfg['fmt']}/r{cfg.get('min_read')}/f{cfg.get('min_fpb')}/c{cfg.get('min_score')}"
            f"/s{r(cfg.get('srange'))}/e{r(cfg.get('erange'))}" + ('/skip-failed' if cfg.get('skip_failed') else ''))


# ---- oracle ----------------------------------------------------------------------------------
def to_gene(R: refgen.Ref, gene_id, block):
    """Genomic half-open block -> gene-coordinate half-open interval (minus strand mirrors)."""
    gs, ge = R.gene_span(gene_id)
    s, e = block
    if R.gene[gene_id]['strand'] == 1:
        return (s - gs, e - gs)
    return (ge - e, ge - s)


def introns_genomic(R, tx):
    ex = R.tx[tx]['exons']
    return [(a[1], b[0]) for a, b in zip(ex, ex[1:])]


def passes_threshold(cfg, row):
    mr = DEFAULT_MIN_READ if cfg.get('min_read') is None else cfg['min_read']
    if row['reads'] < mr:
        return False
    if cfg['fmt'] == 3:
        if cfg.get('min_fpb') is not None and row['fpb'] < cfg['min_fpb']:
            return False
        if cfg.get('min_score') is not None and row['score'] < cfg['min_score']:
            return False
    return True


def expected(R: refgen.Ref, cfg, row):
    """-> dict(verdict=...) with verdict in
         'emit'            inside the premise; all details given
         'skip-threshold'  insufficient evidence
         'skip-nomatch'    a block is no exon of the transcript / the block is no intron of it within
                           the tolerances (counted as invalid record)
         'skip-unknown-tx' the named isoform is not annotated (must be skipped and counted)
         'skip-outside'    a block leaves the gene span (cannot be an exon/intron; skipped and counted)
    """
    if not passes_threshold(cfg, row):
        return dict(verdict='skip-threshold')
    tx = row['tx']
    if tx not in R.tx:
        return dict(verdict='skip-unknown-tx')
    g = R.gene_of[tx]
    gid, strand = g['gene_id'], g['strand']
    gs, ge = R.gene_span(gid)
    blocks = sorted(tuple(b) for b in row['blocks'])
    if any(s < gs or e > ge for s, e in blocks):
        return dict(verdict='skip-outside')
    if row['kind'] == 'circRNA':
        exons = set(tuple(x) for x in R.tx[tx]['exons'])
        if not all(b in exons for b in blocks):
            return dict(verdict='skip-nomatch')
        intron_idx = []
    else:
        sr = DEFAULT_SRANGE if cfg.get('srange') is None else tuple(cfg['srange'])
        er = DEFAULT_ERANGE if cfg.get('erange') is None else tuple(cfg['erange'])
        if len(blocks) != 1:
            return dict(verdict='skip-nomatch')
        a, b = to_gene(R, gid, blocks[0])
        hit = False
        for it in introns_genomic(R, tx):
            ia, ib = to_gene(R, gid, it)
            so, eo = a - ia, b - ib          # offsets in transcript orientation
            # end before the annotated intron end is accepted whatever the end range
            # (test_to_convert_ci_rna_fuzzy_end_* pin this with the range (0,0))
            if sr[0] <= so <= sr[1] and (er[0] <= eo <= er[1] or eo <= 0):
                hit = True
        if not hit:
            return dict(verdict='skip-nomatch')
        intron_idx = [0]
    frags = sorted(to_gene(R, gid, b) for b in blocks)
    if strand == 1:
        seq = ''.join(R.genome[s:e] for s, e in blocks)
    else:
        seq = ''.join(O.revcomp(R.genome[s:e]) for s, e in reversed(blocks))
    return dict(verdict='emit', gene_id=gid, tx=tx, frags=[list(f) for f in frags],
                id=f'CIRC-{tx}-{frags[0][0]}:{frags[-1][1]}', seq=seq, intron_idx=intron_idx,
                ftype='exon' if row['kind'] == 'circRNA' else 'intron',
                gene_symbol=gid + 'N', genomic_position=f"{row['chrom']}:{blocks[0][0]}:{blocks[-1][1]}")


# ---- independent GVF reader -------------------------------------------------------------------
def read_gvf(text: str):
    out = []
    for line in text.splitlines():
        if not line or line.startswith('#'):
            continue
        f = line.split('\t')
        info = {}
        for kv in f[7].split(';'):
            k, _, v = kv.partition('=')
            info[k] = v
        pos = int(f[1])
        offs = [int(x) for x in info['OFFSET'].split(',')]
        lens = [int(x) for x in info['LENGTH'].split(',')]
        out.append(dict(gene=f[0], pos=pos, id=f[2], ref=f[3], alt=f[4],
                        frags=[[pos + o, pos + o + n] for o, n in zip(offs, lens)],
                        intron=[int(x) for x in info['INTRON'].split(',')] if info.get('INTRON') else [],
                        tx=info.get('TRANSCRIPT_ID'), symbol=info.get('GENE_SYMBOL'),
                        genomic_position=info.get('GENOMIC_POSITION'), line=line))
    return out
