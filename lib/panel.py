"""The synthetic reference panel (DESIGN §3.2).  Sequences are designed, not random: the proteins
contain every trypsin special case (KP, RP, WKP, MRP), every exception context (CKD, DKD, CKH, CKY,
CRK, RRH, RRR), W (for W2F), in-frame / out-of-frame ATGs and stops, and codons split by exon
junctions."""
from __future__ import annotations
import refgen, oracle as O

PAD = 'ACGTTGCAAC'
UTR5 = 'GGCACC'
I1 = 'GTAAGTCCTTCCTTCCAG'
I2 = 'GTGAGTAAACCCTTTTCAG'
I3 = 'GTATGTCTCGATTTACAG'


def _place(genome_parts):
    """genome_parts: list of str -> (genome, offsets)"""
    g = ''
    offs = []
    for p in genome_parts:
        offs.append(len(g))
        g += p
    return g, offs


def _gene_plus(off, tx, cuts, introns):
    """Split tx at `cuts` inserting introns; returns (gene_dna, exons_genomic)."""
    parts = []
    exons = []
    prev = 0
    pos = off
    dna = ''
    for c, intr in zip(list(cuts) + [len(tx)], list(introns) + ['']):
        seg = tx[prev:c]
        exons.append((pos, pos + len(seg)))
        dna += seg + intr
        pos += len(seg) + len(intr)
        prev = c
    return dna, exons


def tx_to_genomic_plus(exons, p):
    for a, b in exons:
        if p < b - a:
            return a + p
        p -= b - a
    return exons[-1][1]


def R1():
    """coding, +, one exon; stop then a second in-frame stop in the 3'UTR."""
    aas = 'MKTAYIAKQRPISFVKSHWKPSRCKDGLIRRHVQAMRPLSRCKYQDNCRKAEK'
    cds = O.back_translate(aas)
    utr3 = 'GGCTTAGCCAAACGTGCTGCTGAAGCTTGGCTTAAGTAAGG'    # read-through after stop loss ends at a second in-frame stop
    tx = UTR5 + cds + 'TAA' + utr3
    genome = PAD + tx + PAD
    e = (len(PAD), len(PAD) + len(tx))
    return refgen.Ref(genome, [dict(gene_id='ENSG01', strand=1, transcripts=[
        dict(tx_id='ENST01', exons=[e], cds=(e[0] + len(UTR5), e[0] + len(UTR5) + len(cds)))])], name='R1')


def R2():
    """coding, -, three exons, codons split by junctions."""
    aas = 'MKTAYIAKQRPISFVKSHWKPSRCKDGLIRRHVQAMRPLSRCKYQDN'
    cds = O.back_translate(aas)
    utr3 = 'GGCTTAGCCAAACGTGCTTAAGG'
    tx = UTR5 + cds + 'TGA' + utr3
    cuts = (6 + 40, 6 + 95)                      # both split codons (40 % 3 = 1, 95 % 3 = 2)
    dna, exons = _gene_plus(0, tx, cuts, (I1, I2))
    n = len(dna)
    genome = PAD + O.revcomp(dna) + PAD
    off = len(PAD)
    # mirror exon coordinates
    gex = sorted((off + n - b, off + n - a) for a, b in exons)
    cds_s_tx, cds_e_tx = 6, 6 + len(cds)
    a = tx_to_genomic_plus(exons, cds_s_tx)
    b = tx_to_genomic_plus(exons, cds_e_tx - 1) + 1
    cds_g = (off + n - b, off + n - a)
    return refgen.Ref(genome, [dict(gene_id='ENSG02', strand=-1, transcripts=[
        dict(tx_id='ENST02', exons=gex, cds=cds_g)])], name='R2')


NC_TX = ('GGCACCATGAAAACTGCTTATATTGCTAAACAACGTCAAATTTCATGGTCTTTTGTTAAATCTCATTTTTCTCGTCAACTGGAAGAACGTCTGGGT'
         'CTGATTGAAGTTCAAGCTCCTATTCTGTCTCGAATGCTGTTGGTGATGGTACTCAAGATAATCTGTCTGGTGCTGAAAAAGCTGTTCAAGTTAAAG'
         'TTAAAGCTCTGCCTGATGCTCAATTTGAAGTTGTTTAAGGCTTAGCCAAACGTGCTGCTGAAGCTGCTTAAGG')
CODING_MINI = 'GGGATGAAAGCTGCTGCTGCTGCTGCTGCTGCTGCTGCTGCTGCTGCTGCTGCTTAAGGGACGT'


def R3():
    """non-coding, +, ATGs in all three frames, nested ORFs; plus a tiny coding gene (canonical pool)."""
    tx = NC_TX[:150]
    genome = PAD + tx + PAD
    o2 = len(genome)
    genome += CODING_MINI
    return refgen.Ref(genome, [
        dict(gene_id='ENSG03', strand=1, biotype='lncRNA', transcripts=[
            dict(tx_id='ENST03', exons=[(len(PAD), len(PAD) + len(tx))], cds=None)]),
        dict(gene_id='ENSG09', strand=1, transcripts=[
            dict(tx_id='ENST09', exons=[(o2, o2 + 60)], cds=(o2 + 3, o2 + 54))]),
    ], name='R3')


def R4():
    """coding, cds_start_NF, CDS frame 1 (one base to skip)."""
    aas = 'KTAYIAKQRPISFVKSHWKPSRCKDGLIRRHVQAMRPLSR'
    cds = 'G' + O.back_translate(aas)              # phase 1
    utr3 = 'GGCTTAGCCAAACGTGCTTAAGG'
    tx = cds + 'TAA' + utr3
    genome = PAD + tx + PAD
    e = (len(PAD), len(PAD) + len(tx))
    return refgen.Ref(genome, [dict(gene_id='ENSG04', strand=1, transcripts=[
        dict(tx_id='ENST04', exons=[e], cds=(e[0], e[0] + len(cds)), tags=['cds_start_NF'], cds_phase=1)])],
        name='R4')


def R5():
    """coding, mRNA_end_NF: the CDS runs to the transcript end (no stop, no 3'UTR)."""
    aas = 'MKTAYIAKQRPISFVKSHWKPSRCKDGLIRRHVQAMRPLSRCKYQDN'
    cds = O.back_translate(aas)
    tx = UTR5 + cds
    genome = PAD + tx + PAD
    e = (len(PAD), len(PAD) + len(tx))
    return refgen.Ref(genome, [dict(gene_id='ENSG05', strand=1, transcripts=[
        dict(tx_id='ENST05', exons=[e], cds=(e[0] + len(UTR5), e[1]), tags=['mRNA_end_NF'])])], name='R5')


def R6():
    """selenoprotein: two annotated Sec codons, several W."""
    aas = 'MKTAWIAKQRPISUVKSHWKPSRCKDGLIRWHVQAUMRPLSRCKWQDN'
    cds = O.back_translate(aas)
    utr3 = 'GGCTTAGCCAAACGTGCTTAAGG'
    tx = UTR5 + cds + 'TAA' + utr3
    genome = PAD + tx + PAD
    off = len(PAD)
    secs = [(off + 6 + 3 * i, off + 6 + 3 * i + 3) for i, a in enumerate(aas) if a == 'U']
    e = (off, off + len(tx))
    return refgen.Ref(genome, [dict(gene_id='ENSG06', strand=1, transcripts=[
        dict(tx_id='ENST06', exons=[e], cds=(off + 6, off + 6 + len(cds)), sec=secs)])], name='R6')


def R7():
    """two genes (+ / -), three exons each; gene A has two coding isoforms and one non-coding isoform."""
    aa_a = 'MKTAYIAKQRQISFVKSHFSRQLEERLGLIEVQAPILSRVGDGTQDNLSGAEK'
    aa_b = 'MSDNGPQNQRNAPRITFGGPSDSTGSNQNGERSGARSKQRRPQGLPNNTASWFTALTQHGK'
    u3 = 'GGCTTAGCC'
    tx_a = UTR5 + O.back_translate(aa_a) + 'TGA' + u3
    cuts_a = (6 + 40, 6 + 100)
    dna_a, ex_a = _gene_plus(len(PAD), tx_a, cuts_a, (I1, I2))
    tx_b = UTR5 + O.back_translate(aa_b) + 'TAA' + u3
    cuts_b = (6 + 50, 6 + 121)
    dna_b, ex_b_local = _gene_plus(0, tx_b, cuts_b, (I3, I1))
    spacer = 'T' * 20
    off_b = len(PAD) + len(dna_a) + len(spacer)
    nb = len(dna_b)
    genome = PAD + dna_a + spacer + O.revcomp(dna_b) + PAD
    ex_b = sorted((off_b + nb - b, off_b + nb - a) for a, b in ex_b_local)
    cds_a = (ex_a[0][0] + 6, tx_to_genomic_plus(ex_a, 6 + 3 * len(aa_a) - 1) + 1)
    a_ = tx_to_genomic_plus(ex_b_local, 6)
    b_ = tx_to_genomic_plus(ex_b_local, 6 + 3 * len(aa_b) - 1) + 1
    cds_b = (off_b + nb - b_, off_b + nb - a_)
    # isoform 2 of gene A: exon 2 skipped (40 + (100-40)=60 nt removed -> in frame)
    iso2 = [ex_a[0], ex_a[2]]
    return refgen.Ref(genome, [
        dict(gene_id='ENSG0A', strand=1, transcripts=[
            dict(tx_id='ENST0A1', exons=ex_a, cds=cds_a),
            dict(tx_id='ENST0A2', exons=iso2, cds=cds_a),
            dict(tx_id='ENST0A3', exons=ex_a[:2], cds=None, biotype='retained_intron')]),
        dict(gene_id='ENSG0B', strand=-1, transcripts=[
            dict(tx_id='ENST0B1', exons=ex_b, cds=cds_b)]),
    ], name='R7')


def R8():
    """non-coding, +, three exons (alt-splicing / circRNA backbone) + tiny coding gene."""
    tx = NC_TX
    tx = tx[:40] + 'CATGG' + tx[40:120] + 'AATGC' + tx[120:]
    cuts = (70, 170)
    dna, ex = _gene_plus(len(PAD), tx, cuts, (I1, I2))
    genome = PAD + dna + PAD
    o2 = len(genome)
    genome += CODING_MINI
    return refgen.Ref(genome, [
        dict(gene_id='ENSG08', strand=1, biotype='lncRNA', transcripts=[
            dict(tx_id='ENST08', exons=ex, cds=None)]),
        dict(gene_id='ENSG09', strand=1, transcripts=[
            dict(tx_id='ENST09', exons=[(o2, o2 + 60)], cds=(o2 + 3, o2 + 54))]),
    ], name='R8')


def R9():
    """coding, +, one exon, NO trypsin-exception context in the reference protein (exception-on blocks)."""
    aas = 'MKTAYIAKQRQISFVKSHFSRQLEERLGLIEVQAPILSRVGDGTQDNLSGAEK'
    cds = O.back_translate(aas)
    utr3 = 'GGCTTAGCCAAACGTGCTGCTGAAGCTGCTTAAGG'
    tx = UTR5 + cds + 'TAA' + utr3
    genome = PAD + tx + PAD
    e = (len(PAD), len(PAD) + len(tx))
    return refgen.Ref(genome, [dict(gene_id='ENSG10', strand=1, transcripts=[
        dict(tx_id='ENST10', exons=[e], cds=(e[0] + len(UTR5), e[0] + len(UTR5) + len(cds)))])], name='R9')


def R11():
    """non-coding, +, two exons; exon 2 is a 100-nt stretch without T: no ATG and no stop codon in any frame, so a
    circRNA of exon 2 has an ORF only through a start-gain variant (ACG>ATG, AGG>ATG) and that ORF stays open across
    loops (length 100 is not a multiple of 3: every loop is read in another frame).  + tiny coding gene."""
    ex1 = 'GGCACCATGGCTAAAGCTTGTCGTGATTAAGGCTTAGCCGATCGT'
    ex2 = ('GACGGCAAGCCAGGACGCAAGGCACGGAGCAAAGGCCGAGACGCGGCAAGACGGACCAGGCGAAGCCACGGCAGACGGAAAGCCGCAGGACGAGCAAGGCC')
    ex2 = ex2[:100]
    assert len(ex2) == 100 and 'T' not in ex2
    tx = ex1 + ex2
    dna, ex = _gene_plus(len(PAD), tx, (len(ex1),), (I1,))
    genome = PAD + dna + PAD
    o2 = len(genome)
    genome += CODING_MINI
    return refgen.Ref(genome, [
        dict(gene_id='ENSG11', strand=1, biotype='lncRNA', transcripts=[dict(tx_id='ENST11C', exons=ex, cds=None)]),
        dict(gene_id='ENSG09', strand=1, transcripts=[dict(tx_id='ENST09', exons=[(o2, o2 + 60)], cds=(o2 + 3, o2 + 54))]),
    ], name='R11')


def R12():
    """non-coding, +, three exons; exon 2 is a 32-nt circle candidate whose ORF (ATG at circle index 8) runs round the
    circle (32 is not a multiple of 3) and, on its later passes, re-reads the positions just 5' of its own start codon."""
    ex1 = 'GGCACCGCTAAAGCTTGTCGTGATTAAGGCTTAGCCGATCGT'
    ex2 = 'CTGGTTAAATGACTGCTAGAGAGTCAGGTGAA'
    ex3 = 'GGCTTAGCCAAACGTGCTGCTGAAGCTTAAGG'
    tx = ex1 + ex2 + ex3
    dna, ex = _gene_plus(len(PAD), tx, (len(ex1), len(ex1) + len(ex2)), (I1, I2))
    genome = PAD + dna + PAD
    o2 = len(genome)
    genome += CODING_MINI
    return refgen.Ref(genome, [
        dict(gene_id='ENSG12', strand=1, biotype='lncRNA', transcripts=[dict(tx_id='ENST12C', exons=ex, cds=None)]),
        dict(gene_id='ENSG09', strand=1, transcripts=[dict(tx_id='ENST09', exons=[(o2, o2 + 60)], cds=(o2 + 3, o2 + 54))]),
    ], name='R12')


PANEL = {'R12': R12, 'R9': R9, 'R1': R1, 'R2': R2, 'R3': R3, 'R4': R4, 'R5': R5, 'R6': R6, 'R7': R7, 'R8': R8, 'R11': R11}
_cache = {}


def get(name) -> refgen.Ref:
    if name not in _cache:
        _cache[name] = PANEL[name]()
    return _cache[name]


def R10():
    """six two-exon genes (3 coding +, 1 coding -, 2 non-coding) for dispatch / layout / fault checks."""
    prots = ['MKTAYIAKQRQISFVKSHFSRQLEERLGLIEVQ', 'MSDNGPQNQRNAPRITFGGPSDSTGSNQNGERSGAR',
             'MAPILSRVGDGTQDNLSGAEKAVQVKVKALPDAQFEVV', 'MKLTWFTALTQHGKEDLKFPRGQGVPINTNSSPDDQIGYYR']
    genome = PAD
    genes = []
    for k in range(6):
        if k < 4:
            tx = UTR5 + O.back_translate(prots[k]) + 'TAA' + 'GGCTTAGCC'
        else:
            tx = NC_TX[30 * (k - 4):30 * (k - 4) + 120]
        cut = 6 + 40 + k
        dna, ex = _gene_plus(0, tx, (cut,), (I1 if k % 2 else I2,))
        strand = -1 if k == 3 else 1
        off = len(genome)
        n = len(dna)
        if strand == 1:
            genome += dna
            gex = [(off + a, off + b) for a, b in ex]
            cds = (off + 6, off + tx_to_genomic_plus(ex, 6 + 3 * len(prots[k]) - 1) + 1) if k < 4 else None
        else:
            genome += O.revcomp(dna)
            gex = sorted((off + n - b, off + n - a) for a, b in ex)
            a_ = tx_to_genomic_plus(ex, 6)
            b_ = tx_to_genomic_plus(ex, 6 + 3 * len(prots[k]) - 1) + 1
            cds = (off + n - b_, off + n - a_)
        genome += 'T' * 15
        g = dict(gene_id=f'ENSG1{k}', strand=strand, transcripts=[dict(tx_id=f'ENST1{k}', exons=gex, cds=cds)])
        if k >= 4:
            g['biotype'] = 'lncRNA'
        genes.append(g)
    genome += PAD
    return refgen.Ref(genome, genes, name='R10')


PANEL['R10'] = R10
