"""C11 helper: annotation grammar, GTF writer (several real-world styles), the independent
expectations (from raw intervals, via refgen.Ref + plain arithmetic here) and canonical forms of
the implementation's models.  Nothing here calls moPepGen to compute an *expected* value."""
from __future__ import annotations
import itertools
from pathlib import Path
import refgen
import oracle as O


# ---- genome ---------------------------------------------------------------------------------
def _de_bruijn(alphabet: str, n: int) -> str:
    k = len(alphabet)
    a = [0] * k * n
    seq = []

    def db(t, p):
        if t > n:
            if n % p == 0:
                seq.extend(a[1:p + 1])
        else:
            a[t] = a[t - p]
            db(t + 1, p)
            for j in range(a[t - p] + 1, k):
                a[t] = j
                db(t + 1, t)
    db(1, 1)
    return ''.join(alphabet[i] for i in seq)


# every 3-mer occurs exactly once: any shifted / mis-oriented slice of >= 3 nt differs
GENOME = (lambda s: s[5:] + s[:5] + s[5:7])(_de_bruijn('GACT', 3))
G0 = 12            # genomic start of the grammar transcript T1
GENE = 'ENSG0001'
T1 = 'ENST0001'


# ---- grammar --------------------------------------------------------------------------------
def structures(lens=(1, 2, 3, 5), introns=(1, 3), max_exons=3):
    for n in range(1, max_exons + 1):
        for ex in itertools.product(lens, repeat=n):
            for it in itertools.product(introns, repeat=n - 1):
                yield ex, it


def exons_genomic(ex, it, start=G0):
    out = []
    p = start
    for i, ln in enumerate(ex):
        out.append((p, p + ln))
        p += ln
        if i < len(it):
            p += it[i]
    return out


def cds_variants(L):
    """(kind, a, b, phase) in transcript coordinates; [a,b) = CDS records (stop excluded)."""
    yield ('none', None, None, 0)
    for a in range(L):
        for b in range(a + 3, L - 2, 3):
            yield ('complete', a, b, 0)
    for f in (1, 2):
        for a in range(L):
            for b in range(a + f + 3, L - 2, 3):
                yield (f'startNF{f}', a, b, f)
    for a in range(L):
        yield ('endNF', a, L, 0)
    for f in (1, 2):
        for a in range(L - f):
            yield (f'startNF{f}+endNF', a, L, f)


def sec_variants(a, b, phase, mode='all'):
    """Lists of Sec codon starts (transcript coordinates, in frame, inside the CDS)."""
    if a is None:
        return [()]
    cod = [p for p in range(a + phase, b - 2, 3)]
    out = [()]
    if mode == 'none':
        return out
    out += [(p,) for p in cod]
    if len(cod) >= 2:
        out.append(tuple(cod))
    return out


STYLES = {
    # utr: where 3'UTR records begin; codons: start_codon/stop_codon records; order of the lines
    'S0': dict(utr='after_stop', codons=False, order='tx', ensembl=False),
    'S1': dict(utr='incl_stop', codons=False, order='asc', ensembl=False),
    'S2': dict(utr='incl_stop', codons=True, order='tx', ensembl=False),      # what GENCODE ships
    'S3': dict(utr='after_stop', codons=True, order='tx', ensembl=True),      # what ENSEMBL ships
    # S2 with multi-byte UTF-8 text in a header comment and in an attribute the models do not keep (bytes != characters)
    'S4': dict(utr='incl_stop', codons=True, order='tx', ensembl=False, utf8=True),
}
CONTEXTS = ('alone', 'outer', 'outer-first', 'left', 'right', 'nested')


class Case:
    """One annotation: T1 from the grammar inside a gene context, in a GTF style."""

    def __init__(self, strand, ex, it, cds, sec=(), ctx='alone', style='S0'):
        self.strand, self.ex, self.it = strand, tuple(ex), tuple(it)
        self.kind, self.a, self.b, self.phase = cds
        self.sec = tuple(sec)
        self.ctx, self.style = ctx, style

    def spec(self):
        return dict(strand=self.strand, ex=list(self.ex), it=list(self.it),
                    cds=[self.kind, self.a, self.b, self.phase], sec=list(self.sec), ctx=self.ctx, style=self.style)

    @staticmethod
    def from_spec(d):
        return Case(d['strand'], d['ex'], d['it'], tuple(d['cds']), d['sec'], d['ctx'], d['style'])

    def ident(self):
        return (f"{'+' if self.strand == 1 else '-'}/ex{','.join(map(str, self.ex))}/in{','.join(map(str, self.it))}"
                f"/{self.kind}:{self.a}-{self.b}/sec{','.join(map(str, self.sec))}/{self.ctx}/{self.style}")

    def qual(self):
        return f"strand={'+' if self.strand == 1 else '-'}/cds={self.kind}"


class TxSpec:
    """A transcript in transcript-oriented description; projects onto genomic records."""

    def __init__(self, tx_id, gene_id, strand, exons, a=None, b=None, phase=0, kind='none', sec=(), biotype=None):
        self.tx_id, self.gene_id, self.strand = tx_id, gene_id, strand
        self.exons = list(exons)                     # genomic ascending
        self.a, self.b, self.phase, self.kind = a, b, phase, kind
        self.sec = tuple(sec)
        self.biotype = biotype
        self.L = sum(e - s for s, e in self.exons)
        self.tags = []
        if 'startNF' in kind:
            self.tags.append('cds_start_NF')
            self.tags.append('mRNA_start_NF')
        if 'endNF' in kind:
            self.tags.append('mRNA_end_NF')
        if self.a is not None:
            self.tags.append('basic')

    def g(self, k):
        """genomic position of transcript index k (independent of the implementation)."""
        order = self.exons if self.strand == 1 else self.exons[::-1]
        for s, e in order:
            if k < e - s:
                return s + k if self.strand == 1 else e - 1 - k
            k -= e - s
        raise IndexError(k)

    def project(self, lo, hi):
        """transcript interval [lo,hi) -> genomic pieces (one per exon) in transcript order."""
        out = []
        off = 0
        order = self.exons if self.strand == 1 else self.exons[::-1]
        for s, e in order:
            ln = e - s
            x, y = max(lo, off), min(hi, off + ln)
            if x < y:
                if self.strand == 1:
                    out.append((s + x - off, s + y - off))
                else:
                    out.append((e - (y - off), e - (x - off)))
            off += ln
        return out

    def utr3_start(self, utr_style):
        """transcript index where the 3'UTR records begin (== L: there is none)."""
        if self.a is None:
            return None
        if self.b >= self.L:
            return self.L
        return min(self.L, self.b + 3) if utr_style == 'after_stop' else self.b

    def refgen_tx(self):
        d = dict(tx_id=self.tx_id, exons=self.exons, cds=None, tags=list(self.tags), sec=[], cds_phase=self.phase,
                 biotype=self.biotype)
        if self.a is not None:
            x, y = self.g(self.a), self.g(self.b - 1)
            d['cds'] = (min(x, y), max(x, y) + 1)
            for p in self.sec:
                x, y = self.g(p), self.g(p + 2)
                d['sec'].append((min(x, y), max(x, y) + 1))
        return d


def build(case: Case):
    """-> (Ref, [TxSpec of every transcript in file order grouped by gene], gene order)"""
    ex = exons_genomic(case.ex, case.it)
    s, e = ex[0][0], ex[-1][1]
    t1 = TxSpec(T1, GENE, case.strand, ex, case.a, case.b, case.phase, case.kind, case.sec)
    txs = [t1]
    ctx = case.ctx
    if ctx in ('outer', 'outer-first'):
        t2 = TxSpec('ENST0002', GENE, case.strand, [(s - 4, s - 2), (e + 1, e + 3)], biotype='lncRNA')
        txs = [t1, t2] if ctx == 'outer' else [t2, t1]
    elif ctx == 'left':
        t2 = TxSpec('ENST0002', GENE, case.strand, [(s - 3, s - 1), (ex[0][0], ex[0][1])], biotype='lncRNA')
        txs = [t1, t2]
    elif ctx == 'right':
        t2 = TxSpec('ENST0002', GENE, case.strand, [(ex[-1][0], ex[-1][1] + 2)], biotype='lncRNA')
        txs = [t1, t2]
    elif ctx == 'nested':
        # a coding isoform that shares T1's first genomic exon start and runs 5 nt further right
        e2 = max(e, s + 4)            # (T1 may be shorter than 4 nt: keep the two exons of T2 apart)
        ex2 = [(s, s + 4), (e2 + 2, e2 + 7)]
        t2 = TxSpec('ENST0002', GENE, case.strand, ex2, 1, 4, 0, 'complete')
        txs = [t2, t1]
    genes = [(GENE, case.strand, txs)]
    if ctx != 'alone':
        ga = TxSpec('ENST0A01', 'ENSG0A', -case.strand, [(2, 5)], biotype='lncRNA')
        gb_ex = [(e + 10, e + 14), (e + 16, e + 22)]
        gb = TxSpec('ENST0B01', 'ENSG0B', case.strand, gb_ex, 1, 7, 0, 'complete')
        genes = [('ENSG0A', -case.strand, [ga])] + genes + [('ENSG0B', case.strand, [gb])]
    rgenes = []
    for gid, st, tl in genes:
        coding = any(t.a is not None for t in tl)
        rgenes.append(dict(gene_id=gid, strand=st, biotype='protein_coding' if coding else 'lncRNA',
                           transcripts=[t.refgen_tx() for t in tl]))
    ref = refgen.Ref(GENOME, rgenes, chrom='1' if STYLES[case.style]['ensembl'] else 'chr1')
    return ref, genes


# ---- GTF writer -----------------------------------------------------------------------------
def line_specs(ref: refgen.Ref, genes, style: dict):
    """Records as dicts (type, start, end, strand, frame, attrs{kept attributes}, tx) in file order."""
    ens = style['ensembl']
    bkey = 'gene_biotype' if ens else 'gene_type'
    out = []
    for gid, st, txs in genes:
        gs, ge = ref.gene_span(gid)
        gbt = ref.gene[gid]['biotype']
        gattr = [('gene_id', gid), (bkey, gbt), ('gene_name', gid + 'N')]
        out.append(dict(type='gene', start=gs, end=ge, strand=st, frame=None, attrs=list(gattr), tx=None, gene=gid))
        for t in txs:
            tattr = list(gattr) + [('transcript_id', t.tx_id)]
            prot = [('protein_id', refgen.protein_id(t.tx_id))] if t.a is not None else []
            tags = [('tag', x) for x in t.tags]
            full = tattr + ([] if ens else prot) + tags       # ENSEMBL: protein_id on CDS lines only
            recs = []

            def add(typ, iv, frame=None, attrs=None, key=0):
                recs.append((key, dict(type=typ, start=iv[0], end=iv[1], strand=st, frame=frame,
                                       attrs=list(attrs if attrs is not None else full), tx=t.tx_id, gene=gid)))
            ts, te = t.exons[0][0], t.exons[-1][1]
            head = dict(type='transcript', start=ts, end=te, strand=st, frame=None, attrs=list(full), tx=t.tx_id, gene=gid)
            order = t.exons if st == 1 else t.exons[::-1]
            for i, iv in enumerate(order):
                add('exon', iv, key=(i, 0))
            if t.a is not None:
                consumed = -t.phase
                for iv in t.project(t.a, t.b):
                    i = order.index(next(x for x in order if x[0] <= iv[0] < x[1]))
                    add('CDS', iv, frame=(3 - consumed % 3) % 3, attrs=tattr + prot + tags, key=(i, 1))
                    consumed += iv[1] - iv[0]
                if style['codons']:
                    if 'startNF' not in t.kind:
                        for iv in t.project(t.a, t.a + 3):
                            add('start_codon', iv, frame=0, key=(90, 0))
                    if t.b < t.L:
                        for iv in t.project(t.b, min(t.L, t.b + 3)):
                            add('stop_codon', iv, frame=0, key=(90, 1))
                u3 = t.utr3_start(style['utr'])
                five = t.project(0, t.a)
                three = t.project(u3, t.L)
                if ens:
                    for iv in five:
                        add('five_prime_utr', iv, key=(91, 0))
                    for iv in three:
                        add('three_prime_utr', iv, key=(91, 1))
                else:
                    for iv in five + three:
                        add('UTR', iv, key=(91, 0))
                for p in t.sec:
                    x, y = t.g(p), t.g(p + 2)
                    add('Selenocysteine', (min(x, y), max(x, y) + 1), key=(92, 0))
            if style['order'] == 'asc':
                typ_rank = {'exon': 0, 'CDS': 1, 'start_codon': 2, 'stop_codon': 3, 'UTR': 4, 'five_prime_utr': 4,
                            'three_prime_utr': 5, 'Selenocysteine': 6}
                recs.sort(key=lambda r: (typ_rank[r[1]['type']], r[1]['start']))
            else:
                recs.sort(key=lambda r: r[0])          # stable: exon i, its CDS, ..., then codons/UTR/Sec
            out.append(head)
            out.extend(r for _, r in recs)
    return out


UNKEPT = ' level "2"; havana_gene "OTTHUMG1";'


def gtf_text(chrom, specs, header=True, utf8=False):
    lines = ['##description: synthetic annotation for C11' + (' (annot\u00e9e, \u03b2)' if utf8 else ''), '##provider: verif'] if header else []
    for r in specs:
        attrs = ' '.join(f'{k} "{v}";' for k, v in r['attrs'])
        if r['type'] != 'gene':
            attrs += f' transcript_type "x"; transcript_name "{r["tx"]}N' + ('\u03b21' if utf8 else '') + '";'
        attrs += UNKEPT
        lines.append('\t'.join([chrom, 'HAVANA', r['type'], str(r['start'] + 1), str(r['end']), '.',
                                '+' if r['strand'] == 1 else '-', '.' if r['frame'] is None else str(r['frame']), attrs]))
    return '\n'.join(lines) + '\n'


# ---- expectations from the raw description ----------------------------------------------------
FEATURE_FIELD = {'cds': 'cds', 'exon': 'exon', 'start_codon': 'start_codon', 'stop_codon': 'stop_codon', 'utr': 'utr',
                 'selenocysteine': 'selenocysteine', 'five_prime_utr': 'five_utr', 'three_prime_utr': 'three_utr'}
TX_LISTS = ('cds', 'exon', 'start_codon', 'stop_codon', 'utr', 'five_utr', 'three_utr', 'selenocysteine')


def _attrs_canon(pairs):
    d = {}
    for k, v in pairs:
        if k == 'tag':
            d.setdefault('tag', []).append(v)
        else:
            d[k] = v
    return tuple(sorted((k, tuple(v) if isinstance(v, list) else v) for k, v in d.items()))


def expected_models(ref, genes, specs, style, chrom):
    """The 'dictionary model': canonical gene and transcript models computed from the record
    descriptions.  Attributes of sub-records are predicted only for the uniform (GENCODE) styles."""
    src = 'ENSEMBL' if style['ensembl'] else 'GENCODE'
    eg, et = {}, {}

    def feat(r, rid):
        return (r['type'], chrom, r['start'], r['end'], r['strand'], chrom, r['frame'],
                None if style['ensembl'] and r['type'] != 'gene' else _attrs_canon(r['attrs']), rid)
    tspec = {t.tx_id: t for _, _, tl in genes for t in tl}
    for r in specs:
        if r['type'] == 'gene':
            eg[r['gene']] = dict(feature=feat(r, '<unknown id>'), transcripts=[], n_exons=0)
            continue
        tid = r['tx']
        if tid not in eg[r['gene']]['transcripts']:
            eg[r['gene']]['transcripts'].append(tid)
        m = et.setdefault(tid, dict({k: [] for k in TX_LISTS}, transcript=None))
        if r['type'] == 'transcript':
            m['transcript'] = feat(r, tid)
        else:
            m[FEATURE_FIELD[r['type'].lower()]].append(feat(r, tid))
    for tid, m in et.items():
        t = tspec[tid]
        if m['utr']:
            cds_lo = min(x[2] for x in m['cds'])
            cds_hi = max(x[3] for x in m['cds'])
            for u in m['utr']:
                upstream = u[3] <= cds_lo if t.strand == 1 else u[2] >= cds_hi
                m['five_utr' if upstream else 'three_utr'].append(u)
        for k in TX_LISTS:
            m[k] = sorted(m[k], key=lambda x: (x[2], x[3]))
        m['ids'] = (tid, t.gene_id, refgen.protein_id(tid) if t.a is not None else None, t.gene_id + 'N')
        m['source'] = src
        m['coding'] = t.a is not None
    for g in eg.values():
        g['transcripts'] = sorted(g['transcripts'])
    return eg, et


def expected_tx_seq(ref, t: TxSpec, style):
    """(sequence, orf (start,end) | None, [sec (start,end)], description)"""
    seq = ref.tx_seq(t.tx_id)
    assert len(seq) == t.L
    # second, independent derivation of the transcript sequence from the genome string
    seq2 = ''.join(GENOME[t.g(k)] if t.strand == 1 else O.revcomp(GENOME[t.g(k)]) for k in range(t.L))
    assert seq == seq2, (seq, seq2)
    orf = None
    if t.a is not None:
        assert ref.cds_tx(t.tx_id) == (t.a, t.b), (ref.cds_tx(t.tx_id), t.a, t.b)
        start = t.a + t.phase
        # the ORF ends where the CDS records end (property: "ORF start/end ... agree with the CDS features"),
        # whichever convention the 3'UTR records follow (GENCODE: UTR begins at the stop codon; Ensembl: after it)
        e = t.b if t.b < t.L else t.L
        orf = (start, e - (e - start) % 3)
        assert set(ref.sec_tx(t.tx_id)) == set(t.sec)
    desc = f'{t.tx_id}|{t.gene_id}'
    if t.a is not None and not style['ensembl']:
        desc += '|' + refgen.protein_id(t.tx_id)
    return seq, orf, sorted((p, p + 3) for p in t.sec), desc


# ---- canonical forms of implementation objects -------------------------------------------------
def canon_attrs(a):
    return tuple(sorted((k, tuple(v) if isinstance(v, list) else v) for k, v in a.items()))


def canon_feature(f, attrs=True):
    loc = f.location
    return (f.type, f.chrom, int(loc.start), int(loc.end), loc.strand, getattr(loc, 'seqname', '?'), f.frame,
            canon_attrs(f.attributes) if attrs else None, f.id)


def canon_gene(g, attrs=True):
    return dict(feature=canon_feature(g, attrs), transcripts=sorted(g.transcripts), n_exons=len(g.exons),
                cls=type(g).__name__, dup=len(g.transcripts) != len(set(g.transcripts)))


def canon_tx(t, attrs=True):
    d = {k: [canon_feature(x, attrs) for x in getattr(t, k)] for k in TX_LISTS}
    d['transcript'] = canon_feature(t.transcript, attrs)
    d['ids'] = (t.transcript_id, t.gene_id, t.protein_id, t.gene_name)
    d['gene_type'] = t.gene_type
    d['source'] = t.transcript.source
    d['cls'] = tuple(sorted({type(x).__name__ for k in TX_LISTS for x in getattr(t, k)} | {type(t.transcript).__name__}))
    return d


def sub_sources(t):
    return sorted({str(x.source) for k in TX_LISTS for x in getattr(t, k)})


def diff(a, b, path=''):
    """first difference between two canonical structures (or None)"""
    if type(a) != type(b):
        return f'{path}: {a!r} != {b!r}'
    if isinstance(a, dict):
        for k in sorted(set(a) | set(b)):
            if k not in a or k not in b:
                return f'{path}.{k}: present only on one side ({a.get(k)!r} vs {b.get(k)!r})'
            r = diff(a[k], b[k], f'{path}.{k}')
            if r:
                return r
        return None
    if isinstance(a, (list, tuple)) and len(a) == len(b) and any(isinstance(x, (list, tuple, dict)) for x in a):
        for i, (x, y) in enumerate(zip(a, b)):
            r = diff(x, y, f'{path}[{i}]')
            if r:
                return r
        return None
    return None if a == b else f'{path}: {a!r} != {b!r}'
