"""Reference model of callVariant: backbones with provenance, haplotype enumeration, two-sided
(MUST / MAY) expected peptide sets, and header-entry witnesses.  Pure str/list/set code; it
knows the reference only through refgen.Ref (raw intervals).

Vocabulary
  Var   : a small variant in GENE coordinates, VCF-anchored (ref = gene[start:end]).
  AS    : an alternative-splicing record (Deletion / Insertion / Substitution) in gene coordinates.
  Fusion: donor transcript + first-excluded donor gene position, accepter transcript + first
          included accepter gene position.
  Circ  : transcript + sorted gene-coordinate fragments.
  Backbone : a nucleotide string with, per position, its provenance (gene_id, gene_pos).
"""
from __future__ import annotations
import itertools
from dataclasses import dataclass, field
import oracle as O
import refgen


@dataclass(frozen=True)
class Var:
    gene: str
    tx: str
    start: int
    end: int
    ref: str
    alt: str
    vid: str = ''

    @property
    def kind(self):
        if len(self.ref) == len(self.alt) == 1:
            return 'SNV'
        if len(self.ref) == 1 or len(self.alt) == 1:
            return 'INDEL'
        return 'MNV'

    def trimmed(self):
        """(start, end, alt) with the shared VCF anchor base removed."""
        if self.kind == 'INDEL' and self.ref[0] == self.alt[0]:
            return self.start + 1, self.end, self.alt[1:]
        return self.start, self.end, self.alt

    def gvf(self):
        return refgen.small_line(self.gene, self.tx, self.start, self.ref, self.alt, self.vid or None)

    def id(self):
        return self.vid or refgen.small_id(self.start, self.ref, self.alt)


def mkvar(ref: refgen.Ref, tx, gene_pos, reflen, alt, vid=''):
    g = ref.gene_of[tx]['gene_id']
    gs = ref.gene_seq(g)
    return Var(g, tx, gene_pos, gene_pos + reflen, gs[gene_pos:gene_pos + reflen], alt, vid)


@dataclass(frozen=True)
class AS:
    kind: str              # 'Deletion' | 'Insertion' | 'Substitution'
    gene: str
    tx: str
    start: int             # Deletion/Substitution: first removed gene pos; Insertion: gene pos AFTER which the donor is inserted
    end: int               # Deletion/Substitution: one past last removed; Insertion: unused (= start+1)
    dstart: int = 0        # donor segment [dstart, dend) in gene coordinates
    dend: int = 0
    vid: str = ''

    def gvf(self, ref: refgen.Ref):
        gs = ref.gene_seq(self.gene)
        b = f'{self.gene}\t{self.start + 1}\t{self.vid}\t{gs[self.start]}\t'
        tail = f'GENE_SYMBOL={self.gene}N;GENOMIC_POSITION=chr1:1:2'
        if self.kind == 'Deletion':
            return b + f'<DEL>\t.\t.\tTRANSCRIPT_ID={self.tx};START={self.start + 1};END={self.end};' + tail
        if self.kind == 'Insertion':
            return b + (f'<INS>\t.\t.\tTRANSCRIPT_ID={self.tx};DONOR_GENE_ID={self.gene};'
                        f'DONOR_START={self.dstart + 1};DONOR_END={self.dend};') + tail
        return b + (f'<SUB>\t.\t.\tTRANSCRIPT_ID={self.tx};START={self.start + 1};END={self.end};'
                    f'DONOR_START={self.dstart + 1};DONOR_END={self.dend};DONOR_GENE_ID={self.gene};') + tail

    def id(self):
        return self.vid


@dataclass(frozen=True)
class Fusion:
    donor_tx: str
    donor_pos: int         # gene coordinate of the first donor base NOT included
    acc_tx: str
    acc_pos: int           # gene coordinate of the first accepter base included
    vid: str = ''

    def id(self):
        return self.vid or f'FUSION-{self.donor_tx}:{self.donor_pos}-{self.acc_tx}:{self.acc_pos}'

    def gvf(self, ref):
        return refgen.fusion_line(ref, self.donor_tx, self.donor_pos, self.acc_tx, self.acc_pos, self.id())


@dataclass(frozen=True)
class Circ:
    tx: str
    frags: tuple           # ((gene_start, gene_end), ...) sorted
    vid: str = ''
    introns: str = ''

    def id(self):
        return self.vid or f'CIRC-{self.tx}-{self.frags[0][0]}:{self.frags[-1][1]}'

    def gvf(self, ref):
        return refgen.circ_line(ref.gene_of[self.tx]['gene_id'], self.tx, list(self.frags), self.id(), self.introns)


# ---------------------------------------------------------------------------------------------
class Backbone:
    def __init__(self, seq, prov):
        self.seq = seq
        self.prov = prov           # list of (gene_id, gene_pos), len == len(seq)
        assert len(seq) == len(prov)
        self._index = None

    @classmethod
    def from_segments(cls, ref: refgen.Ref, segs):
        """segs: [(gene_id, start, end)] in gene coordinates."""
        seq = []
        prov = []
        for g, a, b in segs:
            gs = ref.gene_seq(g)
            seq.append(gs[a:b])
            prov.extend((g, i) for i in range(a, b))
        return cls(''.join(seq), prov)

    def index(self):
        if self._index is None:
            idx = {}
            for i, p in enumerate(self.prov):
                idx.setdefault(p, []).append(i)
            self._index = idx
        return self._index

    def occurrences(self, gene, start, end):
        """Backbone start indices at which gene[start:end] occurs contiguously."""
        out = []
        if end <= start:
            return out
        for i in self.index().get((gene, start), []):
            if i + (end - start) <= len(self.prov) and \
                    all(self.prov[i + k] == (gene, start + k) for k in range(end - start)):
                out.append(i)
        return out


def tx_segments(ref: refgen.Ref, tx):
    g = ref.gene_of[tx]['gene_id']
    return [(g, a, b) for a, b in ref.exons_gene(tx)]


def apply_as(ref: refgen.Ref, segs, a: AS):
    """Segment list of the transcript with the AS record applied by its GVF semantics."""
    g = a.gene
    out = []
    if a.kind in ('Deletion', 'Substitution'):
        done = False
        for (gg, s, e) in segs:
            if gg != g or e <= a.start or s >= a.end:
                out.append((gg, s, e))
                continue
            if s < a.start:
                out.append((gg, s, a.start))
            if a.kind == 'Substitution' and not done:
                out.append((g, a.dstart, a.dend))
                done = True
            if e > a.end:
                out.append((gg, a.end, e))
        return [x for x in out if x[2] > x[1]]
    # Insertion after gene position a.start
    for (gg, s, e) in segs:
        if gg == g and s <= a.start < e:
            out.append((gg, s, a.start + 1))
            out.append((g, a.dstart, a.dend))
            if a.start + 1 < e:
                out.append((gg, a.start + 1, e))
        else:
            out.append((gg, s, e))
    return out


# ---------------------------------------------------------------------------------------------
@dataclass
class Settings:
    cl: O.Cleavage
    coding_novel_orf: bool = False
    sect: bool = False
    w2f: bool = False
    max_adjacent_as_mnv: int = 2
    backsplicing_only: bool = False
    noncanonical_transcripts: bool = False


def _pairwise_ok(vs, liberal):
    ivs = []
    for v in vs:
        if liberal:
            s, e, _ = v.trimmed()
            ivs.append((s, e, v))
        else:
            ivs.append((v.start, v.end, v))
    ivs.sort(key=lambda x: (x[0], x[1]))
    for (s1, e1, v1), (s2, e2, v2) in zip(ivs, ivs[1:]):
        if liberal:
            if e1 > s2 or (s1 == s2):        # overlap, or two events at the same point
                return False
        else:
            if e1 > s2:
                return False
            if e1 == s2:                      # adjacent: only SNV runs are required (merged MNV)
                if not (v1.kind == 'SNV' and v2.kind == 'SNV'):
                    return False
    return True


def _snv_runs_ok(vs, max_adj):
    """strict: adjacent SNV runs no longer than max_adjacent_as_mnv."""
    sn = sorted([v for v in vs if v.kind == 'SNV'], key=lambda v: v.start)
    run = 1
    for a, b in zip(sn, sn[1:]):
        if a.end == b.start:
            run += 1
            if run > max_adj:
                return False
        else:
            run = 1
    return True


def haplotypes(variants, liberal, max_adj=2, same_gene_only=True):
    """All non-empty subsets of `variants` that are mutually compatible."""
    for k in range(1, len(variants) + 1):
        for comb in itertools.combinations(variants, k):
            by_gene = {}
            for v in comb:
                by_gene.setdefault(v.gene, []).append(v)
            ok = all(_pairwise_ok(vs, liberal) for vs in by_gene.values())
            if ok and not liberal:
                ok = all(_snv_runs_ok(vs, max_adj) for vs in by_gene.values())
            if ok:
                yield comb


def mutate(bb: Backbone, comb, protect=None, liberal=False):
    """Apply the variants of `comb` at every occurrence on the backbone (circRNA copies: the same
    allele in every copy).  Returns (seq, posmap) or None if some variant does not occur (strict:
    then the haplotype is not realisable on this backbone).  protect(i0, i1) -> True if the backbone
    interval may not be touched (strict mode only)."""
    edits = []
    for v in comb:
        s, e, alt = v.trimmed()
        if e > s:
            occ = bb.occurrences(v.gene, s, e)
            if v.kind == 'INDEL' and s == v.start + 1:
                # the anchor must precede the deleted bases on the backbone
                occ = [i for i in occ if i > 0 and bb.prov[i - 1] == (v.gene, v.start)] if not liberal else occ
            spans = [(i, i + (e - s), alt) for i in occ]
        else:
            # pure insertion after the anchor base v.start
            occ = bb.occurrences(v.gene, v.start, v.start + 1)
            spans = [(i + 1, i + 1, alt) for i in occ]
        if not spans:
            return None
        if protect is not None:
            for (a, b, _) in spans:
                if protect(a, b):
                    return None
        edits.extend(spans)
    edits.sort()
    for (a1, b1, _), (a2, b2, _) in zip(edits, edits[1:]):
        if b1 > a2 or (a1 == a2 and b1 == b2 == a1):
            return None
    seq = O.apply_variants(bb.seq, edits)
    return seq, edits


def shift(pos, edits):
    d = 0
    for a, b, alt in edits:
        if b <= pos:
            d += len(alt) - (b - a)
    return pos + d


# ---------------------------------------------------------------------------------------------
def spans(prot, cl: O.Cleavage, clip_m):
    return cl.digest(prot, clip_m=clip_m, with_span=True)


def products_from(seq, start, cl, sec=frozenset(), clip_m=True, keep_open_tail=True, drop_nterm=False,
                  upstream=None):
    """Valid-or-not digestion products of the translation of seq from `start` to the first stop.
    keep_open_tail=False drops products that reach the end of a translation without stop codon.
    drop_nterm drops N-terminal products (cds_start_NF)."""
    prot = O.translate(seq, start, sec)
    open_end = not O.has_stop(seq, start, sec)
    out = set()
    for p, nsite, nterm, last in spans(prot, cl, clip_m):
        if last and open_end and not keep_open_tail:
            continue
        if nterm and drop_nterm:
            continue
        out.add(p)
    return out


def w2f_images(p):
    idx = [i for i, c in enumerate(p) if c == 'W']
    out = set()
    for k in range(1, len(idx) + 1):
        for comb in itertools.combinations(idx, k):
            q = list(p)
            for i in comb:
                q[i] = 'F'
            out.add(''.join(q))
    return out


def sec_modes(sec):
    """Liberal readings of annotated Sec codons: every subset read as U, the rest as stop."""
    sec = sorted(sec)
    if not sec:
        return ['U']
    return [frozenset(c) for k in range(len(sec) + 1) for c in itertools.combinations(sec, k)]


class TxModel:
    """What the oracle needs to know about one linear backbone."""
    def __init__(self, ref: refgen.Ref, tx, settings: Settings):
        self.ref, self.tx, self.st = ref, tx, settings
        self.coding = ref.is_coding(tx)
        self.cds = ref.cds_tx(tx)
        self.nf5 = ref.has_tag(tx, 'cds_start_NF')
        self.nf3 = ref.has_tag(tx, 'mRNA_end_NF')
        self.sec = ref.sec_tx(tx)
        self.phase = ref.tx[tx].get('cds_phase', 0)

    def orf_start(self):
        return self.cds[0] + self.phase if self.coding else None


def linear_products(tm: TxModel, seq, edits, liberal, bb_len=None, novel=None, sec_mode='U',
                    start_limit=None, nf3=None):
    """Products of one haplotype sequence of a linear backbone.
    sec_mode: 'U' read annotated Sec codons as U; 'stop' as stop (liberal alternative)."""
    st = tm.st
    cl = st.cl
    out = set()
    nf3 = tm.nf3 if nf3 is None else nf3
    sec = frozenset()
    if tm.sec and sec_mode == 'U':
        sec = frozenset(shift(p, edits) for p in tm.sec)
    elif tm.sec and isinstance(sec_mode, (frozenset, set, tuple, list)):
        sec = frozenset(shift(p, edits) for p in sec_mode)      # only these Sec codons read as U
    novel = (not tm.coding or st.coding_novel_orf) if novel is None else novel
    if tm.coding:
        s0 = shift(tm.orf_start(), edits)
        out |= products_from(seq, s0, cl, sec, clip_m=(not tm.nf5) or liberal,
                             keep_open_tail=liberal,
                             drop_nterm=(tm.nf5 and not liberal))
        if liberal and tm.nf5:
            out |= products_from(seq, s0, cl, sec, clip_m=False)
    if novel:
        for s in O.orf_starts(seq, 0, start_limit):
            out |= products_from(seq, s, cl, sec if liberal else frozenset(), clip_m=True,
                                 keep_open_tail=liberal)
            if liberal and sec:
                out |= products_from(seq, s, cl, frozenset(), clip_m=True)
    return out


def alt_translation(tm: TxModel, seq, edits, liberal, base):
    """SECT / W2F forms on top of `base` products for one haplotype."""
    st = tm.st
    out = set()
    if st.sect and tm.sec and tm.coding:
        s0 = shift(tm.orf_start(), edits)
        secs = sorted(shift(p, edits) for p in tm.sec)
        for i, sp in enumerate(secs):
            if (sp - s0) % 3 != 0 or sp < s0:
                continue
            # translation terminating at the i-th Sec codon, earlier ones read as U
            trunc = seq[:sp] + 'TAA'
            out |= products_from(trunc, s0, st.cl, frozenset(secs[:i]), clip_m=(not tm.nf5) or liberal,
                                 drop_nterm=(tm.nf5 and not liberal))
    if st.w2f:
        for p in list(base | out):
            out |= w2f_images(p)
    return out


# =============================================================================================
# Expected sets for one transcript's "main" call (small variants + at most one AS record)
# =============================================================================================
def _occ_liberal(bb: Backbone, v: Var):
    """Liberal occurrence: contiguous, or (deletion spanning an intron) both ends present."""
    s, e, alt = v.trimmed()
    if e > s:
        occ = [(i, i + e - s) for i in bb.occurrences(v.gene, s, e)]
        if not occ:
            a = bb.index().get((v.gene, s), [])
            b = bb.index().get((v.gene, e - 1), [])
            occ = [(i, j + 1) for i in a for j in b if j >= i]
        return [(i, j, alt) for i, j in occ]
    return [(i + 1, i + 1, alt) for i in bb.occurrences(v.gene, v.start, v.start + 1)]


def mutate_liberal(bb: Backbone, comb):
    edits = []
    for v in comb:
        sp = _occ_liberal(bb, v)
        if not sp:
            return None
        edits.extend(sp)
    edits.sort()
    for (a1, b1, _), (a2, b2, _) in zip(edits, edits[1:]):
        if b1 > a2 or (a1 == a2 and b1 == b2):
            return None
    return O.apply_variants(bb.seq, edits), edits


def mutate_strict(bb: Backbone, comb, protected):
    """protected: list of (lo, hi) backbone intervals no variant may touch (untrimmed span)."""
    edits = []
    full = []
    for v in comb:
        occ = bb.occurrences(v.gene, v.start, v.end)
        if not occ:
            return None
        s, e, alt = v.trimmed()
        for i in occ:
            lo, hi = i, i + (v.end - v.start)
            for pz in protected:
                pl, ph = pz[0], pz[1]
                if len(pz) > 2 and v.kind == 'INDEL':
                    # start-codon zone: an indel anchored on the last base of the start codon changes only what follows
                    # the start codon (the tool rewrites it in end-inclusion form and applies it): judge its trimmed span
                    tl, th = i + (s - v.start), i + (e - v.start)
                    if tl < ph and (th > pl or tl == th and tl > pl):
                        return None
                    continue
                if lo < ph and hi > pl:
                    return None
            edits.append((i + (s - v.start), i + (e - v.start), alt))
            if v.kind == 'INDEL' and any(len(pz) > 2 and pz[1] - 1 == lo for pz in protected):
                # anchored on the last base of the start codon: the tool rewrites the record in end-inclusion form (anchor
                # AFTER the changed bases), so for the adjacency rule it occupies [lo+1, hi+1)
                full.append((lo + 1, hi + 1, v))
            else:
                full.append((lo, hi, v))
    edits.sort()
    for (a1, b1, _), (a2, b2, _) in zip(edits, edits[1:]):
        if b1 > a2 or (a1 == a2 and b1 == b2):
            return None
    # adjacency is a property of the backbone, not of gene coordinates: two records that become neighbours only after
    # splicing (last base of one exon / first base of the next) are adjacent records like any others, and adjacent
    # records are required together only as a merged SNV run (which the caller builds in gene coordinates)
    full.sort(key=lambda x: (x[0], x[1]))
    for (a1, b1, v1), (a2, b2, v2) in zip(full, full[1:]):
        if b1 == a2 and not (v1.kind == 'SNV' and v2.kind == 'SNV' and v1.gene == v2.gene and v1.end == v2.start):
            return None
    return O.apply_variants(bb.seq, edits), edits


def expected_main(ref: refgen.Ref, tx: str, small, as_recs, st: Settings):
    """MUST / MAY for the main (linear) call of transcript tx.
    small: [Var] on tx; as_recs: [AS] on tx (each AS alone or none)."""
    tm = TxModel(ref, tx, st)
    cl = st.cl
    base_segs = tx_segments(ref, tx)
    ref_bb = Backbone.from_segments(ref, base_segs)
    L = len(ref_bb.seq)

    def prot_for(bb, orf_start, cds_end):
        pr = [(len(bb.seq) - 1, len(bb.seq))]
        if tm.coding:
            pr.append((0, orf_start + 3, 'trim'))
        else:
            pr.append((0, 3))
        if tm.nf3:
            end = cds_end if tm.coding else len(bb.seq)
            pr.append((end - 3, len(bb.seq)))
        return pr

    # reference products (everything the unmodified transcript yields, liberally)
    refprod = linear_products(tm, ref_bb.seq, [], liberal=True)
    if st.sect or st.w2f:
        refprod |= alt_translation(tm, ref_bb.seq, [], True, refprod)
    must, may = set(), set(refprod)
    backbones = [(None, ref_bb)]
    for a in as_recs:
        backbones.append((a, Backbone.from_segments(ref, apply_as(ref, base_segs, a))))
    for a, bb in backbones:
        # position of ORF start / CDS end on this backbone (AS records downstream of the start only)
        if tm.coding:
            g = ref.gene_of[tx]['gene_id']
            o = bb.index().get((g, ref.tx_to_gene(tx, tm.cds[0])), [None])[0]
            if o is None:
                continue                      # AS record removed the start codon: not judged
            oshift = o - tm.cds[0]
        else:
            oshift = 0
        tm_b = tm
        if oshift:
            tm_b = TxModel(ref, tx, st)
            tm_b.cds = (tm.cds[0] + oshift, tm.cds[1] + oshift)
        # sec positions on this backbone
        if tm.sec:
            g = ref.gene_of[tx]['gene_id']
            secs = []
            for p in tm.sec:
                idx = bb.index().get((g, ref.tx_to_gene(tx, p)), [])
                if idx:
                    secs.append(idx[0])
            tm_b = tm_b if tm_b is not tm else TxModel(ref, tx, st)
            tm_b.cds = tm_b.cds
            tm_b.sec = frozenset(secs)
        cds_end_bb = None
        if tm.coding:
            g = ref.gene_of[tx]['gene_id']
            ce = bb.index().get((g, ref.tx_to_gene(tx, tm.cds[1] - 1)), [None])[0]
            cds_end_bb = (ce + 1) if ce is not None else len(bb.seq)
        protected = prot_for(bb, tm_b.cds[0] + tm.phase if tm.coding else 0, cds_end_bb)
        if a is not None:
            # small variants adjacent to an alt-splicing junction are (like adjacent small variants) not
            # required to be combined with the record
            base_pairs = set(zip(ref_bb.prov, ref_bb.prov[1:]))
            for i, (p1, p2) in enumerate(zip(bb.prov, bb.prov[1:])):
                if (p1, p2) not in base_pairs:
                    protected.append((i + 1 - 2, i + 1 + 1))
        combos = [()] if a is not None else []
        combos += list(haplotypes(small, liberal=True))
        for comb in combos:
            r = mutate_liberal(bb, comb)
            if r is not None:
                seq, edits = r
                for mode in sec_modes(tm_b.sec):
                    p = linear_products(tm_b, seq, edits, liberal=True, sec_mode=mode)
                    may |= p
                    if st.sect or st.w2f:
                        may |= alt_translation(tm_b, seq, edits, True, p)
        scombos = [()] if a is not None else []
        scombos += list(haplotypes(small, liberal=False, max_adj=st.max_adjacent_as_mnv))
        for comb in scombos:
            if a is not None and tm.coding and a.start <= ref.tx_to_gene(tx, tm.cds[0] + 2):
                continue
            r = mutate_strict(bb, comb, protected)
            if r is None:
                continue
            seq, edits = r
            if tm.sec and any(v.kind != 'SNV' for v in comb):
                continue            # indel + Sec bookkeeping: MAY only
            if tm.sec and any(any(lo < sp + 3 and hi > sp for sp in tm_b.sec) for lo, hi, _ in edits):
                continue
            p = linear_products(tm_b, seq, edits, liberal=False)
            if st.sect or st.w2f:
                p |= alt_translation(tm_b, seq, edits, False, p - refprod)
            must |= p
    must = {p for p in must if cl.valid(p) and p not in refprod}
    return must, may, refprod


def fusion_segments(ref: refgen.Ref, f: Fusion):
    """Segments of the fused transcript by the documented GVF semantics, and the junction index."""
    dg = ref.gene_of[f.donor_tx]['gene_id']
    ag = ref.gene_of[f.acc_tx]['gene_id']
    segs = []
    dex = ref.exons_gene(f.donor_tx)
    if f.donor_pos <= dex[0][0]:
        return None
    last_end = None
    for a, b in dex:
        if a >= f.donor_pos:
            break
        segs.append((dg, a, min(b, f.donor_pos)))
        last_end = b
    if last_end is not None and f.donor_pos > last_end:
        if f.donor_pos > dex[-1][1]:
            return None                                   # beyond the transcript: not enumerated
        segs.append((dg, last_end, f.donor_pos))          # retained intronic bases (donor side)
    junction = sum(b - a for _, a, b in segs)
    aex = ref.exons_gene(f.acc_tx)
    if f.acc_pos >= aex[-1][1] or f.acc_pos < aex[0][0]:
        return None
    started = False
    for a, b in aex:
        if b <= f.acc_pos:
            continue
        if not started:
            if a > f.acc_pos:
                segs.append((ag, f.acc_pos, a))           # retained intronic bases (accepter side)
                segs.append((ag, a, b))
            else:
                segs.append((ag, f.acc_pos, b))
            started = True
        else:
            segs.append((ag, a, b))
    return segs, junction


def expected_fusion(ref, f: Fusion, small, st: Settings):
    """MUST / MAY contributed by one fusion record (plus small variants on donor / accepter)."""
    r = fusion_segments(ref, f)
    if r is None:
        return set(), None            # geometry outside the enumerated space: output not judged
    if ref.gene_of[f.donor_tx]['gene_id'] == ref.gene_of[f.acc_tx]['gene_id'] and \
            any(v.tx in (f.donor_tx, f.acc_tx) for v in small):
        # intragenic fusion with small variants: the backbone model identifies bases by (gene, position) and cannot
        # tell the donor copy of a gene position from the accepter copy, so a record of one transcript would be
        # applied on both sides.  Sequences are not judged; the id-level checks of C03 still apply.
        return set(), None
    segs, junction = r
    bb = Backbone.from_segments(ref, segs)
    tm = TxModel(ref, f.donor_tx, st)
    tm.nf3 = ref.has_tag(f.acc_tx, 'mRNA_end_NF')
    cl = st.cl
    donor_bb = Backbone.from_segments(ref, tx_segments(ref, f.donor_tx))
    refprod = linear_products(TxModel(ref, f.donor_tx, st), donor_bb.seq, [], liberal=True, novel=True)
    sm = [v for v in small if v.tx in (f.donor_tx, f.acc_tx)]
    must, may = set(), set()
    if tm.coding and tm.orf_start() + 3 > junction:
        # breakpoint inside / before the start codon: the tool reports nothing for this fusion
        strict_ok = False
    else:
        strict_ok = True
    protected = [(junction - 1, junction + 1), (len(bb.seq) - 1, len(bb.seq))]
    protected.append((0, (tm.orf_start() + 3) if tm.coding else 3))
    lib = [()] + list(haplotypes(sm, liberal=True))
    for comb in lib:
        rr = mutate_liberal(bb, comb)
        if rr is None:
            continue
        seq, edits = rr
        may |= linear_products(tm, seq, edits, liberal=True, novel=True)
        if st.w2f:
            may |= alt_translation(tm, seq, edits, True, set(may))
    if strict_ok:
        for comb in [()] + list(haplotypes(sm, liberal=False, max_adj=st.max_adjacent_as_mnv)):
            rr = mutate_strict(bb, comb, protected)
            if rr is None:
                continue
            seq, edits = rr
            jn = shift(junction, edits)
            p = linear_products(tm, seq, edits, liberal=False, start_limit=jn - 2)
            if st.w2f:
                p |= alt_translation(tm, seq, edits, False, p - refprod)
            must |= p
    must = {p for p in must if cl.valid(p) and p not in refprod}
    return must, may | refprod


def circ_backbone(ref, c: Circ, copies=4):
    g = ref.gene_of[c.tx]['gene_id']
    segs = [(g, a, b) for a, b in sorted(c.frags)]
    return Backbone.from_segments(ref, segs * copies), sum(b - a for _, a, b in segs)


def expected_circ(ref, c: Circ, small, st: Settings):
    bb, clen = circ_backbone(ref, c)
    tm = TxModel(ref, c.tx, st)
    cl = st.cl
    lin = Backbone.from_segments(ref, tx_segments(ref, c.tx))
    refprod = linear_products(tm, lin.seq, [], liberal=True, novel=True)
    g = ref.gene_of[c.tx]['gene_id']
    sm = [v for v in small if v.tx == c.tx]

    class _NC:      # a circRNA has no known ORF: every ATG, no Sec, no NF handling
        pass
    nm = TxModel(ref, c.tx, st)
    nm.coding, nm.sec, nm.nf5, nm.nf3 = False, frozenset(), False, False
    must, may = set(), set()
    # the first three nucleotides of every fragment are documented as not carrying variants
    protected = []
    off = 0
    for k in range(4):
        for a, b in sorted(c.frags):
            protected.append((off, off + 3))
            off += b - a
    for comb in [()] + list(haplotypes(sm, liberal=True)):
        rr = mutate_liberal(bb, comb)
        if rr is None:
            continue
        seq, edits = rr
        p = linear_products(nm, seq, edits, liberal=True, novel=True)
        may |= p
        if st.w2f:
            may |= alt_translation(nm, seq, edits, True, p)
    if not st.backsplicing_only:
        for comb in [()] + list(haplotypes(sm, liberal=False, max_adj=st.max_adjacent_as_mnv)):
            rr = mutate_strict(bb, comb, protected)
            if rr is None:
                continue
            seq, edits = rr
            p = linear_products(nm, seq, edits, liberal=False, novel=True)
            if st.w2f:
                p |= alt_translation(nm, seq, edits, False, p - refprod)
            must |= p
    must = {p for p in must if cl.valid(p) and p not in refprod}
    return must, may | refprod


# =============================================================================================
# C03: header entries as witnesses
# =============================================================================================
def parse_entry(entry: str):
    f = entry.split('|')
    idx = None
    if f and f[-1].isdigit():
        idx = int(f[-1])
        f = f[:-1]
    backbone = f[0]
    orf = None
    ids = []
    for x in f[1:]:
        if x.startswith('ORF') and x[3:].isdigit():
            orf = x
        else:
            ids.append(x)
    return backbone, ids, orf, idx


def _undo_w2f(pep, w2f_ids):
    """W2F-<k>: 1-based position in the peptide of an F that was a W."""
    p = list(pep)
    for w in w2f_ids:
        try:
            k = int(w.split('-')[1]) - 1
        except (IndexError, ValueError):
            return None
        if not (0 <= k < len(p)) or p[k] != 'F':
            return None
        p[k] = 'W'
    return ''.join(p)


def witness(ref: refgen.Ref, case_small, case_as, case_fus, case_circ, st: Settings, entry: str, pep: str):
    """Is `pep` a digestion product when exactly the variants named by `entry` are applied to the
    named backbone?  Returns (ok, reason)."""
    backbone, ids, orf, idx = parse_entry(entry)
    if idx is None:
        return False, 'no trailing index'
    w2f_ids = [i for i in ids if i.startswith('W2F-')]
    sect_ids = [i for i in ids if i.startswith('SECT-')]
    ids = [i for i in ids if not (i.startswith('W2F-') or i.startswith('SECT-'))]
    # "the named variants" is a set: an id repeated inside one entry (the tool repeats an SNV that it also
    # lists through the MNV it was merged into) names the same record once
    ids = list(dict.fromkeys(ids))
    target = pep
    if w2f_ids:
        if not st.w2f:
            return False, 'W2F id although --w2f-reassignment was not given'
        target = _undo_w2f(pep, w2f_ids)
        if target is None:
            return False, 'W2F id does not point at an F of the peptide'
    if sect_ids and not st.sect:
        return False, 'SECT id although --selenocysteine-termination was not given'

    def lookup(tx, names, prefix=''):
        pool = {v.id(): v for v in case_small if v.tx == tx}
        out = []
        for n in names:
            if n not in pool:
                return None, n
            out.append(pool[n])
        return out, None

    if backbone.startswith('FUSION-'):
        fz = [f for f in case_fus if f.id() == backbone]
        if not fz:
            return False, f'fusion {backbone} not in the input'
        f = fz[0]
        first = [i[2:] for i in ids if i.startswith('1-')]
        second = [i[2:] for i in ids if i.startswith('2-')]
        other = [i for i in ids if not (i.startswith('1-') or i.startswith('2-'))]
        if other:
            return False, f'unprefixed ids {other} in a fusion entry'
        v1, bad = lookup(f.donor_tx, first)
        if v1 is None:
            return False, f'variant {bad} not in the input for donor {f.donor_tx}'
        v2, bad = lookup(f.acc_tx, second)
        if v2 is None:
            return False, f'variant {bad} not in the input for accepter {f.acc_tx}'
        r = fusion_segments(ref, f)
        if r is None or (ref.gene_of[f.donor_tx]['gene_id'] == ref.gene_of[f.acc_tx]['gene_id'] and (v1 or v2)):
            return True, 'geometry not modelled'
        segs, junction = r
        bb = Backbone.from_segments(ref, segs)
        tm = TxModel(ref, f.donor_tx, st)
        rr = mutate_liberal(bb, tuple(v1 + v2))
        if rr is None:
            return False, 'named variants cannot be applied together to the fused transcript'
        seq, edits = rr
        prods = linear_products(tm, seq, edits, liberal=True, novel=True)
        return (target in prods), 'not a product of the fused transcript carrying exactly the named variants'
    if backbone.startswith('CIRC-') or backbone.startswith('CI-'):
        cz = [c for c in case_circ if c.id() == backbone]
        if not cz:
            return False, f'circRNA {backbone} not in the input'
        c = cz[0]
        vs, bad = lookup(c.tx, ids)
        if vs is None:
            return False, f'variant {bad} not in the input for {c.tx}'
        bb, _ = circ_backbone(ref, c)
        nm = TxModel(ref, c.tx, st)
        nm.coding, nm.sec, nm.nf5, nm.nf3 = False, frozenset(), False, False
        rr = mutate_liberal(bb, tuple(vs))
        if rr is None:
            return False, 'named variants cannot be applied together to the circRNA'
        seq, edits = rr
        prods = linear_products(nm, seq, edits, liberal=True, novel=True)
        return (target in prods), 'not a product of the circRNA carrying exactly the named variants'
    # linear transcript
    tx = backbone
    if tx not in ref.tx:
        return False, f'unknown backbone {tx}'
    as_pool = {a.id(): a for a in case_as if a.tx == tx}
    as_named = [as_pool[i] for i in ids if i in as_pool]
    small_names = [i for i in ids if i not in as_pool]
    vs, bad = lookup(tx, small_names)
    if vs is None:
        return False, f'variant {bad} not in the input for {tx}'
    if len(as_named) > 1:
        return True, 'two alt-splicing records: not modelled'
    tm = TxModel(ref, tx, st)
    segs = tx_segments(ref, tx)
    if as_named:
        segs = apply_as(ref, segs, as_named[0])
    bb = Backbone.from_segments(ref, segs)
    if tm.coding:
        g = ref.gene_of[tx]['gene_id']
        o = bb.index().get((g, ref.tx_to_gene(tx, tm.cds[0])), [None])[0]
        if o is None:
            return True, 'start codon removed: not modelled'
        d = o - tm.cds[0]
        tm.cds = (tm.cds[0] + d, tm.cds[1] + d)
        if tm.sec:
            tm.sec = frozenset(i for p in tm.sec for i in bb.index().get((g, ref.tx_to_gene(tx, p)), [])[:1])
    rr = mutate_liberal(bb, tuple(vs))
    if rr is None:
        return False, 'named variants cannot be applied together (overlap / not on the backbone)'
    seq, edits = rr
    novel = (not tm.coding) or st.coding_novel_orf or orf is not None
    prods = set()
    for mode in sec_modes(tm.sec):
        prods |= linear_products(tm, seq, edits, liberal=True, novel=novel, sec_mode=mode)
    if sect_ids:
        st2 = Settings(cl=st.cl, coding_novel_orf=st.coding_novel_orf, sect=True, w2f=False)
        tm2 = TxModel(ref, tx, st2)
        tm2.cds, tm2.sec = tm.cds, tm.sec
        prods = alt_translation(tm2, seq, edits, True, set())
    return (target in prods), 'not a product of the transcript carrying exactly the named variants'
