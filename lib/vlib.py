"""Common runner for the /verif checks: tiers, seeds, evidence, replay files, known findings,
parallel exhaustive map.  No moPepGen import here (so it is usable by every check)."""
from __future__ import annotations
import argparse, atexit, hashlib, json, multiprocessing as mp, os, shutil, subprocess, sys, tempfile, time, traceback
from pathlib import Path
from urllib.parse import quote, unquote

VERIF = Path(__file__).resolve().parent.parent
REPO = Path(os.environ.get('VERIF_REPO', '/repo'))
EVIDENCE_DIR = Path(os.environ.get('VERIF_EVIDENCE_DIR') or VERIF / 'evidence')     # override only for trying mutants
REPLAY_DIR = Path(os.environ.get('VERIF_REPLAY_DIR') or VERIF / 'replays')
KNOWN_FILE = VERIF / 'known_findings.txt'
NCPU = int(os.environ.get('VERIF_JOBS', '0')) or min(16, os.cpu_count() or 1)

_scratch_root = None


def scratch_root() -> Path:
    """Private scratch directory (tmpfs when available), removed at exit."""
    global _scratch_root
    if _scratch_root is None:
        base = os.environ.get('VERIF_SCRATCH')
        if not base:
            base = '/dev/shm' if os.path.isdir('/dev/shm') and os.access('/dev/shm', os.W_OK) else tempfile.gettempdir()
        _scratch_root = Path(tempfile.mkdtemp(prefix='verif_', dir=base))
        pid = os.getpid()

        def _rm():
            if os.getpid() == pid:
                shutil.rmtree(_scratch_root, ignore_errors=True)
        atexit.register(_rm)
    return _scratch_root


def worker_dir(tag: str = 'w') -> Path:
    d = scratch_root() / f'{tag}{os.getpid()}'
    d.mkdir(parents=True, exist_ok=True)
    return d


def load_known(pid: str):
    """known_findings.txt lines:
       open: property=C01 key=<case key> <what fails>
       fixed: property=C06 <commit> <what failed>
    Only `open` lines suppress anything, and only for the exact key."""
    out = {}
    if KNOWN_FILE.exists():
        for line in KNOWN_FILE.read_text().splitlines():
            line = line.strip()
            if not line.startswith('open:'):
                continue
            parts = line[5:].split()
            if len(parts) < 2 or parts[0] != f'property={pid}' or not parts[1].startswith('key='):
                continue
            out[unquote(parts[1][4:])] = ' '.join(parts[2:])
    return out


def quote_key(key: str) -> str:
    """Keys are stored percent-encoded in known_findings.txt (they may contain spaces)."""
    return quote(key, safe="/:=;,@|+*<>-_.()[]{}!~'&")


class Run:
    """One invocation of one check."""

    def __init__(self, pid: str, level: str, description: str = ''):
        ap = argparse.ArgumentParser(description=description)
        ap.add_argument('--tier', default=os.environ.get('VERIF_TIER', 'quick'), choices=['quick', 'thorough'])
        ap.add_argument('--replay', default=None, help='replay one case file and print expected vs observed')
        ap.add_argument('--only', default=None, help='comma separated block names (debugging)')
        ap.add_argument('--jobs', type=int, default=NCPU)
        self.args = ap.parse_args()
        self.pid = pid
        self.level = level
        self.tier = self.args.tier
        self.jobs = self.args.jobs
        try:
            self.seed = int(os.environ.get('VERIF_SEED', '0'))
        except ValueError:
            self.seed = 0
        self.t0 = time.time()
        self.blocks = []
        self.samples = []
        self.assumptions = []
        self.extra = {}
        self.evaluations = 0
        self.nontrivial = 0
        self.violations = 0
        self.known_hits = 0
        self.known = load_known(pid)
        self.known_seen = set()
        self.rule = ''
        self.only = set(self.args.only.split(',')) if self.args.only else None
        self._viol_printed = 0

    # ---- bookkeeping -------------------------------------------------------------------
    def want(self, block: str) -> bool:
        return self.only is None or block in self.only

    def block(self, name: str, evaluations: int, nontrivial: int, exhaustive: bool = True, **kw):
        b = dict(name=name, evaluations=int(evaluations), distinct_nontrivial=int(nontrivial),
                 exhaustive=bool(exhaustive))
        b.update(kw)
        self.blocks.append(b)
        self.evaluations += int(evaluations)
        self.nontrivial += int(nontrivial)
        print(f'[{self.pid}] block {name}: evaluations={evaluations} nontrivial={nontrivial} '
              f'exhaustive={exhaustive} ' + ' '.join(f'{k}={v}' for k, v in kw.items()) +
              f' t={time.time()-self.t0:.1f}s', flush=True)

    def sample(self, obj, limit: int = 12):
        if len(self.samples) < limit:
            self.samples.append(obj)

    def assume(self, text: str):
        if text not in self.assumptions:
            self.assumptions.append(text)

    # ---- violations --------------------------------------------------------------------
    def violation(self, key: str, what: str, replay: dict):
        """Report one failing case.  `key` is the canonical, run-independent identity of the case
        (property-relative); a known finding must match it exactly."""
        if key in self.known:
            if key not in self.known_seen:
                self.known_seen.add(key)
                self.known_hits += 1
                print(f'KNOWN-FINDING: property={self.pid} {key} {self.known[key]}', flush=True)
            return False
        self.violations += 1
        d = REPLAY_DIR / self.pid
        d.mkdir(parents=True, exist_ok=True)
        name = hashlib.sha1(key.encode()).hexdigest()[:12]
        path = d / f'{name}.json'
        replay = dict(replay)
        replay.update(property=self.pid, key=key, what=what)
        path.write_text(json.dumps(replay, indent=1, default=str))
        if self._viol_printed < 50:
            self._viol_printed += 1
            print(f'VIOLATION property={self.pid} replay={path}', flush=True)
            print(f'  key={key}\n  {what[:600]}', flush=True)
        return True

    # ---- finish ------------------------------------------------------------------------
    def finish(self, states: int = None, transitions: int = None, traces: int = None):
        wall = time.time() - self.t0
        cov = dict(
            evaluations=self.evaluations,
            distinct_nontrivial=self.nontrivial,
            rule=self.rule,
            samples=self.samples or ['(no sample recorded)'],
            exhaustive=all(b['exhaustive'] for b in self.blocks) if self.blocks else False,
            blocks=self.blocks,
            known_findings_reproduced=self.known_hits,
        )
        if states is not None:
            cov.update(states=int(states), transitions=int(transitions),
                       traces_validated_against_impl=int(traces if traces is not None else 0))
        cov.update(self.extra)
        ev = dict(property_id=self.pid, tier=self.tier, seed=self.seed, level=self.level,
                  coverage=cov, assumptions=self.assumptions, wall_s=round(wall, 2),
                  violations=self.violations)
        EVIDENCE_DIR.mkdir(exist_ok=True)
        path = EVIDENCE_DIR / f'{self.pid}.json'
        path.write_text(json.dumps(ev, indent=1, default=str))
        ok = validate_evidence(path)
        print(f'[{self.pid}] tier={self.tier} seed={self.seed} evaluations={self.evaluations} '
              f'nontrivial={self.nontrivial} violations={self.violations} known={self.known_hits} '
              f'wall={wall:.1f}s evidence={path} schema_ok={ok}', flush=True)
        if not ok:
            print(f'[{self.pid}] ERROR: evidence file does not validate', flush=True)
            sys.exit(2)
        if self.evaluations == 0:
            print(f'[{self.pid}] ERROR: nothing was explored', flush=True)
            sys.exit(2)
        sys.exit(1 if self.violations else 0)


def validate_evidence(path: Path) -> bool:
    schema = '/root/.vp/EVIDENCE.schema.json'
    if not os.path.exists(schema):
        schema = str(VERIF / 'tools' / 'EVIDENCE.schema.json')
    code = ("import json,sys,jsonschema;"
            "jsonschema.validate(json.load(open(sys.argv[1])),json.load(open(sys.argv[2])))")
    for py in ('python3-vt', '/opt/veriftools/pyvenv/bin/python'):
        try:
            p = subprocess.run([py, '-c', code, str(path), schema], capture_output=True, text=True, timeout=120)
        except (FileNotFoundError, subprocess.TimeoutExpired):
            continue
        if p.returncode != 0:
            print(p.stderr[-2000:])
        return p.returncode == 0
    print('WARNING: no jsonschema interpreter found; evidence not validated')
    return True


# ---- exhaustive parallel map -----------------------------------------------------------
_WORK_FN = None
_WORK_INIT = None


def _pool_init(initfn):
    global _WORK_INIT
    if initfn is not None:
        initfn()


def _call(chunk):
    out = []
    for item in chunk:
        try:
            out.append(_WORK_FN(item))
        except Exception as e:  # a harness error must never look like a pass
            out.append(('HARNESS_ERROR', repr(e), traceback.format_exc()[-1500:]))
    return out


def pmap(fn, items, jobs: int = NCPU, chunk: int = None, init=None):
    """Ordered, deterministic, complete map over `items` using forked workers.  The result
    list is in the order of `items` regardless of scheduling."""
    global _WORK_FN
    items = list(items)
    if not items:
        return []
    _WORK_FN = fn
    scratch_root()        # create in the parent so forked workers share it and it is removed at exit
    if jobs <= 1 or len(items) < 4:
        if init is not None:
            init()
        return _call(items)
    if chunk is None:
        chunk = max(1, min(64, len(items) // (jobs * 8) or 1))
    chunks = [items[i:i + chunk] for i in range(0, len(items), chunk)]
    ctx = mp.get_context('fork')
    with ctx.Pool(jobs, initializer=_pool_init, initargs=(init,)) as pool:
        res = pool.map(_call, chunks, chunksize=1)
    return [r for c in res for r in c]


def harness_errors(results):
    return [r for r in results if isinstance(r, tuple) and len(r) == 3 and r[0] == 'HARNESS_ERROR']


def seeded_windows(seed: int, n_windows: int, k: int, always=(0,)):
    """Choose k of n_windows complete sub-blocks deterministically from the seed; the ones in
    `always` are included in every run.  The seed selects whole sub-blocks, never cases."""
    import random
    r = random.Random(seed * 7919 + 13)
    rest = [i for i in range(n_windows) if i not in always]
    r.shuffle(rest)
    chosen = sorted(set(a for a in always if a < n_windows) | set(rest[:max(0, k - len(always))]))
    return chosen
