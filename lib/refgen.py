"""Synthetic reference writer and its independent interpretation (oracle side).

A reference is described by a genome string and a list of genes:
  gene = dict(gene_id, strand=+1|-1, biotype='protein_coding'|..., transcripts=[tx,...])
  tx   = dict(tx_id, exons=[(gstart,gend)...] 0-based half-open genomic, ascending,
              cds=(gstart,gend)|None  genomic span of the coding bases *excluding* the stop codon,
              tags=[...], sec=[(gstart,gend)...] genomic spans of Sec codons, biotype=None)
Everything the oracle needs (transcript / gene sequences, coordinate maps, ORF start, proteins)
is computed here from the raw intervals, never through moPepGen."""
from __future__ import annotations
from pathlib import Path
import oracle as O

GVF_VERSION = '1.4.6-rc4'


class Ref:
    def __init__(self, genome: str, genes, chrom: str = 'chr1', name: str = 'ref'):
        self.genome, self.genes, self.chrom, self.name = genome, genes, chrom, name
        self.gene_of = {}
        self.tx = {}
        for g in genes:
            for t in g['transcripts']:
                self.gene_of[t['tx_id']] = g
                self.tx[t['tx_id']] = t
        self.gene = {g['gene_id']: g for g in genes}

    # ---- geometry ----------------------------------------------------------------------
    def gene_span(self, gene_id):
        g = self.gene[gene_id]
        s = min(e[0] for t in g['transcripts'] for e in t['exons'])
        e = max(e[1] for t in g['transcripts'] for e in t['exons'])
        return s, e

    def gene_seq(self, gene_id):
        s, e = self.gene_span(gene_id)
        q = self.genome[s:e]
        return q if self.gene[gene_id]['strand'] == 1 else O.revcomp(q)

    def genomic_to_gene(self, gene_id, gpos):
        s, e = self.gene_span(gene_id)
        return gpos - s if self.gene[gene_id]['strand'] == 1 else e - 1 - gpos

    def gene_to_genomic(self, gene_id, pos):
        s, e = self.gene_span(gene_id)
        return s + pos if self.gene[gene_id]['strand'] == 1 else e - 1 - pos

    def exons_gene(self, tx_id):
        """Exons of the transcript as half-open intervals in gene coordinates, 5'->3'."""
        g = self.gene_of[tx_id]
        s, e = self.gene_span(g['gene_id'])
        ex = self.tx[tx_id]['exons']
        if g['strand'] == 1:
            return [(a - s, b - s) for a, b in ex]
        return [(e - b, e - a) for a, b in reversed(ex)]

    def tx_seq(self, tx_id):
        gs = self.gene_seq(self.gene_of[tx_id]['gene_id'])
        return ''.join(gs[a:b] for a, b in self.exons_gene(tx_id))

    def tx_len(self, tx_id):
        return sum(b - a for a, b in self.tx[tx_id]['exons'])

    def tx_to_gene(self, tx_id, pos):
        off = 0
        for a, b in self.exons_gene(tx_id):
            if pos < off + (b - a):
                return a + pos - off
            off += b - a
        if pos == off:     # one past the end: position after the last exon base
            return self.exons_gene(tx_id)[-1][1]
        raise ValueError(pos)

    def gene_to_tx(self, tx_id, gpos):
        off = 0
        for a, b in self.exons_gene(tx_id):
            if a <= gpos < b:
                return off + gpos - a
            off += b - a
        return None       # intronic / outside

    def cds_tx(self, tx_id):
        """(orf_start, orf_end) in transcript coordinates; orf_end excludes the stop codon."""
        t = self.tx[tx_id]
        if not t.get('cds'):
            return None
        g = self.gene_of[tx_id]
        cs, ce = t['cds']
        if g['strand'] == 1:
            a, b = self.genomic_to_gene(g['gene_id'], cs), self.genomic_to_gene(g['gene_id'], ce - 1) + 1
        else:
            a, b = self.genomic_to_gene(g['gene_id'], ce - 1), self.genomic_to_gene(g['gene_id'], cs) + 1
        return self.gene_to_tx(tx_id, a), self.gene_to_tx(tx_id, b - 1) + 1

    def sec_tx(self, tx_id):
        """Transcript positions (first base) of annotated Sec codons."""
        t = self.tx[tx_id]
        g = self.gene_of[tx_id]
        out = []
        for s, e in t.get('sec', []):
            first = s if g['strand'] == 1 else e - 1
            out.append(self.gene_to_tx(tx_id, self.genomic_to_gene(g['gene_id'], first)))
        return frozenset(out)

    def protein(self, tx_id):
        c = self.cds_tx(tx_id)
        if c is None:
            return None
        seq = self.tx_seq(tx_id)
        t = self.tx[tx_id]
        cds = seq[c[0]:c[1]]
        ph = t.get('cds_phase', 0)       # cds_start_NF: bases to skip
        aa = O.translate(cds, ph, sec=frozenset(p - c[0] for p in self.sec_tx(tx_id)), to_stop=False)
        return ('X' + aa) if ph else aa

    def proteins(self):
        return {t: self.protein(t) for t in self.tx if self.tx[t].get('cds')}

    def is_coding(self, tx_id):
        return bool(self.tx[tx_id].get('cds'))

    def has_tag(self, tx_id, tag):
        return tag in self.tx[tx_id].get('tags', [])

    # ---- files -------------------------------------------------------------------------
    def gtf_lines(self):
        chrom = self.chrom
        lines = []
        for g in self.genes:
            gs, ge = self.gene_span(g['gene_id'])
            st = '+' if g['strand'] == 1 else '-'
            gbt = g.get('biotype', 'protein_coding')
            gattr = f'gene_id "{g["gene_id"]}"; gene_type "{gbt}"; gene_name "{g["gene_id"]}N";'
            lines.append('\t'.join([chrom, 'HAVANA', 'gene', str(gs + 1), str(ge), '.', st, '.', gattr]))
            for t in g['transcripts']:
                ts = min(e[0] for e in t['exons'])
                te = max(e[1] for e in t['exons'])
                tbt = t.get('biotype') or ('protein_coding' if t.get('cds') else gbt)
                tattr = gattr + f' transcript_id "{t["tx_id"]}"; transcript_type "{tbt}";' \
                    f' transcript_name "{t["tx_id"]}N";'
                if t.get('cds'):
                    tattr += f' protein_id "{protein_id(t["tx_id"])}";'
                for tag in t.get('tags', []):
                    tattr += f' tag "{tag}";'
                lines.append('\t'.join([chrom, 'HAVANA', 'transcript', str(ts + 1), str(te), '.', st, '.', tattr]))
                for (s, e) in t['exons']:
                    lines.append('\t'.join([chrom, 'HAVANA', 'exon', str(s + 1), str(e), '.', st, '.', tattr]))
                if t.get('cds'):
                    cs, ce = t['cds']
                    segs = [(max(s, cs), min(e, ce)) for (s, e) in t['exons'] if max(s, cs) < min(e, ce)]
                    order = segs if g['strand'] == 1 else segs[::-1]
                    consumed = -t.get('cds_phase', 0)
                    frames = {}
                    for seg in order:
                        frames[seg] = (3 - consumed % 3) % 3
                        consumed += seg[1] - seg[0]
                    for seg in segs:
                        lines.append('\t'.join([chrom, 'HAVANA', 'CDS', str(seg[0] + 1), str(seg[1]), '.', st,
                                                str(frames[seg]), tattr]))
                    for (s, e) in t['exons']:
                        # GENCODE convention: the stop codon is not part of the CDS but is part of the
                        # 3'UTR record (e.g. OR4F5: CDS ..70005, stop_codon 70006-70008, UTR 70006-70008);
                        # moPepGen takes the first base of the 3'UTR as the end of the ORF.
                        lo, hi = cs, ce
                        if s < lo:
                            lines.append('\t'.join([chrom, 'HAVANA', 'UTR', str(s + 1), str(min(e, lo)), '.', st, '.', tattr]))
                        if e > hi:
                            lines.append('\t'.join([chrom, 'HAVANA', 'UTR', str(max(s, hi) + 1), str(e), '.', st, '.', tattr]))
                    for (s, e) in t.get('sec', []):
                        lines.append('\t'.join([chrom, 'HAVANA', 'Selenocysteine', str(s + 1), str(e), '.', st, '.', tattr]))
        return lines

    def proteome_records(self):
        out = []
        for tx_id, aa in self.proteins().items():
            g = self.gene_of[tx_id]['gene_id']
            out.append((f'{protein_id(tx_id)}|{tx_id}|{g}|-|-|-|{g}N|{len(aa)}', aa))
        return out

    def write(self, d: Path):
        d = Path(d)
        d.mkdir(parents=True, exist_ok=True)
        with open(d / 'genome.fasta', 'w') as f:
            f.write(f'>{self.chrom}\n{self.genome}\n')
        with open(d / 'annotation.gtf', 'w') as f:
            f.write('\n'.join(self.gtf_lines()) + '\n')
        with open(d / 'proteome.fasta', 'w') as f:
            for h, aa in self.proteome_records():
                f.write(f'>{h}\n{aa}\n')
        return d


def protein_id(tx_id: str) -> str:
    return tx_id.replace('ENST', 'ENSP') if 'ENST' in tx_id else tx_id + 'P'


# ---- GVF text ---------------------------------------------------------------------------
def gvf_header(parser='parseVEP', source='gSNP', extra=()):
    return ['##fileformat=VCFv4.2', f'##mopepgen_version={GVF_VERSION}', f'##parser={parser}',
            '##reference_index=', '##genome_fasta=', '##annotation_gtf=', f'##source={source}',
            '##CHROM=<Description="Gene ID">', *extra,
            '#CHROM\tPOS\tID\tREF\tALT\tQUAL\tFILTER\tINFO']


def write_gvf(path, lines, parser='parseVEP', source='gSNP'):
    with open(path, 'w') as f:
        f.write('\n'.join(gvf_header(parser, source) + list(lines)) + '\n')


def small_id(gene_pos, ref, alt):
    t = 'SNV' if len(ref) == len(alt) == 1 else ('INDEL' if len(ref) == 1 or len(alt) == 1 else 'MNV')
    return f'{t}-{gene_pos + 1}-{ref}-{alt}'


def small_line(gene_id, tx_id, gene_pos, ref, alt, vid=None):
    vid = vid or small_id(gene_pos, ref, alt)
    return (f'{gene_id}\t{gene_pos + 1}\t{vid}\t{ref}\t{alt}\t.\t.\t'
            f'TRANSCRIPT_ID={tx_id};GENOMIC_POSITION=chr1:1-2;GENE_SYMBOL={gene_id}N')


def fusion_line(ref: 'Ref', donor_tx, donor_gene_pos, acc_tx, acc_gene_pos, vid=None):
    """donor_gene_pos: gene coordinate of the first donor base NOT included; acc_gene_pos: gene
    coordinate of the first accepter base included."""
    dg = ref.gene_of[donor_tx]['gene_id']
    ag = ref.gene_of[acc_tx]['gene_id']
    vid = vid or f'FUSION-{donor_tx}:{donor_gene_pos}-{acc_tx}:{acc_gene_pos}'
    refb = ref.gene_seq(dg)[donor_gene_pos]
    return (f'{dg}\t{donor_gene_pos + 1}\t{vid}\t{refb}\t<FUSION>\t.\t.\t'
            f'TRANSCRIPT_ID={donor_tx};GENE_SYMBOL={dg}N;GENOMIC_POSITION=chr1:1:1;'
            f'ACCEPTER_GENE_ID={ag};ACCEPTER_TRANSCRIPT_ID={acc_tx};ACCEPTER_SYMBOL={ag}N;'
            f'ACCEPTER_POSITION={acc_gene_pos + 1};ACCEPTER_GENOMIC_POSITION=chr1:2:2')


def circ_line(gene_id, tx_id, frags, vid=None, introns=''):
    """frags: [(gene_start, gene_end)] sorted."""
    start = frags[0][0]
    off = ','.join(str(a - start) for a, b in frags)
    ln = ','.join(str(b - a) for a, b in frags)
    vid = vid or f'CIRC-{tx_id}-{frags[0][0]}:{frags[-1][1]}'
    return (f'{gene_id}\t{start}\t{vid}\t.\t.\t.\t.\tOFFSET={off};LENGTH={ln};INTRON={introns};'
            f'TRANSCRIPT_ID={tx_id};GENE_SYMBOL={gene_id}N;GENOMIC_POSITION=chr1:1:2')
