"""Independent transcription of the ExPASy PeptideCutter rules as position-class tables
(P4..P1 | P1'..P2').  No regular expressions; shares nothing with moPepGen.aa.expasy_rules.
A cleavage *site* x means the bond between s[x-1] and s[x] (0 < x <= len(s); x == len(s)
only for rules without a P1' requirement, mirroring "cut after the last residue")."""

def S(x): return ('in', frozenset(x))
def N(x): return ('not', frozenset(x))
W = ('any',)   # any residue letter (not the stop symbol '*')

# rule -> list of alternatives; alternative = (classes ending at P1, classes starting at P1')
T = {
 'arg-c': [([S('R')], [])],
 'asp-n': [([W], [S('D')])],
 'bnps-skatole': [([S('W')], [])],
 'caspase 1': [([S('FWYL'), W, S('HAT'), S('D')], [N('PEDQKR')])],
 'caspase 2': [([S('D'), S('V'), S('A'), S('D')], [N('PEDQKR')])],
 'caspase 3': [([S('D'), S('M'), S('Q'), S('D')], [N('PEDQKR')])],
 'caspase 4': [([S('L'), S('E'), S('V'), S('D')], [N('PEDQKR')])],
 'caspase 5': [([S('LW'), S('E'), S('H'), S('D')], [])],
 'caspase 6': [([S('V'), S('E'), S('HI'), S('D')], [N('PEDQKR')])],
 'caspase 7': [([S('D'), S('E'), S('V'), S('D')], [N('PEDQKR')])],
 'caspase 8': [([S('IL'), S('E'), S('T'), S('D')], [N('PEDQKR')])],
 'caspase 9': [([S('L'), S('E'), S('H'), S('D')], [])],
 'caspase 10': [([S('I'), S('E'), S('A'), S('D')], [])],
 'chymotrypsin high specificity': [([S('FY')], [N('P')]), ([S('W')], [N('MP')])],
 'chymotrypsin low specificity': [([S('FLY')], [N('P')]), ([S('W')], [N('MP')]),
                                  ([S('M')], [N('PY')]), ([S('H')], [N('DMPW')])],
 'clostripain': [([S('R')], [])],
 'cnbr': [([S('M')], [])],
 'enterokinase': [([S('DE'), S('DE'), S('DE'), S('K')], [])],
 'factor xa': [([S('AFGILTVM'), S('DE'), S('G'), S('R')], [])],
 'formic acid': [([S('D')], [])],
 'glutamyl endopeptidase': [([S('E')], [])],
 'granzyme b': [([S('I'), S('E'), S('P'), S('D')], [])],
 'hydroxylamine': [([S('N')], [S('G')])],
 'iodosobenzoic acid': [([S('W')], [])],
 'lysc': [([S('K')], [])],
 'lysn': [([W], [S('K')])],
 'ntcb': [([W], [S('C')])],
 'pepsin ph1.3': [([N('HKR'), N('P'), N('R')], [S('FL'), N('P')]),
                  ([N('HKR'), N('P'), S('FL')], [W, N('P')])],
 'pepsin ph2.0': [([N('HKR'), N('P'), N('R')], [S('FLWY'), N('P')]),
                  ([N('HKR'), N('P'), S('FLWY')], [W, N('P')])],
 'proline endopeptidase': [([S('HKR'), S('P')], [N('P')])],
 'proteinase k': [([S('AEFILTVWY')], [])],
 'staphylococcal peptidase i': [([N('E'), S('E')], [])],
 'thermolysin': [([N('DE')], [S('AFILMV')])],
 'thrombin': [([S('G'), S('R')], [S('G')]),
              ([S('AFGILTVM'), S('AFGILTVWA'), S('P'), S('R')], [N('DE'), N('DE')])],
 'trypsin': [([S('KR')], [N('P')]), ([S('W'), S('K')], [S('P')]), ([S('M'), S('R')], [S('P')])],
 'trypsin_exception': [([S('CD'), S('K')], [S('D')]), ([S('C'), S('K')], [S('HY')]),
                       ([S('C'), S('R')], [S('K')]), ([S('R'), S('R')], [S('HR')])],
}
RULES = [r for r in T if r != 'trypsin_exception']


def _m(cls, ch):
    if cls[0] == 'any':
        return ch.isalnum() or ch == '_'
    if cls[0] == 'in':
        return ch in cls[1]
    # a negated class matches any character except the listed ones and newline
    return ch not in cls[1] and ch != '\n'


def context(rule):
    """(max residues before the bond, max residues after the bond) the rule looks at."""
    return (max(len(b) for b, _ in T[rule]), max(len(a) for _, a in T[rule]))


def raw_sites(rule, s):
    """All positions x such that some alternative of `rule` matches around bond x."""
    out = []
    n = len(s)
    for x in range(1, n + 1):
        for before, after in T[rule]:
            lb, la = len(before), len(after)
            if x - lb < 0 or x + la > n:
                continue
            ok = True
            for i in range(lb):
                if not _m(before[i], s[x - lb + i]):
                    ok = False
                    break
            if ok:
                for i in range(la):
                    if not _m(after[i], s[x + i]):
                        ok = False
                        break
            if ok:
                out.append(x)
                break
    return out


def regex_like_sites(rule, s):
    """Sites as a left-to-right non-overlapping scan reports them.  The regexes consume only
    the P1 residue (everything else is look-around), so consecutive matches never block each
    other except through zero-width: identical to raw_sites for every rule in the table."""
    return raw_sites(rule, s)


def sites(rule, s, exception=None):
    """Cleavage sites of `s` under `rule`, minus those at which `exception` matches."""
    r = raw_sites(rule, s)
    if exception:
        ex = set(raw_sites(exception, s))
        r = [x for x in r if x not in ex]
    return r


def letters(rule):
    L = set()
    for b, a in T[rule]:
        for c in b + a:
            if c[0] != 'any':
                L |= c[1]
    return L
