"""In-process driver: builds the argparse.Namespace with the tool's *own* parser (so CLI
defaults are the tool's) and calls the command's entry function.  Nothing is cached across
calls; the code is imported from the working tree named by $VERIF_REPO (PYTHONPATH)."""
from __future__ import annotations
import argparse, io, logging, os, sys, traceback
from pathlib import Path

_parser = None


class _Quiet(logging.Handler):
    def __init__(self):
        super().__init__(level=logging.DEBUG)
        self.records = None

    def emit(self, record):
        if self.records is not None:
            try:
                self.records.append((record.levelname, record.getMessage()))
            except Exception:
                pass


_handler = _Quiet()


def _setup_logging():
    lg = logging.getLogger('moPepGen')
    if _handler not in lg.handlers:
        lg.addHandler(_handler)
        lg.propagate = False
    lg.setLevel(logging.INFO if _handler.records is not None else logging.CRITICAL + 1)


def parser():
    global _parser
    if _parser is None:
        from moPepGen import cli
        p = argparse.ArgumentParser(prog='moPepGen')
        sub = p.add_subparsers(dest='command')
        saved = sys.argv
        sys.argv = ['moPepGen', '-', '-']
        try:
            for name in dir(cli):
                if name.startswith('add_subparser_'):
                    getattr(cli, name)(sub)
        finally:
            sys.argv = saved
        _parser = p
    return _parser


class CliExit(Exception):
    pass


def parse(argv):
    argv = [str(a) for a in argv]
    # same preprocessing as moPepGen.cli.__main__ (values starting with '-<digit>')
    argv = [(' ' + a) if len(a) > 1 and a[0] == '-' and a[1].isdigit() else a for a in argv]
    err = io.StringIO()
    old = sys.stderr
    sys.stderr = err
    try:
        return parser().parse_args(argv)
    except SystemExit as e:
        raise CliExit(f'argparse exit {e.code}: {err.getvalue()[-400:]}')
    finally:
        sys.stderr = old


def run(argv, capture_log: bool = False, **override):
    """Run one command.  Returns dict(ok, exc, tb, log).  `override` sets Namespace attributes
    after parsing (for values argparse cannot express)."""
    _handler.records = [] if capture_log else None
    _setup_logging()
    res = dict(ok=True, exc=None, tb=None, log=None)
    try:
        args = parse(argv)
        for k, v in override.items():
            setattr(args, k, v)
        args.func(args)
    except BaseException as e:   # SystemExit included: the CLI calls sys.exit in places
        if isinstance(e, KeyboardInterrupt):
            raise
        res.update(ok=False, exc=f'{type(e).__name__}: {e}'[:500], tb=traceback.format_exc()[-2500:],
                   exc_type=type(e).__name__)
    res['log'] = _handler.records
    _handler.records = None
    return res


def read_fasta(path):
    """FASTA -> list of (header, seq) in file order (independent minimal reader)."""
    out = []
    hdr = None
    buf = []
    with open(path) as f:
        for line in f:
            line = line.rstrip('\n')
            if line.startswith('>'):
                if hdr is not None:
                    out.append((hdr, ''.join(buf)))
                hdr = line[1:]
                buf = []
            elif line:
                buf.append(line)
    if hdr is not None:
        out.append((hdr, ''.join(buf)))
    return out


def fasta_seqs(path):
    return {s for _, s in read_fasta(path)}


def write_fasta(path, records):
    with open(path, 'w') as f:
        for h, s in records:
            f.write(f'>{h}\n{s}\n')


def cleavage_argv(rule='trypsin', exception='trypsin_exception', misc=2, min_length=7, max_length=25,
                  min_mw=500.):
    a = ['--cleavage-rule', rule, '--miscleavage', misc, '--min-length', min_length,
         '--max-length', max_length, '--min-mw', min_mw]
    if exception is not None:
        a += ['--cleavage-exception', exception]
    else:
        a += ['--cleavage-exception', 'None']
    return a


def ref_argv(refdir: Path = None, index_dir: Path = None, proteome=True, genome=True):
    if index_dir is not None:
        return ['--index-dir', index_dir]
    a = ['--annotation-gtf', Path(refdir) / 'annotation.gtf']
    if genome:
        a += ['--genome-fasta', Path(refdir) / 'genome.fasta']
    if proteome:
        a += ['--proteome-fasta', Path(refdir) / 'proteome.fasta']
    return a


def call_variant(out: Path, gvfs, refdir=None, index_dir=None, cleavage=None, flags=(), capture_log=False,
                 max_variants_per_node=(-1,), additional_variants_per_misc=(-1,), threads=1, **override):
    """callVariant with the complexity limits disabled by default.  Returns
    dict(ok, exc, peptides: {seq: [header entries]}, table_rows, log)."""
    out = Path(out)
    for p in (out, out.parent / f'{out.stem}_peptide_table.txt'):
        if p.exists():
            p.unlink()
    argv = ['callVariant', '-o', out, '--threads', threads, '-i'] + [str(g) for g in gvfs]
    argv += ['--max-variants-per-node'] + [str(x) for x in max_variants_per_node]
    argv += ['--additional-variants-per-misc'] + [str(x) for x in additional_variants_per_misc]
    argv += ref_argv(refdir, index_dir) + (cleavage if cleavage is not None else cleavage_argv()) + list(flags)
    argv += ['--quiet']
    res = run(argv, capture_log=capture_log, **override)
    res['peptides'] = None
    res['table'] = None
    if res['ok'] and out.exists():
        pep = {}
        order = []
        for h, s in read_fasta(out):
            order.append((h, s))
            pep.setdefault(s, []).extend(h.split(' '))
        res['peptides'] = pep
        res['fasta_records'] = order
        t = out.parent / f'{out.stem}_peptide_table.txt'
        if t.exists():
            res['table'] = t.read_text()
    return res
