"""Reference model: string-level translation, digestion and haplotype enumeration.
Deliberately boring: str, list, set.  Shares no code with moPepGen; the only foreign code is
Bio.SeqUtils.molecular_weight (so float masses compare bit-identically with the tool)."""
from __future__ import annotations
import itertools
from Bio import SeqUtils
import expasy_table as ET

BASES = 'TCAG'
_AAS = 'FFLLSSSSYY**CC*WLLLLPPPPHHQQRRRRIIIMTTTTNNKKSSRRVVVVAAAADDEEGGGG'
CODON_TABLE = {a + b + c: _AAS[16 * i + 4 * j + k]
               for i, a in enumerate(BASES) for j, b in enumerate(BASES) for k, c in enumerate(BASES)}
# one fixed codon per residue, used by the reference designers
CODON = {'A': 'GCT', 'C': 'TGT', 'D': 'GAT', 'E': 'GAA', 'F': 'TTT', 'G': 'GGT', 'H': 'CAT', 'I': 'ATT',
         'K': 'AAA', 'L': 'CTG', 'M': 'ATG', 'N': 'AAT', 'P': 'CCT', 'Q': 'CAA', 'R': 'CGT', 'S': 'TCT',
         'T': 'ACT', 'V': 'GTT', 'W': 'TGG', 'Y': 'TAT', '*': 'TAA', 'U': 'TGA'}
_COMP = {'A': 'T', 'C': 'G', 'G': 'C', 'T': 'A', 'N': 'N'}


def back_translate(aas: str) -> str:
    return ''.join(CODON[a] for a in aas)


def revcomp(s: str) -> str:
    return ''.join(_COMP[c] for c in reversed(s))


def translate(seq: str, start: int = 0, sec: frozenset = frozenset(), to_stop: bool = True) -> str:
    """Translate seq[start:] codon by codon.  A TGA codon whose first base index is in `sec`
    reads as U.  Stops at the first stop codon when to_stop (stop not included)."""
    out = []
    for i in range(start, len(seq) - 2, 3):
        c = seq[i:i + 3]
        if c == 'TGA' and i in sec:
            out.append('U')
            continue
        a = CODON_TABLE.get(c, 'X')
        if a == '*' and to_stop:
            break
        out.append(a)
    return ''.join(out)


def has_stop(seq: str, start: int, sec: frozenset = frozenset()) -> bool:
    for i in range(start, len(seq) - 2, 3):
        c = seq[i:i + 3]
        if c == 'TGA' and i in sec:
            continue
        if CODON_TABLE.get(c) == '*':
            return True
    return False


def cleave_sites(prot: str, rule: str, exception: str = None):
    return [x for x in ET.sites(rule, prot, exception) if 0 < x < len(prot)]


def digest(prot: str, rule: str = 'trypsin', exception: str = None, misc: int = 2, clip_m: bool = True,
           drop_last: bool = False, with_span: bool = False):
    """All products with at most `misc` internal cleavage sites; the N-terminal products also
    without their leading M when clip_m.  drop_last: omit products that reach the end of
    `prot` (used for open-ended translations).  Returns a set of str, or with_span a set of
    (str, n_internal_sites, is_nterm, reaches_end)."""
    s = [0] + cleave_sites(prot, rule, exception) + [len(prot)]
    out = set()
    for i in range(len(s) - 1):
        for j in range(i + 1, min(i + misc + 1, len(s) - 1) + 1):
            if drop_last and j == len(s) - 1:
                continue
            p = prot[s[i]:s[j]]
            if not p:
                continue
            if with_span:
                out.add((p, j - i - 1, i == 0, j == len(s) - 1))
            else:
                out.add(p)
            if i == 0 and clip_m and p.startswith('M') and len(p) > 1:
                if with_span:
                    out.add((p[1:], j - i - 1, True, j == len(s) - 1))
                else:
                    out.add(p[1:])
    return out


_mw_cache = {}


def mol_weight(p: str) -> float:
    v = _mw_cache.get(p)
    if v is None:
        v = SeqUtils.molecular_weight(p, 'protein')
        if len(_mw_cache) < 500000:
            _mw_cache[p] = v
    return v


def valid(p: str, min_length: int = 7, max_length: int = 25, min_mw: float = 500.) -> bool:
    if not p or 'X' in p or '*' in p:
        return False
    if not min_length <= len(p) <= max_length:
        return False
    try:
        return mol_weight(p) >= min_mw
    except Exception:
        return False


def apply_variants(seq: str, variants) -> str:
    """variants: iterable of (start, end, alt) on `seq`, pairwise non-overlapping; the result
    replaces seq[start:end] by alt for each."""
    out = []
    cur = 0
    for s, e, alt in sorted(variants, key=lambda v: (v[0], v[1])):
        assert s >= cur, (variants,)
        out.append(seq[cur:s])
        out.append(alt)
        cur = e
    out.append(seq[cur:])
    return ''.join(out)


def shift_pos(pos: int, variants) -> int:
    """Position in the mutated sequence of reference position `pos` (must not lie inside a
    replaced interval)."""
    d = 0
    for s, e, alt in variants:
        if e <= pos:
            d += len(alt) - (e - s)
    return pos + d


def compatible(vs, adjacent_ok: bool = False) -> bool:
    vs = sorted(vs, key=lambda v: (v[0], v[1]))
    for a, b in zip(vs, vs[1:]):
        if adjacent_ok:
            if a[1] > b[0]:
                return False
        elif a[1] >= b[0]:
            return False
    return True


def subsets(variants, min_size: int = 1):
    for k in range(min_size, len(variants) + 1):
        yield from itertools.combinations(variants, k)


def orf_starts(seq: str, min_start: int = 0, max_start: int = None):
    i = seq.find('ATG')
    while i >= 0:
        if i >= min_start and (max_start is None or i < max_start):
            yield i
        i = seq.find('ATG', i + 1)


def il_image(pool):
    out = set(pool)
    out.update(p.replace('I', 'L') for p in pool)
    return out


class Cleavage:
    """Normalised cleavage settings as the property states them."""
    def __init__(self, rule='trypsin', exception=None, misc=2, min_length=7, max_length=25, min_mw=500.):
        self.rule, self.misc = rule, int(misc)
        if exception == 'auto':
            exception = 'trypsin_exception' if rule == 'trypsin' else None
        if exception in ('None', ''):
            exception = None
        self.exception = exception
        self.min_length, self.max_length, self.min_mw = int(min_length), int(max_length), float(min_mw)

    def digest(self, prot, clip_m=True, drop_last=False, misc=None, with_span=False):
        return digest(prot, self.rule, self.exception, self.misc if misc is None else misc, clip_m,
                      drop_last, with_span)

    def valid(self, p):
        return valid(p, self.min_length, self.max_length, self.min_mw)

    def key(self):
        return (self.rule, self.exception, self.misc, self.min_length, self.max_length, self.min_mw)


def canonical_pool(proteins, cl: Cleavage, cds_start_nf=frozenset()):
    """proteins: dict tx_id -> amino-acid string as in the proteome FASTA.  Pool = valid digestion
    products of each (leading X removed, cut at first stop), with the M-removed N-terminal form
    unless the transcript is cds_start_NF, plus the I->L image of each."""
    pool = set()
    for tx, aa in proteins.items():
        aa = aa.lstrip('X')
        k = aa.find('*')
        if k >= 0:
            aa = aa[:k]
        for p in cl.digest(aa, clip_m=tx not in cds_start_nf):
            if cl.valid(p):
                pool.add(p)
    return il_image(pool)
