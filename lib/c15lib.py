"""C15 helpers: the fusion reference (R7-like), tool-row writers (STAR-Fusion, FusionCatcher, Arriba),
an independent GVF reader/interpretation for fusion records, and the two fused-sequence
derivations (from genomic breakpoints + raw exon intervals; from a GVF record + gene coordinates).

Conventions used for the tool rows (from the tools' manuals and the repository's test inputs
test/files/fusion/*, test/unit/test_*_parser.py, test/integration/test_parse_star_fusion.py):
  * all three tools report 1-based genomic coordinates;
  * the donor (5', left, gene1) breakpoint names the LAST donor base retained in the fusion
    transcript, the acceptor (3', right, gene2) breakpoint names the FIRST acceptor base retained;
  * STAR-Fusion:   LeftBreakpoint / RightBreakpoint = 'chrN:pos:strand' (strand of the gene),
                   LeftGene / RightGene = 'SYMBOL^GENE_ID';
  * FusionCatcher: Fusion_point_for_gene_1/2 = 'N:pos:strand' (Ensembl chromosome name without
                   'chr', strand of the gene), gene ids unversioned Ensembl ids; first line is a header;
  * Arriba:        breakpoint1/2 = 'chrN:pos', strand1/2 = 'gene strand/fusion strand',
                   direction1/2 = side of the breakpoint on which the partner is attached.
GVF fusion record (docs/file-format.md 1.3, lib/refgen.fusion_line): CHROM = donor gene id, POS =
1-based gene coordinate of the first donor base NOT retained, TRANSCRIPT_ID = donor transcript,
ACCEPTER_POSITION = 1-based gene coordinate (acceptor gene) of the first acceptor base retained.
"""
from __future__ import annotations
import oracle as O
import refgen

# ---- reference ----------------------------------------------------------------------------
_SYN = {}
for _c, _a in O.CODON_TABLE.items():
    _SYN.setdefault(_a, []).append(_c)
for _a in _SYN:
    _SYN[_a].sort()


def back_translate_varied(aas: str, salt: int) -> str:
    """Deterministic back-translation that rotates through synonymous codons (keeps the
    nucleotide sequence free of long repeats)."""
    out = []
    for i, a in enumerate(aas):
        cs = _SYN[a]
        out.append(cs[(i * 7 + salt * 3 + ord(a)) % len(cs)])
    return ''.join(out)


# proteins: K/R every 4-8 residues, no P after K/R, no internal M (so no alternative starts in frame),
# distinct residues around the split points
_PROT = {
    'A': 'MSTEQKLVDAGRWYNHEVKTLFSDARGQCEYIKNVWTSR',
    'B': 'MGHWDEKVASLYRTNFQEIKCDGSWLRAYHVTEKNLGFR',
    'C': 'MTDYFQRELHNAWKGVSICRDQTYEFKLANHSGVR',
    'D': 'MEAIWGKSDLFHTRNVQYCEKADGLWSFRTHENIK',
}
_UTR5 = {'A': 'GGCACT', 'B': 'CATCGG', 'C': 'TCGGAC', 'D': 'GACTTC'}
# 3'UTR: stop codons in all three frames early on
_UTR3 = {'A': 'GCTAACTGACTAGCATTCG', 'B': 'CGTAGTTGAATAACGGCTAC', 'C': 'ACTGAGTAGCTAATCGCA', 'D': 'TCTAGGTGAATAACAGCG'}
_STOP = {'A': 'TAA', 'B': 'TGA', 'C': 'TAG', 'D': 'TAA'}
_INTRON = {
    'A': ('GTAAGTCCTTGCATCGATTCAG', 'GTCAGCATTGGACTCTAATGCTTGCAG'),
    'B': ('GTACGATTCCGAGTTGCCTAG', 'GTCTGTTAGGCATACGGTCCAAG'),
    'C': ('GTTAGCGCATATCGGTACAG', 'GTATGCGTTGGCTTAAGCAG'),
    'D': ('GTGCTAAGGATCCGTTATAG', 'GTCGTATGCCAATTGGCTCAG'),
}
_SPACER = ['ACGTTGCAAGCT', 'TTGACCGGTAAC', 'CCATGGATATCG', 'GGTTAACCTGCA', 'AGCTAGTCGACT']


def _gene_layout(key, strand, off, alt):
    """Returns (genome piece, [transcripts as dict(exons_gene=[...])], ...) for one gene built in
    gene orientation.  alt = function(exons_gene, L) -> list of alternative exon lists."""
    cds = back_translate_varied(_PROT[key], ord(key))
    tx = _UTR5[key] + cds + _STOP[key] + _UTR3[key]
    n = len(tx)
    s1 = len(_UTR5[key]) + 3 * 11 + 1          # split inside a codon
    s2 = len(_UTR5[key]) + 3 * 25 + 2          # split inside a codon, other phase
    i1, i2 = _INTRON[key]
    gseq = tx[:s1] + i1 + tx[s1:s2] + i2 + tx[s2:]
    L = len(gseq)
    ex = [(0, s1), (s1 + len(i1), s2 + len(i1)), (s2 + len(i1) + len(i2), L)]
    return gseq, ex, L


def _orf_end(gseq, exons_gene, cds_start_gene):
    """Gene coordinate span end (exclusive) of the last coding base before the first in-frame stop."""
    txs = ''.join(gseq[a:b] for a, b in exons_gene)
    # transcript index of cds start
    off = 0
    t0 = None
    for a, b in exons_gene:
        if a <= cds_start_gene < b:
            t0 = off + cds_start_gene - a
        off += b - a
    assert t0 is not None
    i = t0
    while i + 3 <= len(txs):
        if O.CODON_TABLE[txs[i:i + 3]] == '*':
            break
        i += 3
    else:
        raise AssertionError('no stop codon in isoform')
    last = i - 1       # transcript index of the last coding base
    off = 0
    for a, b in exons_gene:
        if last < off + (b - a):
            return a + last - off + 1
        off += b - a
    raise AssertionError


def build_ref():
    """Four coding genes of three exons each: A (+, two isoforms), B (-, two isoforms), C (+), D (-)."""
    genome = _SPACER[0]
    genes = []
    spec = [('A', 1), ('B', -1), ('C', 1), ('D', -1)]
    for gi, (key, strand) in enumerate(spec):
        gseq, ex, L = _gene_layout(key, strand, len(genome), None)
        isoforms = [ex]
        if key == 'A':
            # alt 5' end (3 nt shorter 5'UTR), alt donor site of exon 2 (+7 nt, frameshift), shorter 3'UTR
            isoforms.append([(3, ex[0][1]), (ex[1][0], ex[1][1] + 7), (ex[2][0], L - 5)])
        if key == 'B':
            # exon 2 skipped; exon 3 with an alternative acceptor site 4 nt upstream
            isoforms.append([(0, ex[0][1]), (ex[2][0] - 4, L)])
        off = len(genome)
        piece = gseq if strand == 1 else O.revcomp(gseq)
        txs = []
        for k, iso in enumerate(isoforms):
            cds_s = len(_UTR5[key])
            cds_e = _orf_end(gseq, iso, cds_s)
            if strand == 1:
                exg = [(off + a, off + b) for a, b in iso]
                cds = (off + cds_s, off + cds_e)
            else:
                exg = sorted((off + L - b, off + L - a) for a, b in iso)
                cds = (off + L - cds_e, off + L - cds_s)
            txs.append(dict(tx_id=f'ENST{gi + 1:02d}{k + 1}.{k + 2}', exons=exg, cds=cds))
        genes.append(dict(gene_id=f'ENSG{gi + 1:03d}.{gi + 3}', strand=strand, transcripts=txs))
        genome += piece + _SPACER[gi + 1]
    R = refgen.Ref(genome, genes, chrom='chr1', name='R7c15')
    return R


def check_ref(R, k=9):
    """Design assertions: coding transcripts translate to their proteins with a stop, and no k-mer
    occurs twice in the genome (so a shifted window is always visible in the sequence)."""
    seen = {}
    g = R.genome
    for i in range(len(g) - k + 1):
        w = g[i:i + k]
        assert w not in seen, ('repeated k-mer', w, seen[w], i)
        seen[w] = i
    for t in R.tx:
        c = R.cds_tx(t)
        s = R.tx_seq(t)
        assert s[c[0]:c[0] + 3] == 'ATG', t
        assert O.CODON_TABLE[s[c[1]:c[1] + 3]] == '*', (t, s[c[1]:c[1] + 3])
        assert '*' not in R.protein(t)


# ---- direct derivation from genomic breakpoints and raw exon intervals -----------------------
def tx_span(R, tx_id):
    ex = R.tx[tx_id]['exons']
    return ex[0][0], ex[-1][1]


def eligible(R, gene_id, g0):
    """Transcripts of the gene whose span [first exon start, last exon end) contains the genomic
    0-based position g0 (exonic or intronic)."""
    out = []
    for t in R.gene[gene_id]['transcripts']:
        a, b = tx_span(R, t['tx_id'])
        if a <= g0 < b:
            out.append(t['tx_id'])
    return out


_COMPL = {'A': 'T', 'C': 'G', 'G': 'C', 'T': 'A', 'N': 'N'}
_part_cache = {}


def _tx_order(R, tx_id):
    """Genomic 0-based positions of the exonic bases of the transcript in 5'->3' order."""
    order = [g for a, b in R.tx[tx_id]['exons'] for g in range(a, b)]
    if R.gene_of[tx_id]['strand'] == -1:
        order.reverse()
    return order


def _read(R, tx_id, positions):
    G = R.genome
    if R.gene_of[tx_id]['strand'] == 1:
        return ''.join(G[g] for g in positions)
    return ''.join(_COMPL[G[g]] for g in positions)


def donor_part_genomic(R, tx_id, g_last):
    """Sequence (5'->3' of the transcript) of the donor transcript up to and including genomic
    0-based base g_last; if g_last is intronic the intronic bases between the preceding exon and
    g_last (inclusive) are retained.  Position-list arithmetic on the genome string."""
    k = ('d', tx_id, g_last)
    if k in _part_cache:
        return _part_cache[k]
    step = R.gene_of[tx_id]['strand']
    kept = [g for g in _tx_order(R, tx_id) if (g - g_last) * step <= 0]
    if not kept:
        raise ValueError('breakpoint upstream of the transcript')
    if kept[-1] != g_last:
        kept += list(range(kept[-1] + step, g_last + step, step))
    out = _part_cache[k] = _read(R, tx_id, kept)
    return out


def acceptor_part_genomic(R, tx_id, g_first):
    """Sequence of the acceptor transcript from genomic 0-based base g_first (inclusive) to the
    transcript end; intronic bases from g_first to the next exon are retained if g_first is intronic."""
    k = ('a', tx_id, g_first)
    if k in _part_cache:
        return _part_cache[k]
    step = R.gene_of[tx_id]['strand']
    kept = [g for g in _tx_order(R, tx_id) if (g - g_first) * step >= 0]
    if not kept:
        raise ValueError('breakpoint downstream of the transcript')
    if kept[0] != g_first:
        kept = list(range(g_first, kept[0], step)) + kept
    out = _part_cache[k] = _read(R, tx_id, kept)
    return out


def is_exonic_genomic(R, tx_id, g0):
    return any(a <= g0 < b for a, b in R.tx[tx_id]['exons'])


# ---- GVF reading + interpretation in gene coordinates -------------------------------------------
def read_gvf(path):
    """Independent minimal GVF reader: returns (meta dict, [record dict])."""
    meta = {}
    recs = []
    with open(path) as f:
        for line in f:
            line = line.rstrip('\n')
            if line.startswith('##'):
                if '=' in line:
                    k, v = line[2:].split('=', 1)
                    meta.setdefault(k, v)
                continue
            if line.startswith('#') or not line:
                continue
            fs = line.split('\t')
            info = {}
            for kv in fs[7].split(';'):
                k, _, v = kv.partition('=')
                info[k] = v
            recs.append(dict(chrom=fs[0], pos=int(fs[1]), id=fs[2], ref=fs[3], alt=fs[4], info=info, line=line))
    return meta, recs


def donor_part_gene(R, tx_id, p):
    """Donor transcript up to gene coordinate p (first base NOT retained), with the intronic bases
    [end of preceding exon, p) retained when base p-1 is intronic."""
    gid = R.gene_of[tx_id]['gene_id']
    gs = R.gene_seq(gid)
    parts = []
    last_end = None
    for a, b in R.exons_gene(tx_id):
        if b <= p:
            parts.append(gs[a:b])
            last_end = b
        elif a < p:
            parts.append(gs[a:p])
            last_end = p
            break
        else:
            break
    if last_end is not None and last_end < p:
        parts.append(gs[last_end:p])
    return ''.join(parts)


def acceptor_part_gene(R, tx_id, q):
    """Acceptor transcript from gene coordinate q (first base retained), with the intronic bases
    [q, start of next exon) retained when q is intronic."""
    gid = R.gene_of[tx_id]['gene_id']
    gs = R.gene_seq(gid)
    parts = []
    started = False
    for a, b in R.exons_gene(tx_id):
        if b <= q:
            continue
        if not started:
            started = True
            if a <= q:
                parts.append(gs[q:b])
            else:
                parts.append(gs[q:a])
                parts.append(gs[a:b])
        else:
            parts.append(gs[a:b])
    return ''.join(parts)


def interpret_record(R, rec):
    """GVF fusion record -> dict(donor_tx, acc_tx, donor, acceptor, fused) or raises ValueError
    when the record cannot be interpreted (that is a mis-parse)."""
    if rec['alt'] != '<FUSION>':
        raise ValueError(f'ALT is {rec["alt"]}')
    info = rec['info']
    for k in ('TRANSCRIPT_ID', 'ACCEPTER_GENE_ID', 'ACCEPTER_TRANSCRIPT_ID', 'ACCEPTER_POSITION'):
        if k not in info:
            raise ValueError(f'missing INFO key {k}')
    dtx, atx = info['TRANSCRIPT_ID'], info['ACCEPTER_TRANSCRIPT_ID']
    if dtx not in R.tx or atx not in R.tx:
        raise ValueError('unknown transcript')
    if R.gene_of[dtx]['gene_id'] != rec['chrom']:
        raise ValueError('CHROM is not the gene of the donor transcript')
    if R.gene_of[atx]['gene_id'] != info['ACCEPTER_GENE_ID']:
        raise ValueError('ACCEPTER_GENE_ID is not the gene of the acceptor transcript')
    p = rec['pos'] - 1
    q = int(info['ACCEPTER_POSITION']) - 1
    glen_d = len(R.gene_seq(rec['chrom']))
    glen_a = len(R.gene_seq(info['ACCEPTER_GENE_ID']))
    if not 0 < p <= glen_d or not 0 <= q < glen_a:
        raise ValueError('position outside the gene')
    d = donor_part_gene(R, dtx, p)
    a = acceptor_part_gene(R, atx, q)
    return dict(donor_tx=dtx, acc_tx=atx, donor=d, acceptor=a, fused=d + a, p=p, q=q)


# ---- tool rows ------------------------------------------------------------------------------
def _sym(gid):
    return gid.split('.')[0] + 'N' if False else gid + 'N'


def _strand_chr(s):
    return '+' if s == 1 else '-'


class Row:
    """One fusion call: donor gene id, 0-based genomic index of the last donor base retained,
    acceptor gene id, 0-based genomic index of the first acceptor base retained, evidence values."""
    __slots__ = ('dg', 'd0', 'ag', 'a0', 'ev', 'strands', 'tag')

    def __init__(self, dg, d0, ag, a0, ev=None, strands=None, tag=''):
        self.dg, self.d0, self.ag, self.a0 = dg, d0, ag, a0
        self.ev = ev or {}
        self.strands = strands     # (gene strand1, gene strand2) for unknown genes
        self.tag = tag

    def key(self):
        return (self.dg, self.d0 + 1, self.ag, self.a0 + 1)


def gene_strand(R, gid, row, which):
    if gid in R.gene:
        return R.gene[gid]['strand']
    return (row.strands or (1, 1))[which]


STAR_HEADER = ('#FusionName\tJunctionReadCount\tSpanningFragCount\test_J\test_S\tSpliceType\tLeftGene\t'
               'LeftBreakpoint\tRightGene\tRightBreakpoint\tJunctionReads\tSpanningFrags\tLargeAnchorSupport\t'
               'FFPM\tLeftBreakDinuc\tLeftBreakEntropy\tRightBreakDinuc\tRightBreakEntropy\tannots')


def star_row(R, row):
    ev = row.ev
    s1 = _strand_chr(gene_strand(R, row.dg, row, 0))
    s2 = _strand_chr(gene_strand(R, row.ag, row, 1))
    est_j = ev.get('est_j', 10.0)
    return '\t'.join([
        f'{row.dg}N--{row.ag}N', '4', '5', f'{est_j:.2f}', '3.86', 'ONLY_REF_SPLICE',
        f'{row.dg}N^{row.dg}', f'{R.chrom}:{row.d0 + 1}:{s1}', f'{row.ag}N^{row.ag}', f'{R.chrom}:{row.a0 + 1}:{s2}',
        'read1,read2', 'frag1,frag2', 'YES_LDAS', '0.1045', 'GT', '1.9086', 'AG', '1.7232',
        '["INTRACHROMOSOMAL[chr1:0.00Mb]"]'])


FC_HEADER = ('Gene_1_symbol(5end_fusion_partner)\tGene_2_symbol(3end_fusion_partner)\tFusion_description\t'
             'Counts_of_common_mapping_reads\tSpanning_pairs\tSpanning_unique_reads\tLongest_anchor_found\t'
             'Fusion_finding_method\tFusion_point_for_gene_1(5end_fusion_partner)\t'
             'Fusion_point_for_gene_2(3end_fusion_partner)\tGene_1_id(5end_fusion_partner)\t'
             'Gene_2_id(3end_fusion_partner)\tExon_1_id(5end_fusion_partner)\tExon_2_id(3end_fusion_partner)\t'
             'Fusion_sequence\tPredicted_effect')


def fc_row(R, row, versioned=False):
    ev = row.ev
    s1 = _strand_chr(gene_strand(R, row.dg, row, 0))
    s2 = _strand_chr(gene_strand(R, row.ag, row, 1))
    chrom = R.chrom[3:] if R.chrom.startswith('chr') else R.chrom
    g1 = row.dg if versioned else row.dg.split('.')[0]
    g2 = row.ag if versioned else row.ag.split('.')[0]
    return '\t'.join([
        f'{row.dg}N', f'{row.ag}N', 'known,m9', str(ev.get('common_mapping', 0)), '120',
        str(ev.get('spanning_unique', 10)), '21', 'BOWTIE;BOWTIE+STAR', f'{chrom}:{row.d0 + 1}:{s1}',
        f'{chrom}:{row.a0 + 1}:{s2}', g1, g2, '', '', 'ACGTACGTAC*TGCATGCATG', 'in-frame'])


ARRIBA_HEADER = ('#gene1\tgene2\tstrand1(gene/fusion)\tstrand2(gene/fusion)\tbreakpoint1\tbreakpoint2\tsite1\tsite2\t'
                 'type\tsplit_reads1\tsplit_reads2\tdiscordant_mates\tcoverage1\tcoverage2\tconfidence\t'
                 'reading_frame\ttags\tretained_protein_domains\tclosest_genomic_breakpoint1\t'
                 'closest_genomic_breakpoint2\tgene_id1\tgene_id2\ttranscript_id1\ttranscript_id2\tdirection1\t'
                 'direction2\tfilters\tfusion_transcript\tpeptide_sequence\tread_identifiers')


def arriba_row(R, row):
    ev = row.ev
    st1 = gene_strand(R, row.dg, row, 0)
    st2 = gene_strand(R, row.ag, row, 1)
    s1, s2 = _strand_chr(st1), _strand_chr(st2)
    f1 = ev.get('fusion_strand1', s1)
    f2 = ev.get('fusion_strand2', s2)
    # direction: on which genomic side of the breakpoint the partner is attached.  The donor keeps
    # what lies upstream (in transcript sense) of the breakpoint, so the partner is attached
    # genomically downstream for a + donor and upstream for a - donor; mirrored for the acceptor.
    d1 = 'downstream' if st1 == 1 else 'upstream'
    d2 = 'upstream' if st2 == 1 else 'downstream'
    return '\t'.join([
        f'{row.dg}N', f'{row.ag}N', f'{s1}/{f1}', f'{s2}/{f2}', f'{R.chrom}:{row.d0 + 1}', f'{R.chrom}:{row.a0 + 1}',
        'CDS/splice-site', 'CDS/splice-site', 'translocation', str(ev.get('split_reads1', 9)),
        str(ev.get('split_reads2', 8)), '19', '191', '92', ev.get('confidence', 'high'), 'in-frame', '.', '.',
        '.', '.', row.dg, row.ag, '.', '.', d1, d2, 'duplicates(3),mismatches(1)', 'ACGTACGTAC|TGCATGCATG', '.',
        'read1,read2'])


TOOLS = ('star', 'fc', 'arriba')
COMMAND = {'star': 'parseSTARFusion', 'fc': 'parseFusionCatcher', 'arriba': 'parseArriba'}


def write_rows(path, R, tool, rows, fc_versioned=False):
    with open(path, 'w') as f:
        if tool == 'star':
            f.write(STAR_HEADER + '\n')
            for r in rows:
                f.write(star_row(R, r) + '\n')
        elif tool == 'fc':
            f.write(FC_HEADER + '\n')
            for r in rows:
                f.write(fc_row(R, r, fc_versioned) + '\n')
        else:
            f.write(ARRIBA_HEADER + '\n')
            for r in rows:
                f.write(arriba_row(R, r) + '\n')


def row_text(R, tool, row, fc_versioned=False):
    if tool == 'star':
        return star_row(R, row)
    if tool == 'fc':
        return fc_row(R, row, fc_versioned)
    return arriba_row(R, row)


def record_row_key(rec):
    """(donor gene, donor 1-based genomic bp, acceptor gene, acceptor 1-based genomic bp) named by
    the record's GENOMIC_POSITION / ACCEPTER_GENOMIC_POSITION attributes, or None."""
    try:
        gp = rec['info']['GENOMIC_POSITION'].split(':')
        ap = rec['info']['ACCEPTER_GENOMIC_POSITION'].split(':')
        return (rec['chrom'], int(gp[1]), rec['info']['ACCEPTER_GENE_ID'], int(ap[1]))
    except Exception:
        return None


def expected_pairs(R, row):
    """{(donor_tx, acc_tx): dict(donor, acceptor, fused)} computed from the genomic breakpoints."""
    out = {}
    if row.dg not in R.gene or row.ag not in R.gene:
        return out
    for d in eligible(R, row.dg, row.d0):
        dp = donor_part_genomic(R, d, row.d0)
        for a in eligible(R, row.ag, row.a0):
            ap = acceptor_part_genomic(R, a, row.a0)
            out[(d, a)] = dict(donor=dp, acceptor=ap, fused=dp + ap)
    return out


# ---- position classes (for stable, mechanism-grouped violation keys) -----------------------------
def pos_class(R, tx_id, g0):
    """Class of genomic base g0 relative to the transcript (in transcript direction)."""
    ex = R.tx[tx_id]['exons']
    strand = R.gene_of[tx_id]['strand']
    lo, hi = ex[0][0], ex[-1][1]
    if not lo <= g0 < hi:
        return 'outside'
    for i, (a, b) in enumerate(ex):
        if a <= g0 < b:
            first, last = (a, b - 1) if strand == 1 else (b - 1, a)
            is_first_exon = (i == 0) if strand == 1 else (i == len(ex) - 1)
            is_last_exon = (i == len(ex) - 1) if strand == 1 else (i == 0)
            if g0 == last:
                return 'tx-last' if is_last_exon else 'exon-last'
            if g0 == first:
                return 'tx-first' if is_first_exon else 'exon-first'
            return 'exon'
    for (a, b), (c, d) in zip(ex, ex[1:]):
        if b <= g0 < c:
            first, last = (b, c - 1) if strand == 1 else (c - 1, b)
            if g0 == first:
                return 'intron-first'
            if g0 == last:
                return 'intron-last'
            return 'intron'
    return 'outside'


def n_exonic_retained(R, tx_id, g_last):
    """Number of exonic donor bases retained when g_last is the last retained genomic base."""
    step = R.gene_of[tx_id]['strand']
    return sum(1 for g in _tx_order(R, tx_id) if (g - g_last) * step <= 0)


def donor_region(R, tx_id, g_last):
    c = R.cds_tx(tx_id)
    n = n_exonic_retained(R, tx_id, g_last)
    if c is None:
        return 'nc'
    if n < c[0] + 3:
        return '5utr'
    if n <= c[1]:
        return 'cds'
    return '3utr'


# ---- end-to-end oracle -----------------------------------------------------------------------------
def fusion_peptides(R, donor_tx, donor_part, acceptor_part, n_ex, cl, canonical):
    """(MAY, MUST) for one fusion transcript.
    MAY : every digestion product (<= cl.misc missed cleavages, with / without the N-terminal M) of the
          translation of donor_part+acceptor_part from the annotated ORF start of the donor (coding
          donors, start codon intact), or from any ATG (non-coding donors).
    MUST: the valid products of that translation that span the junction, are not canonical, are not
          products of the unmodified donor protein, and do not end at an open (stop-less) end; only when
          the start codon lies entirely in the retained exonic donor sequence (n_ex >= ORF start + 3)."""
    fused = donor_part + acceptor_part
    J = len(donor_part)
    c = R.cds_tx(donor_tx)
    may, must = set(), set()
    if c is not None:
        starts = [c[0]] if fused[c[0]:c[0] + 3] == 'ATG' else []
    else:
        starts = list(O.orf_starts(fused))
    for st in starts:
        prot = O.translate(fused, st)
        stop = O.has_stop(fused, st)
        s = [0] + O.cleave_sites(prot, cl.rule, cl.exception) + [len(prot)]
        for i in range(len(s) - 1):
            for j in range(i + 1, min(i + cl.misc + 1, len(s) - 1) + 1):
                forms = [(s[i], s[j])]
                if i == 0 and prot.startswith('M') and s[j] > 1:
                    forms.append((1, s[j]))
                for a, b in forms:
                    p = prot[a:b]
                    if not p:
                        continue
                    may.add(p)
                    if c is None or n_ex < c[0] + 3:
                        continue
                    if j == len(s) - 1 and not stop:
                        continue
                    if st + 3 * a < J < st + 3 * b and cl.valid(p):
                        must.add(p)
    if must:
        donor_ref = cl.digest(R.protein(donor_tx))
        must = {p for p in must if p not in canonical and p not in donor_ref}
    return may, must
